#!/usr/bin/env python3
"""
Tie T: fail-closed translator from a whitelisted subset of polyply's Python source to
Gallina.  It reads the *current* files under the repo, and writes coq/theories/gen/*.v.

For numeric kernels each target is emitted twice from one intermediate form:
  <out>_R.v  against PV.lib.RNum (Coq reals; the theorems are proved about this text)
  <out>_F.v  against PV.lib.FNum (PrimFloat; evaluated with vm_compute and compared with
             the Python function on the same inputs: translator validation)
Table / skeleton extractors emit a single <out>.v of plain data (strings, Z, lists).

Anything outside the whitelist raises TranslateError; the caller records the error for
the target and the properties depending on that gen file report a broken obligation.
Only the python standard library is used.
"""
import ast
import hashlib
import os
import sys
from fractions import Fraction


class TranslateError(Exception):
    pass


# --------------------------------------------------------------------------- source
class Source:
    def __init__(self, repo, relpath):
        self.relpath = relpath
        self.path = os.path.join(repo, relpath)
        with open(self.path, encoding='utf8') as fh:
            self.text = fh.read()
        self.tree = ast.parse(self.text)

    def find_def(self, qualname):
        parts = qualname.split('.')
        body = self.tree.body
        node = None
        for part in parts:
            node = None
            for item in body:
                if isinstance(item, (ast.FunctionDef, ast.ClassDef)) and item.name == part:
                    node = item
            if node is None:
                raise TranslateError(f"{self.relpath}: definition {qualname} not found")
            body = node.body
        return node

    def find_assign(self, name):
        found = None
        for item in self.tree.body:
            if isinstance(item, ast.Assign) and len(item.targets) == 1 \
                    and isinstance(item.targets[0], ast.Name) and item.targets[0].id == name:
                found = item
        if found is None:
            raise TranslateError(f"{self.relpath}: module-level assignment {name} not found")
        return found

    def segment(self, node):
        return ast.get_source_segment(self.text, node)

    def stamp(self, node):
        seg = self.segment(node) or ''
        return (f"{self.relpath}:{node.lineno}-{getattr(node, 'end_lineno', node.lineno)}",
                hashlib.sha256(seg.encode()).hexdigest())


# --------------------------------------------------------------------------- IR
# expressions are tuples (tag, type, ...) ; types: 'S' scalar, 'V' vec3, 'M' mat3, 'B' bool,
# 'Cols' list of vec3 (columns of a 3xN array), ('T', t1, t2, ...) tuples.

def ty(e):
    return e[1]


class NumPrinter:
    """prints IR in mode 'R' or 'F'"""

    def __init__(self, mode):
        self.mode = mode

    def const(self, frac, text):
        if self.mode == 'R':
            if frac.denominator == 1:
                n = frac.numerator
                return f"{n}" if n >= 0 else f"(-{-n})"
            n, d = frac.numerator, frac.denominator
            return f"({n} / {d})" if n >= 0 else f"(-{-n} / {d})"
        val = float(text) if text is not None else float(frac)
        h = val.hex()
        return f"({h})" if val < 0 else h

    def p(self, e):
        tag = e[0]
        if tag == 'const':
            return self.const(e[2], e[3])
        if tag == 'var':
            return e[2]
        if tag == 'app':
            return "(" + e[2] + "".join(" " + self.p(a) for a in e[3]) + ")"
        if tag == 'bin':
            return f"({self.p(e[3])} {e[2]} {self.p(e[4])})"
        if tag == 'neg':
            return f"(- {self.p(e[2])})"
        if tag == 'if':
            return f"(if {self.p(e[2])} then {self.p(e[3])} else {self.p(e[4])})"
        if tag == 'let':
            return f"(let {e[2]} := {self.p(e[3])} in\n  {self.p(e[4])})"
        if tag == 'tuple':
            return "(" + ", ".join(self.p(a) for a in e[2]) + ")"
        if tag == 'bool':
            return 'true' if e[2] else 'false'
        if tag == 'pow':
            base = self.p(e[2])
            return "(" + " * ".join([base] * e[3]) + ")"
        raise TranslateError(f"printer: unknown IR tag {tag}")


COQ_TY = {'S': 'num', 'V': 'vec', 'M': 'mat', 'B': 'bool', 'Cols': '(list vec)', 'Mode': 'mode'}


def coq_type(t):
    if t == 'B3':
        return '(bool * bool * bool)%type'
    if isinstance(t, tuple) and t[0] == 'T':
        return "(" + " * ".join(coq_type(x) for x in t[1:]) + ")%type"
    return COQ_TY[t]


# --------------------------------------------------------------------------- numeric translator
class NumFunc:
    """translate one python function (or a fragment of one) into IR"""

    NORM = {'norm', 'np.linalg.norm'}
    DOT = {'dot', 'np.dot'}
    CROSS = {'cross', 'np.cross'}

    def __init__(self, src, spec):
        self.src = src
        self.spec = spec
        self.env = {}          # python name -> (coq name, type)
        self.extra_params = []  # (coq name, type) created for opaque calls
        self.opaque = {}       # source text of opaque call -> coq name
        self.counter = 0

    def err(self, node, msg):
        raise TranslateError(f"{self.src.relpath}:{getattr(node, 'lineno', '?')}: {msg}: "
                             f"{self.src.segment(node) if hasattr(node, 'lineno') else node!r}")

    def dotted(self, node):
        if isinstance(node, ast.Name):
            return node.id
        if isinstance(node, ast.Attribute):
            base = self.dotted(node.value)
            return None if base is None else base + '.' + node.attr
        return None

    # ---------------------------------------------------------------- expressions
    def expr(self, node):
        subst = self.spec.get('subst', {})
        if subst and not isinstance(node, ast.Constant):
            try:
                text = ast.unparse(node)
            except Exception:
                text = None
            if text in subst:
                cname, t = subst[text]
                if cname not in [n for n, _ in self.extra_params]:
                    self.extra_params.append((cname, t))
                return ('var', t, cname)
        if isinstance(node, ast.Constant):
            if isinstance(node.value, bool):
                return ('bool', 'B', node.value)
            if isinstance(node.value, (int, float)):
                text = self.src.segment(node)
                try:
                    frac = Fraction(text)
                except (ValueError, TypeError):
                    frac = Fraction(node.value)
                    text = repr(node.value)
                return ('const', 'S', frac, text)
            self.err(node, "unsupported constant")
        if isinstance(node, (ast.Name, ast.Attribute)):
            name = self.dotted(node)
            if name in getattr(self, '_inline', {}):
                return self._inline[name]
            if name in self.env:
                cname, t = self.env[name]
                if t == 'Angle':
                    self.err(node, "angle used outside sin/cos")
                return ('var', t, cname)
            consts = self.spec.get('consts', {})
            if name in consts:
                return self.expr_const_ref(name, consts[name])
            self.err(node, f"unknown name {name}")
        if isinstance(node, ast.UnaryOp):
            if isinstance(node.op, ast.USub):
                a = self.expr(node.operand)
                if ty(a) == 'S':
                    if a[0] == 'const':
                        return ('const', 'S', -a[2], '-' + a[3] if a[3] else None)
                    return ('neg', 'S', a)
                if ty(a) == 'V':
                    return ('app', 'V', 'vneg', [a])
                self.err(node, "negation of unsupported type")
            if isinstance(node.op, ast.Not):
                a = self.expr(node.operand)
                if ty(a) != 'B':
                    self.err(node, "not of non-bool")
                return ('app', 'B', 'negb', [a])
            if isinstance(node.op, ast.UAdd):
                return self.expr(node.operand)
            self.err(node, "unsupported unary operator")
        if isinstance(node, ast.BinOp):
            return self.binop(node)
        if isinstance(node, ast.BoolOp):
            vals = [self.expr(v) for v in node.values]
            for v in vals:
                if ty(v) != 'B':
                    self.err(node, "boolean operator on non-bool")
            op = 'andb' if isinstance(node.op, ast.And) else 'orb'
            out = vals[0]
            for v in vals[1:]:
                out = ('app', 'B', op, [out, v])
            return out
        if isinstance(node, ast.Compare):
            return self.compare(node)
        if isinstance(node, ast.IfExp):
            c, a, b = self.expr(node.test), self.expr(node.body), self.expr(node.orelse)
            if ty(c) != 'B' or ty(a) != ty(b):
                self.err(node, "ill-typed conditional expression")
            return ('if', ty(a), c, a, b)
        if isinstance(node, ast.Subscript):
            base = self.expr(node.value)
            idx = node.slice
            if isinstance(idx, ast.Constant) and isinstance(idx.value, int):
                i = idx.value
                if ty(base) == 'V' and 0 <= i <= 2:
                    return ('app', 'S', f'v{i}', [base])
                if ty(base) == 'M' and 0 <= i <= 2:
                    return ('app', 'V', f'm{i}', [base])
                if isinstance(ty(base), tuple) and ty(base)[0] == 'T':
                    n = len(ty(base)) - 1
                    if not 0 <= i < n:
                        self.err(node, "tuple index out of range")
                    return ('app', ty(base)[1 + i], f'tproj{n}_{i}', [base])
            self.err(node, "unsupported subscript")
        if isinstance(node, ast.Call):
            return self.call(node)
        if isinstance(node, ast.Tuple):
            elts = [self.expr(e) for e in node.elts]
            return ('tuple', ('T',) + tuple(ty(e) for e in elts), elts)
        if isinstance(node, ast.ListComp):
            return self.zip3_comprehension(node)
        self.err(node, "unsupported expression")

    def zip3_comprehension(self, node):
        """[<bool expr in a, b> for a, b in zip(<vec>, <params>[k:])] -> three booleans"""
        if len(node.generators) != 1 or node.generators[0].ifs or node.generators[0].is_async:
            self.err(node, "unsupported comprehension")
        gen = node.generators[0]
        if not (isinstance(gen.target, ast.Tuple) and len(gen.target.elts) == 2
                and all(isinstance(t, ast.Name) for t in gen.target.elts)):
            self.err(node, "comprehension target is not a pair of names")
        it = gen.iter
        if not (isinstance(it, ast.Call) and self.dotted(it.func) == 'zip' and len(it.args) == 2):
            self.err(node, "comprehension does not iterate over zip(a, b)")
        vec = self.expr(it.args[0])
        if ty(vec) != 'V':
            self.err(node, "first zip argument is not a vector")
        sl = it.args[1]
        if not (isinstance(sl, ast.Subscript) and isinstance(sl.slice, ast.Slice) and sl.slice.upper is None
                and sl.slice.step is None and isinstance(sl.slice.lower, ast.Constant)
                and isinstance(sl.slice.lower.value, int)):
            self.err(node, "second zip argument is not a tail slice params[k:]")
        base = self.expr(sl.value)
        k = sl.slice.lower.value
        tb = ty(base)
        if not (isinstance(tb, tuple) and tb[0] == 'T' and len(tb) - 1 >= k + 3 and all(x == 'S' for x in tb[1 + k:4 + k])):
            self.err(node, "tail slice does not provide three scalars")
        n = len(tb) - 1
        outs = []
        saved = dict(self.env)
        for i in range(3):
            self.env = dict(saved)
            an, bn = gen.target.elts[0].id, gen.target.elts[1].id
            ea = ('app', 'S', f'v{i}', [vec])
            eb = ('app', 'S', f'tproj{n}_{k + i}', [base])
            self.env[an] = (None, 'S')
            self.env[bn] = (None, 'S')
            self._inline = {an: ea, bn: eb}
            e = self.expr(node.elt)
            self._inline = {}
            if ty(e) != 'B':
                self.err(node, "comprehension element is not boolean")
            outs.append(e)
        self.env = saved
        return ('tuple', 'B3', outs)

    def expr_const_ref(self, name, value):
        frac = Fraction(str(value))
        return ('const', 'S', frac, str(value))

    def binop(self, node):
        a, b = self.expr(node.left), self.expr(node.right)
        ta, tb = ty(a), ty(b)
        op = node.op
        if isinstance(op, (ast.Add, ast.Sub)):
            sym = '+' if isinstance(op, ast.Add) else '-'
            if ta == tb == 'S':
                return ('bin', 'S', sym, a, b)
            if ta == tb == 'V':
                return ('app', 'V', 'vadd' if sym == '+' else 'vsub', [a, b])
        if isinstance(op, ast.Mult):
            if ta == tb == 'S':
                return ('bin', 'S', '*', a, b)
            if ta == 'S' and tb == 'V':
                return ('app', 'V', 'vscale', [a, b])
            if ta == 'V' and tb == 'S':
                return ('app', 'V', 'vscale_r', [a, b])
            if ta == tb == 'V':
                return ('app', 'V', 'vmul', [a, b])
        if isinstance(op, ast.Div):
            if ta == tb == 'S':
                return ('bin', 'S', '/', a, b)
            if ta == 'V' and tb == 'S':
                return ('app', 'V', 'vdivs', [a, b])
        if isinstance(op, ast.Mod):
            if ta == tb == 'S':
                return ('app', 'S', 'nmod', [a, b])
            if ta == tb == 'V':
                return ('app', 'V', 'vmod', [a, b])
        if isinstance(op, ast.Pow):
            if ta == 'S' and b[0] == 'const' and b[2].denominator == 1 and 1 <= b[2] <= 16:
                return ('pow', 'S', a, int(b[2]))
            if ta == 'S' and b[0] == 'const' and b[2] == Fraction(1, 2):
                return ('app', 'S', 'nsqrt', [a])
            if ta == 'S' and ast.unparse(node.right) == '1 / 3.0':
                return ('app', 'S', 'ncbrt', [a])
            # opaque power (fractional exponent): becomes a parameter with a contract
            return self.opaque_call(node, 'pow')
        self.err(node, f"unsupported binary operation on types {ta},{tb}")

    CMP = {ast.Lt: 'nltb', ast.LtE: 'nleb', ast.Gt: 'ngtb', ast.GtE: 'ngeb'}
    VCMP = {ast.Lt: 'vall_lt', ast.LtE: 'vall_le', ast.GtE: 'vall_ge'}

    def compare(self, node, vector_all=False):
        if len(node.ops) != 1:
            # chained comparison a < b < c
            parts = []
            left = node.left
            for op, right in zip(node.ops, node.comparators):
                sub = ast.Compare(left=left, ops=[op], comparators=[right])
                ast.copy_location(sub, node)
                parts.append(self.compare(sub, vector_all))
                left = right
            out = parts[0]
            for p in parts[1:]:
                out = ('app', 'B', 'andb', [out, p])
            return out
        op = type(node.ops[0])
        rhs = node.comparators[0]
        if isinstance(rhs, ast.Constant) and isinstance(rhs.value, str):
            a = self.expr(node.left)
            if ty(a) == 'Mode' and op in (ast.Eq, ast.NotEq) and rhs.value in ('in', 'out'):
                e = ('app', 'B', 'mode_is_in' if rhs.value == 'in' else 'mode_is_out', [a])
                return e if op is ast.Eq else ('app', 'B', 'negb', [e])
            self.err(node, "unsupported string comparison")
        a, b = self.expr(node.left), self.expr(node.comparators[0])
        if ty(a) == ty(b) == 'S' and op in self.CMP:
            return ('app', 'B', self.CMP[op], [a, b])
        if ty(a) == ty(b) == 'V' and vector_all and op in self.VCMP:
            return ('app', 'B', self.VCMP[op], [a, b])
        if ty(a) == ty(b) == 'S' and op in (ast.Eq, ast.NotEq):
            e = ('app', 'B', 'andb', [('app', 'B', 'nleb', [a, b]), ('app', 'B', 'nleb', [b, a])])
            return e if op is ast.Eq else ('app', 'B', 'negb', [e])
        self.err(node, "unsupported comparison")

    def opaque_call(self, node, kind):
        text = self.src.segment(node)
        if text not in self.opaque:
            allowed = self.spec.get('opaque', {})
            if text not in allowed:
                self.err(node, f"opaque {kind} expression not declared in sigs")
            cname = allowed[text]
            self.opaque[text] = cname
            self.extra_params.append((cname, 'S'))
        return ('var', 'S', self.opaque[text])

    def call(self, node):
        fname = self.dotted(node.func)
        args = node.args
        if fname in ('np.sin', 'np.cos', 'sin', 'cos'):
            if len(args) == 1 and isinstance(args[0], ast.Name) and \
                    self.env.get(args[0].id, (None, None))[1] == 'Angle':
                kind = fname.split('.')[-1]
                return ('var', 'S', f"{kind}_{args[0].id}")
            return self.opaque_call(node, fname)
        if fname in ('np.exp', 'np.arccos', 'arccos', 'np.deg2rad', 'degrees', 'np.degrees',
                     'np.power', 'np.cbrt'):
            return self.opaque_call(node, fname)
        if fname in ('np.array', 'array'):
            if not args or not isinstance(args[0], ast.List):
                self.err(node, "np.array of non-literal")
            for kw in node.keywords:
                if kw.arg != 'dtype':
                    self.err(node, "np.array keyword")
            elts = args[0].elts
            if len(elts) != 3:
                self.err(node, "np.array literal is not length 3")
            if all(isinstance(e, ast.List) for e in elts):
                rows = []
                for row in elts:
                    if len(row.elts) != 3:
                        self.err(node, "matrix row is not length 3")
                    comps = [self.expr(c) for c in row.elts]
                    if any(ty(c) != 'S' for c in comps):
                        self.err(node, "matrix entry not scalar")
                    rows.append(('app', 'V', 'mkv', comps))
                return ('app', 'M', 'mkm', rows)
            comps = [self.expr(c) for c in elts]
            if any(ty(c) != 'S' for c in comps):
                self.err(node, "vector entry not scalar")
            return ('app', 'V', 'mkv', comps)
        if fname in self.NORM and len(args) == 1 and isinstance(args[0], ast.Subscript) \
                and isinstance(args[0].slice, ast.Slice) and args[0].slice.lower is None \
                and isinstance(args[0].slice.upper, ast.Constant) and args[0].slice.upper.value == 2 \
                and args[0].slice.step is None:
            a = self.expr(args[0].value)
            if ty(a) != 'V':
                self.err(node, "norm of a slice of a non-vector")
            return ('app', 'S', 'vnorm_xy', [a])
        if fname == 'all' and len(args) == 1:
            a = self.expr(args[0])
            if ty(a) != 'B3':
                self.err(node, "all() of something that is not a 3-element check list")
            return ('app', 'B', 'all3', [a])
        if fname in self.NORM and len(args) == 1:
            a = self.expr(args[0])
            if ty(a) != 'V':
                self.err(node, "norm of non-vector")
            return ('app', 'S', 'vnorm', [a])
        if fname in self.DOT and len(args) == 2:
            a, b = self.expr(args[0]), self.expr(args[1])
            if ty(a) == ty(b) == 'V':
                return ('app', 'S', 'vdot', [a, b])
            self.err(node, "dot of non-vectors")
        if fname in self.CROSS and len(args) == 2:
            a, b = self.expr(args[0]), self.expr(args[1])
            if ty(a) == ty(b) == 'V':
                return ('app', 'V', 'vcross', [a, b])
            self.err(node, "cross of non-vectors")
        if fname in ('np.abs', 'abs', 'np.absolute') and len(args) == 1:
            a = self.expr(args[0])
            if ty(a) == 'S':
                return ('app', 'S', 'nabs', [a])
            if ty(a) == 'V':
                return ('app', 'V', 'vabs', [a])
        if fname in ('np.sqrt', 'sqrt') and len(args) == 1:
            a = self.expr(args[0])
            if ty(a) == 'S':
                return ('app', 'S', 'nsqrt', [a])
        if fname == 'np.sign' and len(args) == 1:
            a = self.expr(args[0])
            if ty(a) == 'S':
                return ('app', 'S', 'nsign', [a])
        if fname == 'float' and len(args) == 1:
            return self.expr(args[0])
        if fname in ('np.min', 'np.max') and len(args) == 1 and isinstance(args[0], ast.Call) \
                and self.dotted(args[0].func) == 'np.vstack' and len(args[0].args) == 1 \
                and isinstance(args[0].args[0], ast.Tuple) and len(args[0].args[0].elts) == 2 \
                and len(node.keywords) == 1 and node.keywords[0].arg == 'axis' \
                and isinstance(node.keywords[0].value, ast.Constant) and node.keywords[0].value.value == 0:
            a, b = [self.expr(e) for e in args[0].args[0].elts]
            if ty(a) == ty(b) == 'V':
                return ('app', 'V', 'vminc' if fname == 'np.min' else 'vmaxc', [a, b])
            self.err(node, "componentwise min/max of non-vectors")
        if fname == 'np.all' and len(args) == 1 and isinstance(args[0], ast.Compare):
            return self.compare(args[0], vector_all=True)
        if fname in ('matrix_multiplication', '_matrix_multiplication'):
            vals = [self.expr(a) for a in args]
            if len(vals) >= 2 and all(ty(v) == 'M' for v in vals[:-1]):
                acc = vals[0]
                for v in vals[1:-1]:
                    acc = ('app', 'M', 'mmul', [acc, v])
                last = vals[-1]
                if ty(last) == 'M':
                    return ('app', 'M', 'mmul', [acc, last])
                if ty(last) == 'Cols':
                    return ('app', 'Cols', 'mcols', [acc, last])
                if ty(last) == 'V':
                    return ('app', 'V', 'mvmul', [acc, last])
            self.err(node, "unsupported matrix_multiplication argument types")
        calls = self.spec.get('calls', {})
        if fname in calls:
            cname, argtys, rett = calls[fname]
            vals = [self.expr(a) for a in args]
            if [ty(v) for v in vals] != list(argtys):
                self.err(node, f"call {fname}: argument types {[ty(v) for v in vals]} != {argtys}")
            return ('app', rett, cname, vals)
        self.err(node, f"call to {fname} is not on the whitelist")

    # ---------------------------------------------------------------- statements
    def bind(self, pyname, e):
        self.counter += 1
        cname = pyname.replace('.', '_')
        if pyname in self.env:
            cname = f"{cname}_{self.counter}"
        self.env[pyname] = (cname, ty(e))
        return cname

    def block(self, stmts, cont=None):
        """translate a statement list ending in return (on every path) into an expression"""
        if not stmts:
            if cont is not None:
                return cont()
            raise TranslateError(f"{self.src.relpath}: control reaches end of {self.spec['func']} without return")
        st, rest = stmts[0], stmts[1:]
        if isinstance(st, ast.Expr) and isinstance(st.value, ast.Constant) and isinstance(st.value.value, str):
            return self.block(rest, cont)
        for prefix in self.spec.get('skip', ()):
            if ast.unparse(st).startswith(prefix):
                return self.block(rest, cont)
        if isinstance(st, ast.Return):
            if st.value is None:
                self.err(st, "bare return")
            if 'ret_elt' in self.spec:
                if not isinstance(st.value, ast.Tuple):
                    self.err(st, "ret_elt given but the function does not return a tuple literal")
                return self.expr(st.value.elts[self.spec['ret_elt']])
            return self.expr(st.value)
        if isinstance(st, ast.Assign):
            if len(st.targets) != 1:
                self.err(st, "multiple assignment targets")
            tgt = st.targets[0]
            if isinstance(tgt, ast.Name):
                e = self.expr(st.value)
                saved = dict(self.env)
                cname = self.bind(tgt.id, e)
                body = self.block(rest, cont)
                return ('let', ty(body), cname, e, body)
            if isinstance(tgt, ast.Tuple) and all(isinstance(t, ast.Name) for t in tgt.elts):
                # a, b = x, y    or  a, b = tuple-typed expression
                if isinstance(st.value, ast.Tuple) and len(st.value.elts) == len(tgt.elts):
                    vals = [self.expr(v) for v in st.value.elts]
                    names = [self.bind(t.id, v) for t, v in zip(tgt.elts, vals)]
                    body = self.block(rest, cont)
                    for n, v in reversed(list(zip(names, vals))):
                        body = ('let', ty(body), n, v, body)
                    return body
                e = self.expr(st.value)
                if isinstance(ty(e), tuple) and len(ty(e)) - 1 == len(tgt.elts):
                    n = len(tgt.elts)
                    tmp = self.bind('_tup', e)
                    tmpv = ('var', ty(e), tmp)
                    projs = [('app', ty(e)[1 + i], f'tproj{n}_{i}', [tmpv]) for i in range(n)]
                    names = [self.bind(t.id, p) for t, p in zip(tgt.elts, projs)]
                    body = self.block(rest, cont)
                    for nm, p in reversed(list(zip(names, projs))):
                        body = ('let', ty(body), nm, p, body)
                    return ('let', ty(body), tmp, e, body)
            self.err(st, "unsupported assignment target")
        if isinstance(st, ast.AugAssign) and isinstance(st.target, ast.Name):
            fake = ast.BinOp(left=ast.Name(id=st.target.id, ctx=ast.Load()), op=st.op, right=st.value)
            ast.copy_location(fake, st)
            ast.fix_missing_locations(fake)
            e = self.binop_from_parts(st, st.target.id, st.op, st.value)
            cname = self.bind(st.target.id, e)
            body = self.block(rest, cont)
            return ('let', ty(body), cname, e, body)
        if isinstance(st, ast.If):
            c = self.expr(st.test)
            if ty(c) != 'B':
                self.err(st.test, "if-condition is not boolean")
            saved = dict(self.env)
            # both branches continue with `rest` (duplicated; kernels are small)
            a = self.block(list(st.body) + rest, cont)
            self.env = dict(saved)
            b = self.block(list(st.orelse) + rest, cont)
            self.env = saved
            if ty(a) != ty(b):
                self.err(st, f"branches return different types {ty(a)} / {ty(b)}")
            return ('if', ty(a), c, a, b)
        self.err(st, "unsupported statement")

    def binop_from_parts(self, st, name, op, value):
        left = self.expr(ast.copy_location(ast.Name(id=name, ctx=ast.Load()), st))
        node = ast.BinOp(left=ast.copy_location(ast.Name(id=name, ctx=ast.Load()), st), op=op, right=value)
        ast.copy_location(node, st)
        return self.binop(node)

    # ---------------------------------------------------------------- entry points
    def setup_params(self):
        params = []
        for pyname, t in self.spec['params']:
            if t == 'Angle':
                self.env[pyname] = (pyname, 'Angle')
                params.append((f"sin_{pyname}", 'S'))
                params.append((f"cos_{pyname}", 'S'))
            elif t == 'skip':
                continue
            else:
                cname = pyname.replace('.', '_')
                self.env[pyname] = (cname, t)
                params.append((cname, t))
        return params

    def translate_function(self):
        node = self.src.find_def(self.spec['func'])
        if not isinstance(node, ast.FunctionDef):
            raise TranslateError(f"{self.spec['func']} is not a function")
        declared = [p for p, _ in self.spec['params']]
        actual = [a.arg for a in node.args.args]
        if actual != declared:
            raise TranslateError(f"{self.src.relpath}: parameters of {self.spec['func']} are {actual}, "
                                 f"signature table says {declared}")
        params = self.setup_params()
        stmts = list(node.body)
        if 'after' in self.spec:
            idx = [i for i, st in enumerate(stmts) if ast.unparse(st).startswith(self.spec['after'])]
            if len(idx) != 1:
                raise TranslateError(f"{self.src.relpath}: expected exactly one statement starting with "
                                     f"{self.spec['after']!r} in {self.spec['func']}, found {len(idx)}")
            stmts = stmts[idx[0] + 1:]
            for pyname, t in self.spec.get('tail_params', ()):
                cname = pyname.replace('.', '_')
                self.env[pyname] = (cname, t)
                params.append((cname, t))
        body = self.block(stmts)
        return node, params, body

    def translate_assign_rhs(self):
        """translate the right-hand side of the unique assignment `var = ...` inside func"""
        fn = self.src.find_def(self.spec['func'])
        hits = [n for n in ast.walk(fn) if isinstance(n, ast.Assign) and len(n.targets) == 1
                and self.dotted(n.targets[0]) == self.spec['var']]
        if 'pick' in self.spec and len(hits) > self.spec['pick']:
            hits = [sorted(hits, key=lambda n: n.lineno)[self.spec['pick']]]
        if len(hits) != 1:
            raise TranslateError(f"{self.src.relpath}: expected exactly one assignment to "
                                 f"{self.spec['var']} in {self.spec['func']}, found {len(hits)}")
        params = self.setup_params()
        body = self.expr(hits[0].value)
        return hits[0], params, body

    def translate_compare_const(self):
        """the constant on the right of the unique comparison `<left> <op> <const>` inside func"""
        fn = self.src.find_def(self.spec['func'])
        want_op = {'<': ast.Lt, '<=': ast.LtE, '>': ast.Gt, '>=': ast.GtE}[self.spec['op']]
        hits = [n for n in ast.walk(fn) if isinstance(n, ast.Compare) and len(n.ops) == 1
                and ast.unparse(n.left) == self.spec['left']]
        if len(hits) != 1:
            raise TranslateError(f"{self.src.relpath}: expected exactly one comparison with left side "
                                 f"{self.spec['left']!r} in {self.spec['func']}, found {len(hits)}")
        node = hits[0]
        if not isinstance(node.ops[0], want_op):
            raise TranslateError(f"{self.src.relpath}:{node.lineno}: comparison operator is "
                                 f"{type(node.ops[0]).__name__}, signature table says {self.spec['op']}")
        c = self.expr(node.comparators[0])
        if c[0] != 'const':
            self.err(node, "comparison bound is not a numeric literal")
        return node, [], c

    def translate_return_expr(self):
        """function whose body is docstring + single return"""
        return self.translate_function()


def emit_numeric(repo, out, specs, errors):
    """specs: list of numeric target specs sharing one output pair"""
    chunks = {'R': [], 'F': []}
    stamps = []
    for spec in specs:
        try:
            src = Source(repo, spec['file'])
            nf = NumFunc(src, spec)
            if spec.get('kind', 'function') == 'assign_rhs':
                node, params, body = nf.translate_assign_rhs()
            elif spec.get('kind') == 'compare_const':
                node, params, body = nf.translate_compare_const()
            else:
                node, params, body = nf.translate_function()
            params = params + nf.extra_params
            if 'ret' in spec and ty(body) != spec['ret']:
                raise TranslateError(f"{spec['file']}: {spec['func']} returns type {ty(body)}, "
                                     f"signature table says {spec['ret']}")
            where, sha = src.stamp(node)
            stamps.append({'name': spec['name'], 'where': where, 'sha256': sha})
            for mode in 'RF':
                pr = NumPrinter(mode)
                ps = " ".join(f"({n} : {coq_type(t)})" for n, t in params)
                chunks[mode].append(
                    f"(* {spec['name']} <- {where} sha256={sha} *)\n"
                    f"Definition {spec['name']} {ps} : {coq_type(ty(body))} :=\n  {pr.p(body)}.\n")
        except (TranslateError, OSError, SyntaxError) as exc:
            errors.append({'target': spec['name'], 'out': out, 'error': str(exc)})
            # the definition is left out: dependent proofs fail to compile (fail-closed)
    header = {
        'R': "From Coq Require Import Reals List Bool.\nFrom PV Require Import RNum.\nImport ListNotations.\nLocal Open Scope R_scope.\n",
        'F': "From Coq Require Import PrimFloat List Bool.\nFrom PV Require Import FNum.\nImport ListNotations.\nLocal Open Scope float_scope.\n",
    }
    proj = ""
    files = {}
    imports = sorted({imp for spec in specs for imp in spec.get('imports', ())})
    for mode in 'RF':
        imp = "".join(f"From PV Require Import {i}_{mode}.\n" for i in imports)
        files[f"{out}_{mode}.v"] = ("(* GENERATED by gen/translate.py from the current repo source -- do not edit *)\n"
                                    + header[mode] + "From PV Require Import Mode Tproj.\n" + imp + proj + "\n" + "\n".join(chunks[mode]))
    return files, stamps


# --------------------------------------------------------------------------- data extractors
def coq_string(s):
    return '"' + s.replace('"', '""') + '"'


def literal_value(src, node):
    try:
        return ast.literal_eval(node)
    except Exception:
        raise TranslateError(f"{src.relpath}:{node.lineno}: not a literal: {src.segment(node)}")


def emit_string_dict(repo, spec):
    src = Source(repo, spec['file'])
    node = src.find_assign(spec['var'])
    val = literal_value(src, node.value)
    if not isinstance(val, dict) or not all(isinstance(k, str) and isinstance(v, str) for k, v in val.items()):
        raise TranslateError(f"{spec['file']}: {spec['var']} is not a dict of strings")
    # duplicate keys in a dict literal: python keeps the last; ast.literal_eval does the same
    where, sha = src.stamp(node)
    items = "; ".join(f"({coq_string(k)}, {coq_string(v)})" for k, v in val.items())
    text = (f"(* {spec['name']} <- {where} sha256={sha} *)\n"
            f"Definition {spec['name']} : list (string * string) := [{items}].\n")
    return text, {'name': spec['name'], 'where': where, 'sha256': sha}


def emit_int_compare_const(repo, spec):
    src = Source(repo, spec['file'])
    fn = src.find_def(spec['func'])
    want_op = {'<': ast.Lt, '<=': ast.LtE, '>': ast.Gt, '>=': ast.GtE}[spec['op']]
    hits = [n for n in ast.walk(fn) if isinstance(n, ast.Compare) and len(n.ops) == 1
            and ast.unparse(n.left) == spec['left']]
    if len(hits) != 1:
        raise TranslateError(f"{spec['file']}: expected exactly one comparison with left side {spec['left']!r} "
                             f"in {spec['func']}, found {len(hits)}")
    node = hits[0]
    if not isinstance(node.ops[0], want_op):
        raise TranslateError(f"{spec['file']}:{node.lineno}: comparison operator is {type(node.ops[0]).__name__}, "
                             f"signature table says {spec['op']}")
    c = node.comparators[0]
    if not (isinstance(c, ast.Constant) and isinstance(c.value, int) and not isinstance(c.value, bool)):
        raise TranslateError(f"{spec['file']}:{node.lineno}: bound is not an integer literal")
    where, sha = src.stamp(node)
    text = (f"(* {spec['name']} <- {where} sha256={sha} : {ast.unparse(node)} *)\n"
            f"Definition {spec['name']} : Z := {c.value}.\n")
    return text, {'name': spec['name'], 'where': where, 'sha256': sha}


def emit_cleanup_arg(repo, spec):
    """second argument of every remove_positions(...) call inside func: emits
    `cleanup_all = true` when it is the whole molecule (molecule.nodes) and `false` when it is a
    name bound to the comprehension over nodes filtered by the `build` attribute; anything else
    is rejected"""
    src = Source(repo, spec['file'])
    fn = src.find_def(spec['func'])
    calls = [n for n in ast.walk(fn) if isinstance(n, ast.Call) and isinstance(n.func, ast.Attribute)
             and n.func.attr == 'remove_positions']
    if not calls:
        raise TranslateError(f"{spec['file']}: no remove_positions call in {spec['func']}")
    kinds = set()
    for c in calls:
        if len(c.args) != 2:
            raise TranslateError(f"{spec['file']}:{c.lineno}: unexpected remove_positions arguments")
        arg = ast.unparse(c.args[1])
        if arg == 'molecule.nodes':
            kinds.add('all')
        elif isinstance(c.args[1], ast.Name):
            binds = [n for n in ast.walk(fn) if isinstance(n, ast.Assign) and len(n.targets) == 1
                     and isinstance(n.targets[0], ast.Name) and n.targets[0].id == c.args[1].id]
            if len(binds) != 1:
                raise TranslateError(f"{spec['file']}:{c.lineno}: {arg} is not bound exactly once")
            text = ast.unparse(binds[0].value).replace(' ', '')
            ok = ("[nodefornodeinmolecule.nodesifmolecule.nodes[node].get('build',True)]",
                  "[nodefornodeinmolecule.nodesifmolecule.nodes[node]['build']]")
            if text not in ok:
                raise TranslateError(f"{spec['file']}:{binds[0].lineno}: unrecognised clean-up set {text}")
            kinds.add('built')
        else:
            raise TranslateError(f"{spec['file']}:{c.lineno}: unrecognised clean-up argument {arg}")
    if len(kinds) != 1:
        raise TranslateError(f"{spec['file']}: the remove_positions calls of {spec['func']} disagree: {sorted(kinds)}")
    where, sha = src.stamp(fn)
    val = 'true' if kinds == {'all'} else 'false'
    text = (f"(* {spec['name']} <- {where} sha256={sha} *)\n"
            f"Definition {spec['name']} : bool := {val}.\n")
    return text, {'name': spec['name'], 'where': where, 'sha256': sha}


EXTRACTORS = {'string_dict': emit_string_dict, 'int_compare_const': emit_int_compare_const,
              'cleanup_arg': emit_cleanup_arg}


def register_extractor(kind, fn):
    EXTRACTORS[kind] = fn


def emit_data(repo, out, specs, errors):
    chunks, stamps = [], []
    for spec in specs:
        try:
            text, stamp = EXTRACTORS[spec['kind']](repo, spec)
            chunks.append(text)
            stamps.append(stamp)
        except (TranslateError, OSError, SyntaxError, KeyError) as exc:
            errors.append({'target': spec['name'], 'out': out, 'error': str(exc)})
    header = ("(* GENERATED by gen/translate.py from the current repo source -- do not edit *)\n"
              "From Coq Require Import ZArith String List Bool.\nImport ListNotations.\n"
              + ("From PV Require Import EffectKinds.\n" if out == 'Gen_effects' else "")
              + "Local Open Scope string_scope.\nLocal Open Scope Z_scope.\n\n")
    return {f"{out}.v": header + "\n".join(chunks)}, stamps


# --------------------------------------------------------------------------- driver
def run(repo, outdir, only=None):
    """regenerate all gen files; returns dict(errors=[...], stamps=[...], files=[...])"""
    here = os.path.dirname(os.path.abspath(__file__))
    sys.path.insert(0, here)
    import sigs  # noqa
    import extractors  # noqa  (registers the structural extractors)
    if 'translate' in sys.modules and sys.modules['translate'].EXTRACTORS is not EXTRACTORS:
        EXTRACTORS.update(sys.modules['translate'].EXTRACTORS)
    errors, stamps, written = [], [], []
    os.makedirs(outdir, exist_ok=True)
    for out, group in sigs.NUMERIC.items():
        if only and out not in only:
            continue
        files, st = emit_numeric(repo, out, group, errors)
        stamps += [dict(s, out=out) for s in st]
        for fn, text in files.items():
            written.append(write_if_changed(os.path.join(outdir, fn), text))
    for out, group in sigs.DATA.items():
        if only and out not in only:
            continue
        files, st = emit_data(repo, out, group, errors)
        stamps += [dict(s, out=out) for s in st]
        for fn, text in files.items():
            written.append(write_if_changed(os.path.join(outdir, fn), text))
    return {'errors': errors, 'stamps': stamps, 'files': written}


def write_if_changed(path, text):
    old = None
    if os.path.exists(path):
        with open(path, encoding='utf8') as fh:
            old = fh.read()
    if old != text:
        tmp = path + '.tmp'
        with open(tmp, 'w', encoding='utf8') as fh:
            fh.write(text)
        os.replace(tmp, path)
    return os.path.basename(path)


if __name__ == '__main__':
    import json
    repo = sys.argv[1] if len(sys.argv) > 1 else '/repo'
    outdir = sys.argv[2] if len(sys.argv) > 2 else os.path.join(os.path.dirname(os.path.abspath(__file__)),
                                                                '..', 'coq', 'theories', 'gen')
    res = run(repo, outdir)
    print(json.dumps(res, indent=1))
    sys.exit(1 if res['errors'] else 0)
