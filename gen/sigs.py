"""
Signature table of the translator (tie T): which source items are translated, with the
types of their parameters.  Types: S scalar, V vec3, M mat3, B bool, Cols = columns of a
3xN array, Angle = a number that may only flow into sin/cos (each becomes two parameters
sin_<name>, cos_<name> so that theorems quantify over every value with c^2+s^2=1).
"""

NUMERIC = {
    'Gen_linalg': [
        dict(name='rotate_xyz', file='polyply/src/linalg_functions.py', func='_rotate_xyz',
             params=[('object_xyz', 'Cols'), ('theta_x', 'Angle'), ('theta_y', 'Angle'), ('theta_z', 'Angle')],
             ret='Cols'),
        dict(name='pbc_complete', file='polyply/src/linalg_functions.py', func='pbc_complete',
             params=[('point', 'V'), ('maxdim', 'V')], ret='V'),
        dict(name='not_exceeds_max_dimensions', file='polyply/src/linalg_functions.py',
             func='not_exceeds_max_dimensions', params=[('point', 'V'), ('maxdim', 'V')], ret='B'),
        dict(name='u_vect', file='polyply/src/linalg_functions.py', func='_u_vect',
             params=[('vect', 'V')], ret='V'),
    ],
    'Gen_engine': [
        dict(name='lj_force', file='polyply/src/nonbond_engine.py', func='_lennard_jones_force',
             params=[('dist', 'S'), ('point', 'V'), ('ref', 'V'), ('params', ('T', 'S', 'S'))], ret='V'),
        dict(name='pbc_min_vec', file='polyply/src/nonbond_engine.py', func='NonBondEngine.pbc_min_dist',
             kind='assign_rhs', var='min_dist', params=[('pos_a', 'V'), ('pos_b', 'V'), ('box', 'V')], ret='V'),
        dict(name='pbc_min_norm', file='polyply/src/nonbond_engine.py', func='NonBondEngine.pbc_min_dist',
             kind='assign_rhs', var='dist', params=[('min_dist', 'V')], ret='S'),
        dict(name='overlap_floor', file='polyply/src/nonbond_engine.py', func='NonBondEngine.compute_force_point',
             kind='compare_const', left='np.array(list(dist_mat.values()))', op='<', params=[], ret='S'),
    ],
    'Gen_walk': [
        dict(name='take_step', file='polyply/src/random_walk.py', func='_take_step', imports=['Gen_linalg'],
             params=[('vectors', 'skip'), ('step_length', 'S'), ('coord', 'V'), ('box', 'V')],
             skip=['index = random.randint'], subst={'vectors[index]': ('vector', 'V')}, ret_elt=0,
             calls={'pbc_complete': ('pbc_complete', ['V', 'V'], 'V')}, ret='V'),
        dict(name='in_sphere', file='polyply/src/random_walk.py', func='in_sphere',
             params=[('point', 'V'), ('parameters', ('T', 'Mode', 'V', 'S'))], ret='B'),
        dict(name='in_cylinder', file='polyply/src/random_walk.py', func='in_cylinder',
             params=[('point', 'V'), ('parameters', ('T', 'Mode', 'V', 'S', 'S'))], ret='B'),
        dict(name='in_rectangle', file='polyply/src/random_walk.py', func='in_rectangle',
             params=[('point', 'V'), ('parameters', ('T', 'Mode', 'V', 'S', 'S', 'S'))], ret='B'),
        dict(name='is_restricted_tail', file='polyply/src/random_walk.py', func='is_restricted',
             params=[('point', 'V'), ('old_point', 'V'), ('node_dict', 'skip')],
             after='normal, ref_angle = node_dict', tail_params=[('normal', 'V'), ('ref_angle', 'S')],
             subst={'_vector_angle_degrees(normal, point - old_point)': ('angle_deg', 'S')}, ret='B'),
        dict(name='lorentz_berthelot_rule', file='polyply/src/topology.py', func='lorentz_berthelot_rule',
             params=[('sig_A', 'S'), ('sig_B', 'S'), ('eps_A', 'S'), ('eps_B', 'S')], ret=('T', 'S', 'S')),
    ],
    'Gen_restraints': [
        dict(name='upper_bound', file='polyply/src/restraints.py', func='set_distance_restraint', kind='assign_rhs',
             var='upper_bound', params=[('graph_distance', 'S'), ('avg_step_length', 'S'), ('distance', 'S'), ('tolerance', 'S')], ret='S'),
        dict(name='avg_needed_step_length', file='polyply/src/restraints.py', func='set_distance_restraint', kind='assign_rhs',
             var='avg_needed_step_length', params=[('distance', 'S')],
             subst={'graph_distances_target[ref_node]': ('gd_target_ref', 'S')}, ret='S'),
        dict(name='lower_bound', file='polyply/src/restraints.py', func='set_distance_restraint', kind='assign_rhs',
             var='lower_bound', params=[('avg_needed_step_length', 'S'), ('tolerance', 'S')],
             subst={'graph_distances_ref[node]': ('gd_ref_node', 'S')}, ret='S'),
    ],
    'Gen_topology': [
        dict(name='sig_of', file='polyply/src/topology.py', func='Topology.convert_nonbond_to_sig_eps', kind='assign_rhs',
             var='sig', pick=0, params=[('nb1', 'S'), ('nb2', 'S')], opaque={'(nb2/nb1)**(1.0/6.0)': 'sixth_root'}, ret='S'),
        dict(name='eps_of', file='polyply/src/topology.py', func='Topology.convert_nonbond_to_sig_eps', kind='assign_rhs',
             var='eps', pick=0, params=[('nb1', 'S'), ('nb2', 'S')], ret='S'),
        dict(name='lorentz_berthelot', file='polyply/src/topology.py', func='lorentz_berthelot_rule',
             params=[('sig_A', 'S'), ('sig_B', 'S'), ('eps_A', 'S'), ('eps_B', 'S')], ret=('T', 'S', 'S')),
        dict(name='geometric', file='polyply/src/topology.py', func='geometric_rule',
             params=[('C6_A', 'S'), ('C6_B', 'S'), ('C12_A', 'S'), ('C12_B', 'S')], ret=('T', 'S', 'S')),
    ],
    'Gen_box': [
        dict(name='box_edge', file='polyply/src/build_system.py', func='_compute_box_size', kind='assign_rhs',
             var='box', params=[('total_mass', 'S'), ('density', 'S')], ret='S'),
    ],
    'Gen_backmap': [
        dict(name='place_atom', file='polyply/src/backmap.py', func='Backmap._place_init_coords',
             kind='assign_rhs', var='new_coords',
             params=[('cg_coord', 'V'), ('vector', 'V'), ('self.fudge_coords', 'S')], ret='V'),
    ],
}

DATA = {
    'Gen_top': [
        dict(name='top_known_sections', kind='section_parsers', file='polyply/src/top_parser.py', cls='TOPDirector',
             inherited=[['macros']]),
    ],
    'Gen_effects': [
        dict(name='prog_gen_params', kind='effect_skeleton', file='polyply/src/gen_itp.py', func='gen_params'),
        dict(name='prog_gen_coords', kind='effect_skeleton', file='polyply/src/gen_coords.py', func='gen_coords'),
        dict(name='prog_gen_seq', kind='effect_skeleton', file='polyply/src/gen_seq.py', func='gen_seq'),
    ],
    'Gen_walk_skel': [
        dict(name='accept_conjuncts', kind='guard_conjuncts', file='polyply/src/random_walk.py',
             func='RandomWalk.update_positions', attr='add_positions'),
        dict(name='first_accept_conjuncts', kind='guard_conjuncts', file='polyply/src/random_walk.py',
             func='RandomWalk._random_walk', attr='add_positions'),
        dict(name='is_overlap_return', kind='return_expr', file='polyply/src/random_walk.py',
             func='RandomWalk._is_overlap'),
        dict(name='constrained_def', kind='assign_text', file='polyply/src/random_walk.py',
             func='RandomWalk._random_walk', var='constrained'),
        dict(name='step_length_def', kind='assign_text', file='polyply/src/random_walk.py',
             func='RandomWalk.update_positions', var='step_length'),
        dict(name='search_tree_dfs', kind='flag_branches', file='polyply/src/meta_molecule.py',
             func='MetaMolecule.search_tree', test='self.dfs'),
        dict(name='ee_arange', kind='assign_text', file='polyply/src/persistence.py',
             func='generate_end_end_distances', var='ee_distances', first=True),
        dict(name='grid_start', kind='assign_text', file='polyply/src/build_system.py',
             func='BuildSystem._handle_random_walk', var='start'),
    ],
    'Gen_build': [
        dict(name='cleanup_all', kind='cleanup_arg', file='polyply/src/build_system.py',
             func='BuildSystem._handle_random_walk'),
    ],
    'Gen_boxsel': [
        dict(name='box_choice', kind='option_chain', file='polyply/src/gen_coords.py', func='gen_coords', var='box'),
        dict(name='init_box', kind='init_box', file='polyply/src/build_system.py', func='BuildSystem.__init__'),
        dict(name='explicit_mass_guard', kind='guard_of_assign', file='polyply/src/build_system.py', func='_compute_box_size',
             target='total_mass', value="molecule.nodes[node]['mass']"),
        dict(name='type_mass_guard', kind='guard_of_assign', file='polyply/src/build_system.py', func='_compute_box_size',
             target='total_mass', value="topology.atom_types[atype]['mass']"),
    ],
    'Gen_engine_consts': [
        dict(name='tree_threshold', kind='int_compare_const', file='polyply/src/nonbond_engine.py',
             func='NonBondEngine.add_positions', left='self.position_trees[-1].n', op='>'),
    ],
    'Gen_seqtables': [
        dict(name='ONE_LETTER_DNA', kind='string_dict', file='polyply/src/simple_seq_parsers.py', var='ONE_LETTER_DNA'),
        dict(name='ONE_LETTER_RNA', kind='string_dict', file='polyply/src/simple_seq_parsers.py', var='ONE_LETTER_RNA'),
        dict(name='ONE_LETTER_AA', kind='string_dict', file='polyply/src/simple_seq_parsers.py', var='ONE_LETTER_AA'),
        dict(name='circular_strip_guard', kind='guard_of_assign', file='polyply/src/simple_seq_parsers.py', func='parse_ig',
             target='seq_graph.nodes[0]["resname"]'),
    ],
    'Gen_dna': [
        dict(name='BASE_LIBRARY', kind='string_dict', file='polyply/src/gen_dna.py', var='BASE_LIBRARY'),
    ],
}
