"""
Signature table of the translator (tie T): which source items are translated, with the
types of their parameters.  Types: S scalar, V vec3, M mat3, B bool, Cols = columns of a
3xN array, Angle = a number that may only flow into sin/cos (each becomes two parameters
sin_<name>, cos_<name> so that theorems quantify over every value with c^2+s^2=1).
"""

NUMERIC = {
    'Gen_linalg': [
        dict(name='rotate_xyz', file='polyply/src/linalg_functions.py', func='_rotate_xyz',
             params=[('object_xyz', 'Cols'), ('theta_x', 'Angle'), ('theta_y', 'Angle'), ('theta_z', 'Angle')],
             ret='Cols'),
        dict(name='pbc_complete', file='polyply/src/linalg_functions.py', func='pbc_complete',
             params=[('point', 'V'), ('maxdim', 'V')], ret='V'),
        dict(name='not_exceeds_max_dimensions', file='polyply/src/linalg_functions.py',
             func='not_exceeds_max_dimensions', params=[('point', 'V'), ('maxdim', 'V')], ret='B'),
        dict(name='u_vect', file='polyply/src/linalg_functions.py', func='_u_vect',
             params=[('vect', 'V')], ret='V'),
    ],
    'Gen_engine': [
        dict(name='lj_force', file='polyply/src/nonbond_engine.py', func='_lennard_jones_force',
             params=[('dist', 'S'), ('point', 'V'), ('ref', 'V'), ('params', ('T', 'S', 'S'))], ret='V'),
        dict(name='pbc_min_vec', file='polyply/src/nonbond_engine.py', func='NonBondEngine.pbc_min_dist',
             kind='assign_rhs', var='min_dist', params=[('pos_a', 'V'), ('pos_b', 'V'), ('box', 'V')], ret='V'),
        dict(name='pbc_min_norm', file='polyply/src/nonbond_engine.py', func='NonBondEngine.pbc_min_dist',
             kind='assign_rhs', var='dist', params=[('min_dist', 'V')], ret='S'),
        dict(name='overlap_floor', file='polyply/src/nonbond_engine.py', func='NonBondEngine.compute_force_point',
             kind='compare_const', left='np.array(list(dist_mat.values()))', op='<', params=[], ret='S'),
    ],
    'Gen_backmap': [
        dict(name='place_atom', file='polyply/src/backmap.py', func='Backmap._place_init_coords',
             kind='assign_rhs', var='new_coords',
             params=[('cg_coord', 'V'), ('vector', 'V'), ('self.fudge_coords', 'S')], ret='V'),
    ],
}

DATA = {
    'Gen_build': [
        dict(name='cleanup_all', kind='cleanup_arg', file='polyply/src/build_system.py',
             func='BuildSystem._handle_random_walk'),
    ],
    'Gen_engine_consts': [
        dict(name='tree_threshold', kind='int_compare_const', file='polyply/src/nonbond_engine.py',
             func='NonBondEngine.add_positions', left='self.position_trees[-1].n', op='>'),
    ],
    'Gen_dna': [
        dict(name='BASE_LIBRARY', kind='string_dict', file='polyply/src/gen_dna.py', var='BASE_LIBRARY'),
    ],
}
