"""Structural extractors (branch skeletons, guard conjunctions, effect skeletons) registered
with the translator.  Each takes (repo, spec) and returns (coq_text, stamp) or raises
TranslateError.  They emit plain data (strings, lists) about *which* code is where; the
theorems then contain side conditions on that data (e.g. "the overlap test is one of the
conjuncts guarding add_positions") that are re-checked on every run."""
import ast

from translate import register_extractor, TranslateError, Source, coq_string  # noqa: F401


def _flatten_and(node):
    if isinstance(node, ast.BoolOp) and isinstance(node.op, ast.And):
        out = []
        for v in node.values:
            out += _flatten_and(v)
        return out
    return [node]


def _calls_attr(stmts, attr):
    for st in stmts:
        for n in ast.walk(st):
            if isinstance(n, ast.Call) and isinstance(n.func, ast.Attribute) and n.func.attr == attr:
                return n
    return None


def guard_conjuncts(repo, spec):
    """conjuncts of the `if` whose body directly performs the call `.<attr>(...)`;
    every call of that attribute inside func must sit under exactly such a guard"""
    src = Source(repo, spec['file'])
    fn = src.find_def(spec['func'])
    guards = []
    for n in ast.walk(fn):
        if isinstance(n, ast.If) and _calls_attr(n.body, spec['attr']) is not None:
            inner = [m for m in ast.walk(n) if isinstance(m, ast.If) and m is not n and _calls_attr(m.body, spec['attr']) is not None]
            if not inner:
                guards.append(n)
    ncalls = len([n for n in ast.walk(fn) if isinstance(n, ast.Call) and isinstance(n.func, ast.Attribute)
                  and n.func.attr == spec['attr']])
    if len(guards) != 1 or ncalls != 1:
        raise TranslateError(f"{spec['file']}: expected exactly one guarded call of {spec['attr']} in {spec['func']}, "
                             f"found {ncalls} calls under {len(guards)} guards")
    g = guards[0]
    conj = [ast.unparse(c) for c in _flatten_and(g.test)]
    call = _calls_attr(g.body, spec['attr'])
    where, sha = src.stamp(g)
    items = "; ".join(coq_string(c) for c in conj)
    text = (f"(* {spec['name']} <- {where} sha256={sha} *)\n"
            f"Definition {spec['name']} : list string := [{items}].\n"
            f"Definition {spec['name']}_call : string := {coq_string(ast.unparse(call))}.\n")
    return text, {'name': spec['name'], 'where': where, 'sha256': sha}


def return_expr(repo, spec):
    src = Source(repo, spec['file'])
    fn = src.find_def(spec['func'])
    rets = [n for n in ast.walk(fn) if isinstance(n, ast.Return)]
    if len(rets) != 1 or rets[0].value is None:
        raise TranslateError(f"{spec['file']}: {spec['func']} does not have exactly one return expression")
    where, sha = src.stamp(rets[0])
    text = (f"(* {spec['name']} <- {where} sha256={sha} *)\n"
            f"Definition {spec['name']} : string := {coq_string(ast.unparse(rets[0].value))}.\n")
    return text, {'name': spec['name'], 'where': where, 'sha256': sha}


def flag_branches(repo, spec):
    """`if self.<flag>: X = nx.A(...) else: X = nx.B(...)` -> names A and B"""
    src = Source(repo, spec['file'])
    fn = src.find_def(spec['func'])
    hits = [n for n in ast.walk(fn) if isinstance(n, ast.If) and ast.unparse(n.test) == spec['test']]
    if len(hits) != 1:
        raise TranslateError(f"{spec['file']}: expected one `if {spec['test']}` in {spec['func']}, found {len(hits)}")
    n = hits[0]

    def callee(stmts):
        if len(stmts) != 1 or not isinstance(stmts[0], ast.Assign) or not isinstance(stmts[0].value, ast.Call):
            raise TranslateError(f"{spec['file']}:{n.lineno}: branch is not a single assignment of a call")
        return ast.unparse(stmts[0].value.func), ast.unparse(stmts[0].value)
    a, atext = callee(n.body)
    b, btext = callee(n.orelse)
    where, sha = src.stamp(n)
    text = (f"(* {spec['name']} <- {where} sha256={sha} *)\n"
            f"Definition {spec['name']}_true : string := {coq_string(a)}.\n"
            f"Definition {spec['name']}_false : string := {coq_string(b)}.\n"
            f"Definition {spec['name']}_true_call : string := {coq_string(atext)}.\n")
    return text, {'name': spec['name'], 'where': where, 'sha256': sha}


def assign_text(repo, spec):
    """source text of the unique assignment `var = ...` in func (for call-shape side conditions)"""
    src = Source(repo, spec['file'])
    fn = src.find_def(spec['func'])
    hits = [n for n in ast.walk(fn) if isinstance(n, ast.Assign) and len(n.targets) == 1
            and ast.unparse(n.targets[0]) == spec['var']]
    if spec.get('first'):
        hits = hits[:1]
    if len(hits) != 1:
        raise TranslateError(f"{spec['file']}: expected one assignment to {spec['var']} in {spec['func']}, found {len(hits)}")
    where, sha = src.stamp(hits[0])
    text = (f"(* {spec['name']} <- {where} sha256={sha} *)\n"
            f"Definition {spec['name']} : string := {coq_string(ast.unparse(hits[0].value))}.\n")
    return text, {'name': spec['name'], 'where': where, 'sha256': sha}


register_extractor('guard_conjuncts', guard_conjuncts)
register_extractor('return_expr', return_expr)
register_extractor('flag_branches', flag_branches)
register_extractor('assign_text', assign_text)


# ------------------------------------------------------------------ effect skeletons (C20)
EFFECT_CALLS = {
    'deferred_open': 'OpenDeferred', 'open': 'OpenTruncate',
    'vermouth.gmx.itp.write_molecule_itp': 'WriteTmp', 'write_molecule_itp': 'WriteTmp',
    'vermouth.gmx.gro.write_gro': 'WriteDeferred', 'write_gro': 'WriteDeferred',
    'json.dump': 'Dump',
}


def _callee(node):
    f = node.func
    parts = []
    while isinstance(f, ast.Attribute):
        parts.append(f.attr)
        f = f.value
    if isinstance(f, ast.Name):
        parts.append(f.id)
        return '.'.join(reversed(parts))
    if isinstance(f, ast.Call):      # e.g. DeferredFileWriter().write
        inner = _callee(f)
        return (inner or '?') + '().' + '.'.join(reversed(parts))
    return None


def _effects_in(node):
    out = []
    for n in ast.walk(node):
        if isinstance(n, ast.Call):
            c = _callee(n)
            if c == 'DeferredFileWriter().write':
                out.append('Flush')
            elif c in EFFECT_CALLS:
                if c == 'open':
                    mode = ast.unparse(n.args[1]) if len(n.args) > 1 else "'r'"
                    if 'w' not in mode and 'a' not in mode and '+' not in mode:
                        continue
                if EFFECT_CALLS[c] == 'WriteDeferred':
                    # write_gro(..., defer_writing=...): deferred only by default / with a literal True
                    kw = [k for k in n.keywords if k.arg == 'defer_writing']
                    pos = n.args[5] if len(n.args) > 5 else None
                    val = kw[0].value if kw else pos
                    if val is not None:
                        if not isinstance(val, ast.Constant) or not isinstance(val.value, bool):
                            raise TranslateError(f"line {n.lineno}: write_gro is called with defer_writing={ast.unparse(val)}: "
                                                 "whether the write is deferred depends on run-time state")
                        if val.value is False:
                            out.append('OpenTruncate')
                            continue
                out.append(EFFECT_CALLS[c])
    return out


def effect_skeleton(repo, spec):
    """ordered list of (kind, text) for the top-level statements of a program function:
    Stage = may raise, no file effect; OpenDeferred / WriteTmp / WriteDeferred = write to a
    temporary file only; Flush = DeferredFileWriter().write(); OpenTruncate / Dump = direct
    write to the output path; Nested <k> = file effect hidden inside a compound statement"""
    src = Source(repo, spec['file'])
    fn = src.find_def(spec['func'])
    items = []

    def emit(kind, node):
        text = ast.unparse(node).split('\n')[0][:70]
        items.append((kind, text))

    def visit(stmts, nested):
        for st in stmts:
            if isinstance(st, ast.Expr) and isinstance(st.value, ast.Constant):
                continue
            if isinstance(st, ast.With):
                kinds = [k for item in st.items for k in _effects_in(item.context_expr)]
                for k in kinds:
                    emit(k, st.items[0].context_expr)
                if not kinds:
                    emit('Stage', st.items[0].context_expr)
                visit(st.body, nested)
                continue
            effs = _effects_in(st)
            if isinstance(st, (ast.If, ast.For, ast.While, ast.Try)):
                if effs:
                    for k in effs:
                        emit('Nested' + k, st)
                else:
                    emit('Stage', st)
                continue
            if effs:
                for k in effs:
                    emit(k, st)
            else:
                emit('Stage', st)
    visit(fn.body, False)
    where, sha = src.stamp(fn)
    rows = "; ".join(f"({k}, {coq_string(t)})" for k, t in items)
    text = (f"(* {spec['name']} <- {where} sha256={sha} *)\n"
            f"Definition {spec['name']} : list (stmt_kind * string) := [{rows}].\n")
    return text, {'name': spec['name'], 'where': where, 'sha256': sha}


register_extractor('effect_skeleton', effect_skeleton)


# ------------------------------------------------------------------ section tables (C08)
def section_parsers(repo, spec):
    """all section tuples registered with @SectionLineParser.section_parser(...) in a class,
    plus the ones its base class registers (given in spec['inherited'])"""
    src = Source(repo, spec['file'])
    cls = src.find_def(spec['cls'])
    secs = [list(s) for s in spec.get('inherited', [])]
    for item in cls.body:
        if isinstance(item, ast.FunctionDef):
            for dec in item.decorator_list:
                if isinstance(dec, ast.Call) and ast.unparse(dec.func).endswith('section_parser'):
                    names = []
                    for a in dec.args:
                        if not (isinstance(a, ast.Constant) and isinstance(a.value, str)):
                            raise TranslateError(f"{spec['file']}:{dec.lineno}: non-literal section name")
                        names.append(a.value)
                    if names not in secs:
                        secs.append(names)
    where, sha = src.stamp(cls)
    rows = "; ".join("[" + "; ".join(coq_string(n) for n in s) + "]" for s in secs)
    text = (f"(* {spec['name']} <- {where} sha256={sha} *)\n"
            f"Definition {spec['name']} : list (list string) := [{rows}].\n")
    return text, {'name': spec['name'], 'where': where, 'sha256': sha}


def method_source_hash(repo, spec):
    """sha256 of the source of the listed methods: a change there is reported as a broken tie
    for hand-written models that mirror them (no semantic content is extracted)"""
    import hashlib
    src = Source(repo, spec['file'])
    parts = []
    for q in spec['funcs']:
        node = src.find_def(q)
        seg = ast.unparse(node)
        parts.append(f"({coq_string(q)}, {coq_string(hashlib.sha256(seg.encode()).hexdigest())})")
    where, sha = src.stamp(src.find_def(spec['funcs'][0]))
    text = (f"(* {spec['name']} <- {spec['file']} *)\n"
            f"Definition {spec['name']} : list (string * string) := [{'; '.join(parts)}].\n")
    return text, {'name': spec['name'], 'where': spec['file'], 'sha256': sha}


register_extractor('section_parsers', section_parsers)
register_extractor('method_source_hash', method_source_hash)


# ---------------------------------------------------------------- option decision chains (C03)
_OPT_ATOMS = {
    'box is not None': 'is_some box',
    'topology.box is not None': 'is_some tbox',
    'not np.array_equal(topology.box, box)': 'negb (oeq tbox box)',
    'density is not None': 'is_some density',
}
_OPT_VALUES = {'topology.box': 'tbox', 'box': 'box'}


def option_chain(repo, spec):
    """the if/elif chain of `func` that assigns `var` from optional inputs -> a Gallina function
    over options.  Only whitelisted test atoms and values are accepted (fail closed); branches
    that do not assign `var` keep it."""
    src = Source(repo, spec['file'])
    fn = src.find_def(spec['func'])
    var = spec['var']

    def assigns(stmts):
        vals = [ast.unparse(s.value) for s in stmts for s in [s] if isinstance(s, ast.Assign) and len(s.targets) == 1
                and ast.unparse(s.targets[0]) == var]
        nested = [n for s in stmts for n in ast.walk(s) if isinstance(n, ast.Assign) and len(n.targets) == 1
                  and ast.unparse(n.targets[0]) == var]
        if len(nested) != len(vals):
            raise TranslateError(f"{spec['file']}: nested assignment to {var} inside a branch of the chain")
        if len(vals) > 1:
            raise TranslateError(f"{spec['file']}: several assignments to {var} in one branch")
        return vals[0] if vals else None
    chains = [n for n in fn.body if isinstance(n, ast.If) and any(
        isinstance(m, ast.Assign) and len(m.targets) == 1 and ast.unparse(m.targets[0]) == var for m in ast.walk(n))]
    if len(chains) != 1:
        raise TranslateError(f"{spec['file']}: expected one top-level if-chain assigning {var} in {spec['func']}, found {len(chains)}")
    others = [n for n in ast.walk(fn) if isinstance(n, ast.Assign) and len(n.targets) == 1 and ast.unparse(n.targets[0]) == var]
    inside = [n for n in ast.walk(chains[0]) if n in others]
    if len(others) != len(inside):
        raise TranslateError(f"{spec['file']}: {var} is also assigned outside the chain in {spec['func']}")
    node = chains[0]
    branches = []
    while True:
        conj = []
        for c in _flatten_and(node.test):
            t = ast.unparse(c)
            if t not in _OPT_ATOMS:
                raise TranslateError(f"{spec['file']}:{c.lineno}: test `{t}` not in the option-chain whitelist")
            conj.append(_OPT_ATOMS[t])
        val = assigns(node.body)
        if val is not None and val not in _OPT_VALUES:
            raise TranslateError(f"{spec['file']}:{node.lineno}: value `{val}` not in the option-chain whitelist")
        branches.append((conj, _OPT_VALUES[val] if val is not None else var))
        if len(node.orelse) == 1 and isinstance(node.orelse[0], ast.If):
            node = node.orelse[0]
            continue
        if node.orelse:
            val = assigns(node.orelse)
            if val is not None and val not in _OPT_VALUES:
                raise TranslateError(f"{spec['file']}:{node.lineno}: value `{val}` not in the option-chain whitelist")
            branches.append(([], _OPT_VALUES[val] if val is not None else var))
        break
    body = var
    for conj, val in reversed(branches):
        test = ' && '.join(conj) if conj else 'true'
        body = f"if {test} then {val} else ({body})"
    where, sha = src.stamp(chains[0])
    text = (f"(* {spec['name']} <- {where} sha256={sha} *)\n"
            "Section OptionChain.\nVariables (B D : Type) (beq : B -> B -> bool).\n"
            "Definition is_some {A} (o : option A) : bool := match o with Some _ => true | None => false end.\n"
            "Definition oeq (a b : option B) : bool := match a, b with Some x, Some y => beq x y | None, None => true | _, _ => false end.\n"
            f"Definition {spec['name']} (box tbox : option B) (density : option D) : option B :=\n  {body}.\n"
            "End OptionChain.\n")
    return text, {'name': spec['name'], 'where': where, 'sha256': sha}


def init_box(repo, spec):
    """BuildSystem.__init__: `if not isinstance(self.box, type(None)): self.box = box  else:
    box_dim = round(_compute_box_size(topology, self.density), N); self.box = np.array([box_dim]*3)`
    and `topology.box = (self.box[0], self.box[1], self.box[2])` -> Gallina over options + the digits N"""
    src = Source(repo, spec['file'])
    fn = src.find_def(spec['func'])
    hits = [n for n in fn.body if isinstance(n, ast.If) and ast.unparse(n.test) == 'not isinstance(self.box, type(None))']
    if len(hits) != 1:
        raise TranslateError(f"{spec['file']}: expected one `if not isinstance(self.box, type(None))` in {spec['func']}")
    n = hits[0]
    body = [ast.unparse(s) for s in n.body]
    orelse = [ast.unparse(s) for s in n.orelse]
    if body != ['self.box = box']:
        raise TranslateError(f"{spec['file']}:{n.lineno}: box branch is {body}")
    if len(orelse) != 2 or not orelse[0].startswith('box_dim = round(_compute_box_size(topology, self.density), ') \
            or orelse[1] != 'self.box = np.array([box_dim, box_dim, box_dim])':
        raise TranslateError(f"{spec['file']}:{n.lineno}: density branch is {orelse}")
    digits = int(orelse[0][len('box_dim = round(_compute_box_size(topology, self.density), '):-1])
    before = [ast.unparse(s) for s in fn.body[:fn.body.index(n)] if isinstance(s, ast.Assign) and ast.unparse(s.targets[0]) == 'self.box']
    if before != ['self.box = box']:
        raise TranslateError(f"{spec['file']}: self.box initialised as {before}")
    after = [ast.unparse(s) for s in fn.body[fn.body.index(n):] if isinstance(s, ast.Assign) and ast.unparse(s.targets[0]) == 'topology.box']
    if after != ['topology.box = (self.box[0], self.box[1], self.box[2])']:
        raise TranslateError(f"{spec['file']}: topology.box set as {after}")
    where, sha = src.stamp(n)
    text = (f"(* {spec['name']} <- {where} sha256={sha} *)\n"
            "Section InitBox.\nVariables (S : Type).\n"
            f"Definition {spec['name']} (box : option (S * S * S)) (rounded_edge : S) : S * S * S :=\n"
            "  match box with Some b => b | None => (rounded_edge, rounded_edge, rounded_edge) end.\n"
            "End InitBox.\n"
            f"Definition {spec['name']}_round_digits : Z := {digits}%Z.\n")
    return text, {'name': spec['name'], 'where': where, 'sha256': sha}


register_extractor('option_chain', option_chain)
register_extractor('init_box', init_box)


def guard_of_assign(repo, spec):
    """tests of the `if`s enclosing the unique assignment to `target` inside func, outermost first"""
    src = Source(repo, spec['file'])
    fn = src.find_def(spec['func'])
    found = []

    def visit(node, guards):
        for child in ast.iter_child_nodes(node):
            if isinstance(child, ast.If):
                for st in child.body:
                    visit_stmt(st, guards + [ast.unparse(child.test)])
                for st in child.orelse:
                    visit_stmt(st, guards + ['not (' + ast.unparse(child.test) + ')'])
            else:
                visit_stmt(child, guards)

    def visit_stmt(st, guards):
        if isinstance(st, ast.Assign) and len(st.targets) == 1 and ast.unparse(st.targets[0]).replace("'", '"') == spec['target'] \
                and ('value' not in spec or ast.unparse(st.value) == spec['value']):
            found.append((st, guards))
        elif isinstance(st, ast.AugAssign) and ast.unparse(st.target) == spec['target'] \
                and ('value' not in spec or ast.unparse(st.value) == spec['value']):
            found.append((st, guards))
        elif isinstance(st, ast.If):
            for s2 in st.body:
                visit_stmt(s2, guards + [ast.unparse(st.test)])
            for s2 in st.orelse:
                visit_stmt(s2, guards + ['not (' + ast.unparse(st.test) + ')'])
        elif isinstance(st, (ast.For, ast.While, ast.With, ast.Try)):
            for s2 in getattr(st, 'body', []) + getattr(st, 'orelse', []) + getattr(st, 'finalbody', []):
                visit_stmt(s2, guards)
    for st in fn.body:
        visit_stmt(st, [])
    if len(found) != 1:
        raise TranslateError(f"{spec['file']}: expected one assignment to {spec['target']} in {spec['func']}, found {len(found)}")
    st, guards = found[0]
    where, sha = src.stamp(st)
    text = (f"(* {spec['name']} <- {where} sha256={sha} *)\n"
            f"Definition {spec['name']} : list string := [{'; '.join(coq_string(g) for g in guards)}].\n")
    return text, {'name': spec['name'], 'where': where, 'sha256': sha}


register_extractor('guard_of_assign', guard_of_assign)


# ---------------------------------------------------------------- numeric tables and verdict guard (C15)
def _num_dict_text(name, node, where, sha):
    from fractions import Fraction
    if not isinstance(node, ast.Dict):
        raise TranslateError(f"{where}: {name} is not a dict literal")
    items = []
    for k, v in zip(node.keys, node.values):
        if not (isinstance(k, ast.Constant) and isinstance(k.value, str) and isinstance(v, ast.Constant)
                and isinstance(v.value, (int, float)) and not isinstance(v.value, bool)):
            raise TranslateError(f"{where}: {name} has a non-literal entry")
        fr = Fraction(repr(v.value))
        items.append(f"({coq_string(k.value)}, ({fr.numerator}%Z, {fr.denominator}%Z))")
    return (f"(* {name} <- {where} sha256={sha} *)\n"
            f"Definition {name} : list (string * (Z * Z)) := [{'; '.join(items)}].\n")


def num_dict(repo, spec):
    """module-level dict of string -> number, as exact fractions"""
    src = Source(repo, spec['file'])
    node = src.find_assign(spec['var'])
    where, sha = src.stamp(node)
    return _num_dict_text(spec['name'], node.value, where, sha), {'name': spec['name'], 'where': where, 'sha256': sha}


def default_num_dict(repo, spec):
    """default value (dict literal) of a keyword argument"""
    src = Source(repo, spec['file'])
    fn = src.find_def(spec['func'])
    args = fn.args.args
    defaults = fn.args.defaults
    pairs = dict(zip([a.arg for a in args[len(args) - len(defaults):]], defaults))
    if spec['arg'] not in pairs:
        raise TranslateError(f"{spec['file']}: {spec['func']} has no default for {spec['arg']}")
    where, sha = src.stamp(pairs[spec['arg']])
    return _num_dict_text(spec['name'], pairs[spec['arg']], where, sha), {'name': spec['name'], 'where': where, 'sha256': sha}


def return_guard(repo, spec):
    """test of the unique `if` whose body is exactly the given return statement"""
    src = Source(repo, spec['file'])
    fn = src.find_def(spec['func'])
    hits = [n for n in ast.walk(fn) if isinstance(n, ast.If) and len(n.body) == 1 and ast.unparse(n.body[0]) == spec['returns']
            and not n.orelse]
    if len(hits) != 1:
        raise TranslateError(f"{spec['file']}: expected one `if ...: {spec['returns']}` in {spec['func']}, found {len(hits)}")
    final = fn.body[-1]
    where, sha = src.stamp(hits[0])
    text = (f"(* {spec['name']} <- {where} sha256={sha} *)\n"
            f"Definition {spec['name']} : string := {coq_string(ast.unparse(hits[0].test))}.\n"
            f"Definition {spec['name']}_final : string := {coq_string(ast.unparse(final))}.\n")
    return text, {'name': spec['name'], 'where': where, 'sha256': sha}


register_extractor('num_dict', num_dict)
register_extractor('default_num_dict', default_num_dict)
register_extractor('return_guard', return_guard)


# ---------------------------------------------------------------- membership guard of apply_mod (C01)
def membership_guard(repo, spec):
    """the unique `if <test>: ... continue` of `func` whose test mentions the module constant `var`
    (a '|'-separated string): translated to a boolean function of the residue name.  Accepted
    shapes of the test (R any expression for the residue, V the constant):
        not vermouth.molecule.attributes_match(R, {'resname': vermouth.molecule.Choice(V.split('|'))})
        R['resname'] not in V.split('|')
    anything else fails closed."""
    src = Source(repo, spec['file'])
    const = src.find_assign(spec['var'])
    if not (isinstance(const.value, ast.Constant) and isinstance(const.value.value, str)):
        raise TranslateError(f"{spec['file']}: {spec['var']} is not a string literal")
    names = const.value.value.split('|')
    fn = src.find_def(spec['func'])
    hits = [n for n in ast.walk(fn) if isinstance(n, ast.If) and any(isinstance(x, ast.Name) and x.id == spec['var'] for x in ast.walk(n.test))]
    if len(hits) != 1:
        raise TranslateError(f"{spec['file']}: expected one `if` testing {spec['var']} in {spec['func']}, found {len(hits)}")
    node = hits[0]
    if node.orelse or not isinstance(node.body[-1], ast.Continue) or \
            any(not (isinstance(s, ast.Continue) or (isinstance(s, ast.Expr) and isinstance(s.value, ast.Call)
                                                     and ast.unparse(s.value.func).startswith('LOGGER.'))) for s in node.body):
        raise TranslateError(f"{spec['file']}:{node.lineno}: the guarded branch is not `log; continue`")
    split = f"{spec['var']}.split('|')"
    t = node.test
    ok = False
    if isinstance(t, ast.UnaryOp) and isinstance(t.op, ast.Not) and isinstance(t.operand, ast.Call):
        c = t.operand
        if ast.unparse(c.func) == 'vermouth.molecule.attributes_match' and len(c.args) == 2 and not c.keywords \
                and ast.unparse(c.args[1]) == "{'resname': vermouth.molecule.Choice(%s)}" % split:
            ok = True
    if isinstance(t, ast.Compare) and len(t.ops) == 1 and isinstance(t.ops[0], ast.NotIn) \
            and isinstance(t.left, ast.Subscript) and ast.unparse(t.left.slice) == "'resname'" and ast.unparse(t.comparators[0]) == split:
        ok = True
    if not ok:
        raise TranslateError(f"{spec['file']}:{node.lineno}: guard `{ast.unparse(t)}` is not a membership test of the residue name in {split}")
    where, sha = src.stamp(node)
    text = (f"(* {spec['name']} <- {where} sha256={sha} : skip unless the residue name is one of {spec['var']} *)\n"
            f"Definition {spec['name']}_names : list string := [{'; '.join(coq_string(n) for n in names)}].\n"
            f"Definition {spec['name']} (rn : string) : bool := existsb (String.eqb rn) {spec['name']}_names.\n")
    return text, {'name': spec['name'], 'where': where, 'sha256': sha}


register_extractor('membership_guard', membership_guard)
