"""Structural extractors (tables, branch skeletons, effect skeletons) registered with the
translator.  Each takes (repo, spec) and returns (coq_text, stamp) or raises TranslateError."""
from translate import register_extractor, TranslateError, Source  # noqa: F401
