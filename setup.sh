#!/bin/sh
# MANIFEST.setup_cmd: build the whole Coq development from files on disk (offline).
# 1. regenerate theories/gen/*.v from /repo's current source (tie T)
# 2. coq_makefile + full .vo build (no -vos/-vok) under a shell timeout
set -e
cd "$(dirname "$0")"
REPO="${VERIF_REPO:-/repo}"
export PYTHONPATH="$REPO:$(pwd)" PYTHONHASHSEED=0 PYTHONDONTWRITEBYTECODE=1
/venv/bin/python gen/translate.py "$REPO" coq/theories/gen > work_translate.log 2>&1 || { cat work_translate.log; echo "translator reported errors (the affected checks will report them)"; }
rm -f work_translate.log
./tools/mkcoqproject.sh
cd coq
timeout 3000 make -k -j16 > ../build.log 2>&1 || { tail -40 ../build.log; echo "setup: coq build had failures (the affected checks will report them)"; }
echo "setup done"
