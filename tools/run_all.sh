#!/bin/sh
# run every registered check (quick tier) on the current /repo tree; prints one line per check
cd "$(dirname "$0")/.."
for id in $(/venv/bin/python -c "import json; print(' '.join(c['property_id'] for c in json.load(open('MANIFEST.json'))['checks']))"); do
  timeout 1500 ./check $id --tier ${1:-quick} 2>&1 | grep -E "^\[$id\] tier=|^VIOLATION" | tail -3
done
