#!/bin/sh
# usage: tools/all_seeds.sh [REPO]   -- apply every stored seeded change to REPO (default /repo; must be a clean git
# tree), run the quick check of its property, undo; prints one line per seed.  With VERIF_REPO set the checks read that tree.
REPO=${1:-${VERIF_REPO:-/repo}}
export VERIF_REPO=$REPO
cd "$(dirname "$0")/.."
git -C "$REPO" diff --quiet || { echo "$REPO has uncommitted changes"; exit 2; }
missed=0
for d in seeded/*/; do
  name=$(basename "$d")
  pid=$(/venv/bin/python -c "import json,sys; print(json.load(open('$d/meta.json'))['property'])")
  if ! git -C "$REPO" apply "$(pwd)/$d/patch.diff" 2>/dev/null; then echo "$name: patch does not apply"; continue; fi
  out=$(timeout 1500 ./check "$pid" --tier quick 2>&1)
  rc=$?
  nv=$(echo "$out" | grep -c '^VIOLATION')
  nf=$(echo "$out" | grep '^VIOLATION' | grep -c 'no-failing-input-found')
  git -C "$REPO" checkout -- .
  if [ "$nv" -gt 0 ] && [ "$nv" -gt "$nf" ]; then echo "$name: detected ($nv violation lines, $((nv-nf)) with a concrete input) rc=$rc"
  elif [ "$nv" -gt 0 ]; then echo "$name: detected WITHOUT concrete input rc=$rc"; missed=$((missed+1))
  else echo "$name: MISSED rc=$rc"; missed=$((missed+1)); fi
done
echo "seeds not detected with a concrete input: $missed"
