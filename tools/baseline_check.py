#!/venv/bin/python
"""Run the repository's pinned suite (guard off) and compare the passing set with BASELINE.stable_pass."""
import json, subprocess, sys, tempfile, os, xml.etree.ElementTree as ET
base = json.load(open('/root/.vp/BASELINE.json'))
out = os.path.join(tempfile.mkdtemp(), 'j.xml')
env = dict(os.environ); env.pop('MARRINK_LAB_POLYPLY_1_0_VERIF', None)
subprocess.run(['/venv/bin/python', '-m', 'pytest', '-q', '-p', 'no:cacheprovider', '-n', '12', '--timeout=900',
                '--continue-on-collection-errors', f'--junitxml={out}'], cwd='/repo', env=env,
               stdout=subprocess.DEVNULL, stderr=subprocess.DEVNULL)
passed = set()
for tc in ET.parse(out).getroot().iter('testcase'):
    if not list(tc):
        passed.add(f"{tc.get('classname')}::{tc.get('name')}")
want = set(base['stable_pass'])
missing = sorted(want - passed)
print(f"stable_pass={len(want)} passed_now={len(passed)} missing={len(missing)}")
for m in missing[:20]:
    print('  MISSING', m)
sys.exit(1 if missing else 0)
