#!/venv/bin/python
"""usage: tools/seed_to_corpus.py REPO OUTDIR [seed-name-prefix ...]
For every stored seeded change: apply it to REPO (a clean scratch tree), run the quick check of its property, take the
first violation replay that has the format of the property's main case list, write it to OUTDIR/<PID>/<seed>.json, undo.
The candidates are reviewed and copied to corpus/ by hand (corpus cases run first in every check)."""
import glob, json, os, subprocess, sys
repo, outdir = sys.argv[1], sys.argv[2]
only = sys.argv[3:]
root = os.path.dirname(os.path.dirname(os.path.abspath(__file__)))
env = dict(os.environ, VERIF_REPO=repo)
KEEP = ('ff', 'graph', 'graph2', 'ff2', 'route', 'preexisting')
for d in sorted(glob.glob(os.path.join(root, 'seeded', '*'))):
    name = os.path.basename(d)
    if only and not any(name.startswith(p) for p in only):
        continue
    pid = json.load(open(os.path.join(d, 'meta.json')))['property']
    if subprocess.run(['git', '-C', repo, 'apply', os.path.join(d, 'patch.diff')], capture_output=True).returncode:
        print(name, 'patch does not apply'); continue
    for f in glob.glob(os.path.join(root, 'replays', pid, 'violation_*.json')):
        os.remove(f)
    subprocess.run(['./check', pid, '--tier', 'quick'], cwd=root, env=env, capture_output=True, timeout=1500)
    subprocess.run(['git', '-C', repo, 'checkout', '--', '.'])
    cand = None
    for f in sorted(glob.glob(os.path.join(root, 'replays', pid, 'violation_*.json'))):
        r = json.load(open(f))
        if isinstance(r.get('case'), dict):
            cand = r['case']
        elif isinstance(r.get('tree'), dict):
            cand = r['tree']
        elif 'ff' in r and 'graph' in r:
            cand = {k: r[k] for k in KEEP if k in r}
        if cand:
            break
    if cand is None:
        print(name, 'no replay in main-case format'); continue
    os.makedirs(os.path.join(outdir, pid), exist_ok=True)
    json.dump(cand, open(os.path.join(outdir, pid, name + '.json'), 'w'), indent=1, default=str)
    print(name, 'candidate written')
