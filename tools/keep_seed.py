#!/venv/bin/python
"""usage: tools/keep_seed.py <PID> <worktree> <name> "<what it needs>" "<detected by>"
Confirms a seeded change in its scratch worktree (suite counts unchanged, demo fails with /
passes without the change) and stores it under /verif/seeded/<name>/."""
import json, os, shutil, subprocess, sys, glob
pid, wt, name, needs, detected = sys.argv[1:6]
env = dict(os.environ, PYTHONPATH=wt, PYTHONHASHSEED='0', TQDM_DISABLE='1')
def sh(cmd, **kw):
    return subprocess.run(cmd, shell=True, cwd=wt, env=env, capture_output=True, text=True, **kw)
demo = sorted(glob.glob(os.path.join(wt, "demo_*.py")))[0]
patch = os.path.join(wt, 'patch.diff')
sh('git checkout -- polyply')
assert sh(f'git apply {patch}').returncode == 0, 'patch does not apply'
with_rc = sh(f'timeout 300 /venv/bin/python {demo}').returncode
for _ in range(3):
    suite = sh('/venv/bin/python -m pytest -q -p no:cacheprovider -n 12 --continue-on-collection-errors polyply/tests 2>&1 | tail -1').stdout.strip()
    if '474 passed' in suite:
        break
sh('git checkout -- polyply')
without_rc = sh(f'timeout 300 /venv/bin/python {demo}').returncode
print('demo with change:', with_rc, ' without:', without_rc, ' suite with change:', suite)
ok = with_rc != 0 and without_rc == 0 and '474 passed' in suite
if not ok:
    print('NOT CONFIRMED'); sys.exit(1)
dst = os.path.join('/verif/seeded', name)
os.makedirs(dst, exist_ok=True)
shutil.copy(patch, os.path.join(dst, 'patch.diff'))
shutil.copy(demo, os.path.join(dst, os.path.basename(demo)))
notes = open(os.path.join(wt, 'notes.txt')).read() if os.path.exists(os.path.join(wt, 'notes.txt')) else ''
json.dump({'property': pid, 'needs_to_manifest': needs, 'author': 'fresh sub-agent given only the property text and a scratch worktree',
           'confirmed': {'demo_exit_with_change': with_rc, 'demo_exit_without_change': without_rc, 'suite_with_change': suite,
                         'commands': [f'git apply patch.diff; PYTHONPATH=<worktree> /venv/bin/python {os.path.basename(demo)}',
                                      'pytest -q -n 12 --continue-on-collection-errors polyply/tests']},
           'check_result': detected, 'agent_notes': notes}, open(os.path.join(dst, 'meta.json'), 'w'), indent=1)
print('stored', dst)
