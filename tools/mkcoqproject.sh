#!/bin/sh
# regenerate coq/_CoqProject and coq/Makefile from the files present (gen files included)
set -e
cd "$(dirname "$0")/../coq"
{
  echo "-Q theories PV"
  echo "-arg -w -arg -notation-overridden,-deprecated-hint-without-locality,-deprecated-instance-without-locality,-inexact-float"
  find theories -name '*.v' | LC_ALL=C sort
} > _CoqProject.new
if ! cmp -s _CoqProject.new _CoqProject 2>/dev/null; then mv _CoqProject.new _CoqProject; else rm _CoqProject.new; fi
if [ ! -f Makefile ] || [ _CoqProject -nt Makefile ]; then coq_makefile -f _CoqProject -o Makefile >/dev/null; fi
