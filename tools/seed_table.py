#!/venv/bin/python
"""Rewrites the seeded-changes table of DESIGN.md §12.5 from seeded/*/meta.json."""
import glob, json, os, re
root = os.path.dirname(os.path.dirname(os.path.abspath(__file__)))
rows = []
for d in sorted(glob.glob(os.path.join(root, 'seeded', '*'))):
    m = json.load(open(os.path.join(d, 'meta.json')))
    cell = lambda s: ' '.join(str(s).split()).replace('|', '\\|')
    rows.append(f"| {os.path.basename(d)} | {cell(m['needs_to_manifest'])} | {cell(m['check_result'])} |")
p = os.path.join(root, 'DESIGN.md')
s = open(p).read()
head = "| seeded change | needs to manifest | result of the quick check |\n|---|---|---|\n"
a = s.index(head) + len(head)
b = s.index("\n\n", a)
s = s[:a] + '\n'.join(rows) + s[b:]
open(p, 'w').write(s)
print(len(rows), 'rows')
