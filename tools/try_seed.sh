#!/bin/sh
# usage: tools/try_seed.sh <PID> <patch.diff> [tier]   -- apply a seeded change to /repo, run the check, undo
set -u
PID=$1; PATCH=$2; TIER=${3:-quick}
cd /repo || exit 2
git diff --quiet || { echo "/repo has uncommitted changes"; exit 2; }
git apply "$PATCH" || { echo "patch does not apply"; exit 2; }
cd /verif
timeout 1500 ./check "$PID" --tier "$TIER" 2>&1 | grep -v "^INFO\|conda" | tail -6
rc=$?
git -C /repo checkout -- . 
git -C /repo status --short
