#!/venv/bin/python
"""Regenerate /verif/MANIFEST.json from the META tables of harness/props/*.py."""
import importlib
import json
import os
import sys

VERIF = os.path.dirname(os.path.dirname(os.path.abspath(__file__)))
sys.path.insert(0, VERIF)
sys.path.insert(0, '/repo')

ALL = [f"C{n:02d}" for n in range(1, 21)]
checks, na = [], []
for pid in ALL:
    path = os.path.join(VERIF, 'harness', 'props', pid.lower() + '.py')
    if not os.path.exists(path):
        na.append({'property_id': pid, 'reason': 'no check registered yet: the Coq model and correspondence for this property are not built (see DESIGN.md section 7 for the plan); the technique does apply'})
        continue
    meta = importlib.import_module(f'harness.props.{pid.lower()}').META
    checks.append({
        'property_id': pid,
        'quick_cmd': f'./check {pid} --tier quick',
        'thorough_cmd': f'./check {pid} --tier thorough',
        'evidence_file': f'/verif/evidence/{pid}.json',
        'replay_cmd_template': f'./check {pid} --replay {{path}}',
        'engine': 'coq-proof+correspondence',
        'level_claimed': {'category': meta.get('level', 'proof'), 'text': meta['level_text'],
                          'design_ref': meta.get('design_ref', f'DESIGN.md section 7 {pid}')},
        'level_note': meta['level_note'],
        'technique': meta['technique'],
    })
man = {
    'version': 1,
    'setup_cmd': 'cd /verif && ./setup.sh',
    'hooks': {
        'guard': 'MARRINK_LAB_POLYPLY_1_0_VERIF',
        'enable': 'no source hooks are used: the harness interposes from its own process (monkeypatching of RandomWalk.update_positions, scipy.optimize.minimize, stage functions); checks import polyply from /repo with PYTHONPATH=/repo',
        'baseline_off_cmd': 'cd /repo && /venv/bin/python -m pytest -q -p no:cacheprovider --timeout=900 --continue-on-collection-errors',
        'source_commits': [],
        'add_only': True,
    },
    'engines': [{
        'name': 'coq-proof+correspondence', 'path': '/verif/check',
        'serves_properties': [c['property_id'] for c in checks],
        'kind_free_text': 'Coq 8.16.1 theorems (coq/theories/Props/CXX.v) about models that are regenerated from /repo by gen/translate.py (tie T) or hand-written and run against the implementation on generated inputs via vm_compute (tie D); harness/main.py drives translator, make, correspondence, search, verdict and evidence',
    }],
    'checks': checks,
    'not_applicable': na,
    'notes': 'See DESIGN.md. Every check regenerates the translated Coq files from /repo, rebuilds the dependency cone of its Props file (full .vo), runs the correspondence against the working tree and writes evidence/<id>.json. known_findings.json lists recorded/repaired defects.',
}
with open(os.path.join(VERIF, 'MANIFEST.json'), 'w') as fh:
    json.dump(man, fh, indent=1)
print('checks:', [c['property_id'] for c in checks])
