"""Generated abstract force fields (blocks, links) rendered to vermouth .ff text, generated
residue graphs, and the real gen_params pipeline (MapToMolecule -> ApplyLinks ->
ApplyModifications) with snapshots of the molecule.  Shared by C01 C02 C10 C11 C13 C14."""
import io
import contextlib
import json
import os

ATYPES = ['P1', 'P2', 'C1', 'Q0', 'N0']
SECTION_ARITY = {'bonds': 2, 'constraints': 2, 'angles': 3, 'dihedrals': 4, 'pairs': 2, 'exclusions': 2}
FUNC = {'bonds': '1', 'constraints': '1', 'angles': '2', 'dihedrals': '1', 'pairs': '1'}


def gen_block(rng, name, natoms=None, nrexcl=None):
    natoms = natoms or rng.randint(1, 4)
    atoms = []
    for i in range(natoms):
        atoms.append({'name': f'{"ABCDEF"[i]}{name[-1]}' if rng.random() < 0.5 else f'{"BSTUVW"[i]}B',
                      'atype': rng.choice(ATYPES), 'cg': rng.choice([i + 1, 1]),
                      'charge': rng.choice(['0.0', '0.5', '-0.5', '1.0']), 'mass': rng.choice(['72.0', '36.0', '45.5'])})
    names = [a['name'] for a in atoms]
    if len(set(names)) != len(names):
        for i, a in enumerate(atoms):
            a['name'] = f'{"ABCDEF"[i]}{name[-1]}'
    inters = {}
    for sec, ar in SECTION_ARITY.items():
        if natoms >= ar and rng.random() < (0.7 if sec == 'bonds' else 0.3):
            rows = []
            for _ in range(rng.randint(1, 2)):
                idx = rng.sample(range(natoms), ar)
                if any(sorted(r['atoms']) == sorted(idx) for r in rows):
                    continue
                params = [] if sec == 'exclusions' else [FUNC[sec]] + [f'{rng.uniform(0.1, 9):.3f}' for _ in range(rng.randint(1, 2))]
                meta = {}
                if rng.random() < 0.2 and sec in ('bonds', 'constraints'):
                    meta = {rng.choice(['ifdef', 'ifndef']): 'FLEXIBLE'}
                rows.append({'atoms': idx, 'params': params, 'meta': meta})
                # a second term on the same atoms without an explicit version (multi-term dihedral)
                if sec == 'dihedrals' and rng.random() < 0.3:
                    rows.append({'atoms': list(idx), 'params': [FUNC[sec]] + [f'{rng.uniform(0.1, 9):.3f}' for _ in range(2)], 'meta': {}})
                # further terms on the same atoms that carry an explicit version tag equal to a version already taken
                # (untagged + {"version": 1}; untagged, untagged + {"version": 2}; an #ifdef / #ifndef pair both tagged 1)
                elif sec in ('bonds', 'angles', 'dihedrals') and rng.random() < 0.12:
                    def term(meta):
                        return {'atoms': list(idx), 'params': [FUNC[sec]] + [f'{rng.uniform(0.1, 9):.3f}' for _ in range(2)], 'meta': meta}
                    shape = rng.choice(['u1', 'uu2', 'guard'])
                    if shape == 'u1':
                        rows.append(term({'version': 1}))
                    elif shape == 'uu2':
                        rows += [term({}), term({'version': 2})]
                    else:
                        rows[-1]['meta'] = {'ifdef': 'FLEXIBLE', 'version': 1}
                        rows.append(term({'ifndef': 'FLEXIBLE', 'version': 1}))
            inters[sec] = rows
    # make the block connected through bonds (sometimes: through constraints only, a rigid residue without any bond)
    # so that the residue is one fragment
    rigid = rng.random() < 0.2
    if rigid:
        inters.pop('bonds', None)
    if natoms > 1:
        have = {frozenset(r['atoms']) for r in inters.get('bonds', [])} | {frozenset(r['atoms']) for r in inters.get('constraints', [])}
        rows = inters.setdefault('constraints' if rigid else 'bonds', [])
        for i in range(1, natoms):
            comp = _components(natoms, have)
            if comp[i] != comp[0]:
                j = rng.choice([k for k in range(natoms) if comp[k] == comp[0]])
                rows.append({'atoms': [j, i], 'params': ['1', '0.300'] if rigid else ['1', '0.300', '1000.000'], 'meta': {}})
                have.add(frozenset([j, i]))
    if not inters.get('constraints') and 'constraints' in inters:
        del inters['constraints']
    return {'name': name, 'atoms': atoms, 'inters': inters, 'nrexcl': rng.choice([1, 1, 2, 3, 0, 4]) if nrexcl is None else nrexcl}


def _components(n, edges):
    comp = list(range(n))
    changed = True
    while changed:
        changed = False
        for e in edges:
            a, b = tuple(e)
            m = min(comp[a], comp[b])
            if comp[a] != m or comp[b] != m:
                comp[a] = comp[b] = m
                changed = True
    return comp


ORDERS = [['', '+'], ['', '+', '++'], ['', '>'], ['', '>', '>>'], ['-', ''], ['<', ''], ['', '+', '++', '+++'], ['', '*'], ['', '*']]


def gen_link(rng, blocks):
    """a link over 2-4 consecutive residues; atoms referenced by (prefix, name)"""
    prefixes = rng.choice(ORDERS)
    nres = len(prefixes)
    resnames = rng.sample([b['name'] for b in blocks], rng.randint(1, min(2, len(blocks))))
    # choose atom names that exist in at least one of the resnames
    pool = sorted({a['name'] for b in blocks if b['name'] in resnames for a in b['atoms']})
    link = {'resnames': resnames, 'inters': {}, 'edges': [], 'atoms_attr': [], 'meta': {}}
    nint = rng.randint(1, 3)
    for _ in range(nint):
        sec = rng.choice(['bonds', 'bonds', 'angles', 'dihedrals', 'constraints', 'exclusions'])
        ar = SECTION_ARITY[sec]
        if ar > len(pool) * nres:
            continue
        if sec == 'bonds' or sec == 'constraints' or sec == 'exclusions':
            pf = rng.sample(prefixes, 2) if nres >= 2 else prefixes * 2
            pf.sort(key=prefixes.index)
        else:
            pf = sorted([rng.choice(prefixes) for _ in range(ar)], key=prefixes.index)
            if len(set(pf)) == 1:
                pf[-1] = prefixes[-1] if pf[0] != prefixes[-1] else prefixes[0]
                pf.sort(key=prefixes.index)
        atoms = [(p, rng.choice(pool)) for p in pf]
        if len(set(atoms)) != len(atoms):
            continue
        params = [] if sec == 'exclusions' else [FUNC[sec]] + [f'{rng.uniform(0.1, 9):.3f}' for _ in range(rng.randint(1, 2))]
        meta = {}
        # a trailing {...} after an interaction without parameters would be read as attributes of its last atom
        if rng.random() < 0.25 and params:
            meta['version'] = rng.choice([1, 2])
        if rng.random() < 0.15 and params:
            meta[rng.choice(['ifdef', 'ifndef'])] = 'FLEXIBLE'
        link['inters'].setdefault(sec, []).append({'atoms': atoms, 'params': params, 'meta': meta})
    if rng.random() < 0.25 and link['inters']:
        # replace an attribute of one link atom
        some = rng.choice([a for rows in link['inters'].values() for r in rows for a in r['atoms']])
        link['atoms_attr'].append([list(some), {'replace': {'atype': rng.choice(ATYPES), 'mass': '14.027'}}])
    used = sorted({a for rows in link['inters'].values() for r in rows for a in r['atoms']})
    if rng.random() < 0.15 and used:
        # an atom selected by the type its block gives it (whatever another link replaces it with later or earlier)
        some = rng.choice(used)
        if not any(tuple(pn) == tuple(some) for pn, _ in link['atoms_attr']):
            link['atoms_attr'].append([list(some), {'atype': rng.choice(ATYPES)}])
    if rng.random() < 0.2 and len(used) >= 2:
        a, b = rng.sample(used, 2)
        if a[0] != b[0]:
            link['edges'].append([a, b])
    return link


LINKTYPES = ['a16', 'circle']


def label_link(rng, link):
    """give the link a 'linktype' label: an [ edges ] line with the attribute on the atoms of one of its
    inter-residue two-body interactions (the edge made by the bond and the labelled edge are one edge)"""
    cands = [r['atoms'] for sec in ('bonds', 'constraints') for r in link['inters'].get(sec, []) if r['atoms'][0][0] != r['atoms'][1][0]]
    if not cands:
        return link
    a, b = rng.choice(cands)
    link = dict(link, edges=[e for e in link['edges'] if {tuple(e[0]), tuple(e[1])} != {tuple(a), tuple(b)}],
                edge_labels=[[list(a), list(b), rng.choice(LINKTYPES)]])
    return link


def gen_ff(rng, nblocks=None, nlinks=None, uniform_nrexcl=None):
    nblocks = nblocks or rng.randint(1, 3)
    blocks = [gen_block(rng, f'R{"ABC"[i]}', nrexcl=uniform_nrexcl) for i in range(nblocks)]
    links = []
    for _ in range(rng.randint(0, 4) if nlinks is None else nlinks):
        l = gen_link(rng, blocks)
        if l['inters'] or l['edges']:
            links.append(l)
    return {'blocks': blocks, 'links': links}


def gen_arrangement_ff(rng):
    """two or three one-bead residue types, a generic bond link, and links over three consecutive residues whose atoms
    carry their own residue name (no link-level resname): one angle per arrangement of residue names (A-A-B, A-B-A, ...).
    Links of different arrangements never define the same interaction."""
    names = ['RA', 'RB', 'RC'][:rng.randint(2, 3)]
    blocks = [{'name': n, 'nrexcl': 1, 'inters': {},
               'atoms': [{'name': 'BB', 'atype': rng.choice(ATYPES), 'cg': 1, 'charge': '0.0', 'mass': '72.0'}]} for n in names]
    links = [{'resnames': names, 'atoms_attr': [], 'edges': [], 'meta': {},
              'inters': {'bonds': [{'atoms': [('', 'BB'), ('+', 'BB')], 'params': ['1', '0.350', '1250.000'], 'meta': {}}]}}]
    arrangements = rng.sample([(a, b, c) for a in names for b in names for c in names], rng.randint(2, 5))
    for arr in arrangements:
        links.append({'resnames': None, 'edges': [], 'meta': {},
                      'atoms_attr': [[[p, 'BB'], {'resname': r}] for p, r in zip(('', '+', '++'), arr)],
                      'inters': {'angles': [{'atoms': [('', 'BB'), ('+', 'BB'), ('++', 'BB')],
                                             'params': ['2', f'{rng.uniform(90, 180):.3f}', f'{rng.uniform(5, 90):.3f}'], 'meta': {}}]}})
    return {'blocks': blocks, 'links': links}, names


def gen_replace_select_ff(rng):
    """one residue type; a chain link that replaces the type of an atom, and another link (angle over three residues, or a
    second bond term) that selects that same atom by the type its block gives it.  The two links define different
    interactions; in either order of definition both apply."""
    t0, t1 = rng.sample(ATYPES, 2)
    blocks = [{'name': 'RA', 'nrexcl': 1, 'inters': {'bonds': [{'atoms': [0, 1], 'params': ['1', '0.300', '1000.000'], 'meta': {}}]},
               'atoms': [{'name': 'BB', 'atype': t0, 'cg': 1, 'charge': '0.0', 'mass': '72.0'},
                         {'name': 'SC', 'atype': 'C1', 'cg': 2, 'charge': '0.0', 'mass': '36.0'}]}]
    who = rng.choice(['', '+'])
    replacing = {'resnames': ['RA'], 'edges': [], 'meta': {}, 'atoms_attr': [[[who, 'BB'], {'replace': {'atype': t1, 'mass': '14.027'}}]],
                 'inters': {'bonds': [{'atoms': [('', 'BB'), ('+', 'BB')], 'params': ['1', '0.350', '1250.000'], 'meta': {}}]}}
    selecting = {'resnames': ['RA'], 'edges': [], 'meta': {}, 'atoms_attr': [[[rng.choice(['', '+', '++']), 'BB'], {'atype': t0}]],
                 'inters': {'angles': [{'atoms': [('', 'BB'), ('+', 'BB'), ('++', 'BB')], 'params': ['2', f'{rng.uniform(90, 180):.3f}', '25.000'], 'meta': {}}]}}
    links = [replacing, selecting]
    if rng.random() < 0.5:
        links.reverse()
    nres = rng.randint(3, 6)
    g = {'nres': nres, 'shape': 'path', 'resnames': ['RA'] * nres, 'edges': [(i, i + 1) for i in range(nres - 1)], 'r0': rng.choice([1, 1, 4]),
         'keys': list(range(nres)), 'order': list(range(nres)), 'edge_order': list(range(nres - 1)), 'flip': [False] * (nres - 1)}
    return {'blocks': blocks, 'links': links}, g


def gen_arrangement_graph(rng, names):
    nres = rng.randint(3, 8)
    g = {'nres': nres, 'shape': 'path', 'resnames': [rng.choice(names[:2]) if rng.random() < 0.8 else rng.choice(names) for _ in range(nres)],
         'edges': [(i, i + 1) for i in range(nres - 1)], 'r0': rng.choice([1, 1, 5]),
         'keys': list(range(nres)), 'order': list(range(nres)), 'edge_order': list(range(nres - 1)), 'flip': [False] * (nres - 1)}
    if rng.random() < 0.4:
        g['resnames'] = [names[i % 2] for i in range(nres)]      # alternating copolymer
    return g


def fmt_meta(meta):
    return (' ' + json.dumps(meta)) if meta else ''


def render_ff(ff):
    out = []
    for b in ff['blocks']:
        out += ['[ moleculetype ]', f"{b['name']} {b['nrexcl']}", '[ atoms ]']
        for i, a in enumerate(b['atoms']):
            out.append(f"{i + 1} {a['atype']} 1 {b['name']} {a['name']} {a['cg']} {a['charge']} {a['mass']}")
        for sec, rows in b['inters'].items():
            out.append(f'[ {sec} ]')
            for r in rows:
                out.append(' '.join(b['atoms'][i]['name'] for i in r['atoms']) + ' ' + ' '.join(r['params']) + fmt_meta(r['meta']))
        out.append('')
    for l in ff['links']:
        out += ['[ link ]'] + (['resname "' + '|'.join(l['resnames']) + '"'] if l['resnames'] else [])
        if l['atoms_attr']:
            out.append('[ atoms ]')
            for (p, n), attr in l['atoms_attr']:
                out.append(f'{p}{n} {json.dumps(dict(attr, order=0) if p == "" else attr)}')
        for sec, rows in l['inters'].items():
            out.append(f'[ {sec} ]')
            for r in rows:
                out.append(' '.join(p + n for p, n in r['atoms']) + ' ' + ' '.join(r['params']) + fmt_meta(r['meta']))
        if l['edges'] or l.get('edge_labels'):
            out.append('[ edges ]')
            for a, b in l['edges']:
                out.append(f'{a[0]}{a[1]} {b[0]}{b[1]}')
            for a, b, lab in l.get('edge_labels', []):
                out.append(f'{a[0]}{a[1]} {b[0]}{b[1]} ' + json.dumps({'linktype': lab}))
        out.append('')
    # links that address atoms of the finished molecule by (1-based) atom id
    for l in ff.get('explicit_links', []):
        out += ['[ link ]', '[ molmeta ]', 'by_atom_id true']
        for sec, rows in l.items():
            out.append(f'[ {sec} ]')
            for r in rows:
                out.append(' '.join(str(a) for a in r['atoms']) + ' ' + ' '.join(r['params']))
        out.append('')
    return '\n'.join(out) + '\n'


def gen_resgraph(rng, ff, nres=None, shape=None):
    nres = nres or rng.randint(1, 7)
    shape = shape or rng.choice(['path', 'path', 'path', 'tree', 'ring'] if nres >= 3 else ['path'])
    names = [b['name'] for b in ff['blocks']]
    resnames = [rng.choice(names) for _ in range(nres)]
    if shape == 'path':
        edges = [(i, i + 1) for i in range(nres - 1)]
    elif shape == 'ring':
        edges = [(i, i + 1) for i in range(nres - 1)] + [(0, nres - 1)]
    else:
        edges = [(rng.randrange(i), i) for i in range(1, nres)]
    r0 = rng.choice([1, 1, 2, 17])
    return {'nres': nres, 'shape': shape, 'resnames': resnames, 'edges': edges, 'r0': r0,
            'keys': list(range(nres)), 'order': list(range(nres)), 'edge_order': list(range(len(edges))), 'flip': [False] * len(edges)}


RATTR = ('chiral', ['R', 'S'])


def attr_graph(rng, g, p=0.7):
    """residues carrying a further attribute, as a .json sequence or a gen_seq -label gives them"""
    return dict(g, rattrs={str(i): {RATTR[0]: rng.choice(RATTR[1])} for i in range(g['nres']) if rng.random() < p})


def attr_link(rng, link):
    """a copy of the link one of whose atoms also states a residue attribute"""
    used = sorted({tuple(a) for rows in link['inters'].values() for r in rows for a in r['atoms']})
    if not used or not link['resnames']:
        return None
    a = rng.choice(used)
    if any(tuple(pn) == a for pn, _ in link['atoms_attr']):
        return None
    # own parameters: where the copy applies it overwrites what the plain link wrote
    inters = {sec: [dict(r, params=[r['params'][0]] + [f'{rng.uniform(0.1, 9):.3f}' for _ in r['params'][1:]] if r['params'] else [])
                    for r in rows] for sec, rows in link['inters'].items()}
    return dict(link, inters=inters, atoms_attr=link['atoms_attr'] + [[list(a), {RATTR[0]: rng.choice(RATTR[1])}]])


def label_graph(rng, g, p=0.5):
    """residue-graph edges with a 'linktype' label (as a .json sequence or a circular .ig file gives them)"""
    return dict(g, elabels={str(k): rng.choice(LINKTYPES) for k in range(len(g['edges'])) if rng.random() < p})


def permute_graph(rng, g):
    """same residue graph (resids fixed) with other node keys, insertion order, edge order, edge orientation"""
    n = g['nres']
    keys = rng.sample(range(0, 3 * n + 2), n)
    order = list(range(n))
    rng.shuffle(order)
    eo = list(range(len(g['edges'])))
    rng.shuffle(eo)
    return dict(g, keys=keys, order=order, edge_order=eo, flip=[rng.random() < 0.5 for _ in g['edges']])


def build_meta(g, force_field):
    import networkx as nx
    from polyply import MetaMolecule
    graph = nx.Graph()
    for i in g['order']:
        graph.add_node(g['keys'][i], resname=g['resnames'][i], resid=g['r0'] + i, **g.get('rattrs', {}).get(str(i), {}))
    for k in g['edge_order']:
        a, b = g['edges'][k]
        if g['flip'][k]:
            a, b = b, a
        lab = g.get('elabels', {}).get(str(k))
        if lab is None:
            graph.add_edge(g['keys'][a], g['keys'][b])
        else:
            graph.add_edge(g['keys'][a], g['keys'][b], linktype=lab)
    return MetaMolecule(graph, force_field=force_field, mol_name='mol')


def load_ff(text):
    import vermouth.forcefield
    from vermouth.ffinput import read_ff
    ff = vermouth.forcefield.ForceField('generated')
    read_ff(text.split('\n'), ff)
    return ff


def snapshot(molecule):
    atoms = []
    for k in sorted(molecule.nodes):
        d = molecule.nodes[k]
        atoms.append({'key': int(k), 'name': d.get('atomname'), 'atype': d.get('atype'), 'resid': d.get('resid'), 'resname': d.get('resname'),
                      'cg': d.get('charge_group'), 'charge': None if d.get('charge') is None else float(d.get('charge')),
                      'mass': None if d.get('mass') is None else float(d.get('mass')), 'exclude': d.get('exclude')})
    inters = {}
    for sec, rows in molecule.interactions.items():
        inters[sec] = [{'atoms': [int(a) for a in r.atoms], 'params': [str(p) for p in r.parameters],
                        'meta': {k: v for k, v in r.meta.items()}} for r in rows]
    return {'atoms': atoms, 'inters': {k: v for k, v in inters.items() if v}, 'edges': sorted(tuple(sorted((int(a), int(b)))) for a, b in molecule.edges),
            'nrexcl': molecule.nrexcl}


def run_pipeline(ff_text, g, stages=('map', 'links'), mods=None, capture_log=False):
    """real processors on a generated force field and residue graph; returns snapshots per stage"""
    from polyply import MapToMolecule, ApplyLinks
    os.environ.setdefault('TQDM_DISABLE', '1')
    out = {}
    sink = io.StringIO()
    with contextlib.redirect_stderr(sink), contextlib.redirect_stdout(sink):
        try:
            ff = load_ff(ff_text)
            meta = build_meta(g, ff)
            MapToMolecule(ff).run_molecule(meta)
            out['map'] = snapshot(meta.molecule)
            out['residue_atoms'] = {int(meta.nodes[n]['resid']): sorted(int(a) for a in meta.nodes[n]['graph'].nodes) for n in meta.nodes}
            if 'links' in stages:
                ApplyLinks().run_molecule(meta)
                out['links'] = snapshot(meta.molecule)
            if mods is not None:
                from polyply.src.apply_modifications import ApplyModifications
                ApplyModifications(modifications=mods, meta_molecule=meta).run_molecule(meta)
                out['mods'] = snapshot(meta.molecule)
            out['meta'] = meta
        except Exception as exc:  # noqa
            out['error'] = f'{type(exc).__name__}: {exc}'
            out['exc_type'] = type(exc).__name__
    return out


# ------------------------------------------------------------------ links that remove an atom, among links that name it
def gen_removal_ff(rng):
    """a chain of MON residues (A-B-H) with a link that removes H where two residues join and further links that name H
    (an interaction on it, dropped with the atom) beside interactions on atoms that stay; returns the links (any order of
    the non-overwriting ones must give the same molecule) and the number of residues"""
    links = [{'name': 'remove', 'atoms': ['H {"replace": {"atomname": null}}'], 'inters': [('bonds', ['B', '+A'], ['1', '0.37', '7000'])]},
             {'name': 'junction', 'atoms': [], 'inters': [('angles', ['A', 'B', '+A'], ['2', '120', '50']), ('angles', ['H', 'B', '+A'], ['2', '100', '20'])]}]
    if rng.random() < 0.5:
        links.append({'name': 'dihedral', 'atoms': ['H {}'], 'inters': [('dihedrals', ['A', 'B', '+A', '+B'], ['1', '0', '5', '3'])]})
    override = None
    if rng.random() < 0.5:
        # defined last: overrides the bond of the removing link, and names H as well
        override = {'name': 'override', 'atoms': [], 'inters': [('bonds', ['B', '+A'], ['1', '0.40', '9000']), ('bonds', ['H', '+A'], ['1', '0.50', '100'])]}
    return {'links': links, 'override': override, 'nres': rng.randint(2, 5)}


def removal_ff_text(case, order):
    lines = ['[ moleculetype ]', 'MON 1', '[ atoms ]', '1 P1 1 MON A 1 0.0 45', '2 P2 1 MON B 2 0.0 45', '3 P3 1 MON H 3 0.0 1',
             '[ bonds ]', 'A B 1 0.30 1000', 'B H 1 0.11 2000']
    links = [case['links'][i] for i in order] + ([case['override']] if case['override'] else [])
    for ln in links:
        lines += ['[ link ]', 'resname "MON"']
        if ln['atoms']:
            lines += ['[ atoms ]'] + ln['atoms']
        sec = None
        for s_, ats, ps in ln['inters']:
            if s_ != sec:
                lines.append(f'[ {s_} ]')
                sec = s_
            lines.append(' '.join(ats) + ' ' + ' '.join(ps))
    return '\n'.join(lines) + '\n'


def removal_expected(case):
    """from the definitions: atoms (name, residue) and interactions (section, atoms as (name, residue), parameters)"""
    n = case['nres']
    removed = {('H', r) for r in range(1, n)}
    atoms = sorted((nm, r) for r in range(1, n + 1) for nm in 'ABH' if (nm, r) not in removed)
    inters = {}
    for r in range(1, n + 1):
        inters[('bonds', (('A', r), ('B', r)))] = ('1', '0.30', '1000')
        inters[('bonds', (('B', r), ('H', r)))] = ('1', '0.11', '2000')
    for ln in case['links'] + ([case['override']] if case['override'] else []):
        for r in range(1, n):
            for s_, ats, ps in ln['inters']:
                key = (s_, tuple((a.lstrip('+'), r + (1 if a.startswith('+') else 0)) for a in ats))
                inters[key] = tuple(ps)
    inters = {k: v for k, v in inters.items() if not set(k[1]) & removed}
    return atoms, sorted((k[0], k[1], v) for k, v in inters.items())


def removal_observed(out):
    snap = out['links']
    ident = {a['key']: (a['name'], a['resid']) for a in snap['atoms']}
    atoms = sorted(ident.values())
    inters = sorted((sec, tuple(ident.get(x, ('?', x)) for x in r['atoms']), tuple(r['params'])) for sec, rows in snap['inters'].items() for r in rows)
    return atoms, inters


def removal_graph(case):
    n = case['nres']
    return {'nres': n, 'shape': 'path', 'resnames': ['MON'] * n, 'edges': [(i, i + 1) for i in range(n - 1)], 'r0': 1,
            'keys': list(range(n)), 'order': list(range(n)), 'edge_order': list(range(n - 1)), 'flip': [False] * (n - 1)}
