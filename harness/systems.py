"""Generated small GROMACS topologies and an in-process driver for polyply's gen_coords with
interposition hooks (shared by C03 C04 C05 C07 C18 C20)."""
import contextlib
import io
import os
import shutil
import tempfile

import numpy as np

os.environ.setdefault('TQDM_DISABLE', '1')

ATOMTYPES = {'P1': (0.47, 72.0), 'P2': (0.43, 56.0), 'P3': (0.38, 36.0), 'Q1': (0.52, 90.0)}


def gen_moltype(rng, name, nres=None, multi_atom=False, shape=None, resnames=None, restart=False):
    """a molecule type: residues of 1 (or 1-3) atoms, residue graph = path / branched / ring"""
    nres = nres or rng.randint(1, 6)
    shape = shape or rng.choice(['path', 'path', 'tree', 'ring'] if nres >= 3 else ['path'])
    resnames = resnames or [rng.choice(['RA', 'RB']) for _ in range(nres)]
    if shape == 'path':
        redges = [(i, i + 1) for i in range(nres - 1)]
    elif shape == 'ring':
        redges = [(i, i + 1) for i in range(nres - 1)] + [(0, nres - 1)]
    else:
        redges = [(rng.randrange(i), i) for i in range(1, nres)]
    atoms, bonds, first = [], [], []
    idx = 1
    # restart: the residue numbering starts again at 1 inside the molecule (merged chains); residues that share a
    # number differ in name, so (number, name) still identifies a residue
    cut = rng.randint(1, nres - 1) if restart and nres >= 2 else None
    if cut is not None:
        resnames = ['RA' if r < cut else 'RB' for r in range(nres)]
    for r in range(nres):
        k = rng.randint(1, 3) if multi_atom else 1
        first.append(idx)
        for a in range(k):
            atype = rng.choice(sorted(ATOMTYPES))
            atoms.append({'idx': idx, 'atype': atype, 'resid': (r + 1) if cut is None or r < cut else r - cut + 1, 'res': r, 'resname': resnames[r],
                          'name': f'{"ABC"[a]}{r % 9}' if multi_atom else 'B', 'cgnr': idx, 'charge': 0.0,
                          'mass': ATOMTYPES[atype][1]})
            if a > 0:
                bonds.append((idx - 1, idx))
            idx += 1
    for a, b in redges:
        bonds.append((first[a], first[b]))
    return {'name': name, 'nres': nres, 'shape': shape, 'resnames': resnames, 'redges': redges,
            'atoms': atoms, 'bonds': bonds}


def add_virtual_sites(rng, mt, p=0.6):
    """give residues with at least two atoms a virtual site V built from their first two atoms (virtual_sitesn, centre of
    geometry): atoms are renumbered, bonds follow"""
    new_atoms, remap, vsites = [], {}, []
    for r in range(mt['nres']):
        mine = [a for a in mt['atoms'] if a['res'] == r]
        for a in mine:
            remap[a['idx']] = len(new_atoms) + 1
            new_atoms.append(dict(a, idx=len(new_atoms) + 1, cgnr=len(new_atoms) + 1))
        if len(mine) >= 2 and rng.random() < p:
            v = dict(mine[0], idx=len(new_atoms) + 1, cgnr=len(new_atoms) + 1, name='V' + mine[0]['name'][1:], mass=0.0)
            new_atoms.append(v)
            vsites.append((v['idx'], [remap[mine[0]['idx']], remap[mine[1]['idx']]]))
    return dict(mt, atoms=new_atoms, bonds=[(remap[a], remap[b]) for a, b in mt['bonds']], vsites=vsites)


def moltype_text(mt):
    out = ['[ moleculetype ]', f"{mt['name']} 1", '[ atoms ]']
    for a in mt['atoms']:
        out.append(f"{a['idx']} {a['atype']} {a['resid']} {a['resname']} {a['name']} {a['cgnr']} {a['charge']} {a['mass']}")
    if mt['bonds']:
        out.append('[ bonds ]')
        for a, b in mt['bonds']:
            out.append(f"{a} {b} 1 0.35 5000")
    if mt.get('vsites'):
        out.append('[ virtual_sitesn ]')
        for v, cons in mt['vsites']:
            out.append(f"{v} 1 " + ' '.join(str(c) for c in cons))
    return '\n'.join(out) + '\n'


def top_text(moltypes, molecules, with_mass=True):
    out = ['[ defaults ]', '1 2 no 1.0 1.0', '[ atomtypes ]']
    for t, (sig, mass) in sorted(ATOMTYPES.items()):
        out.append(f"{t} {mass} 0.0 A {sig} 2.0")
    out.append('')
    for mt in moltypes:
        out.append(moltype_text(mt))
    out += ['[ system ]', 'generated', '[ molecules ]']
    for name, n in molecules:
        out.append(f"{name} {n}")
    return '\n'.join(out) + '\n'


def expanded_atoms(moltypes, molecules):
    """expected .gro rows (resid, resname, atomname) in topology order"""
    by = {mt['name']: mt for mt in moltypes}
    rows = []
    for name, n in molecules:
        for _ in range(n):
            for a in by[name]['atoms']:
                rows.append((a['resid'], a['resname'], a['name']))
    return rows


def read_gro(path):
    with open(path) as fh:
        lines = fh.read().split('\n')
    n = int(lines[1])
    rows = []
    for ln in lines[2:2 + n]:
        rows.append({'resid': int(ln[0:5]), 'resname': ln[5:10].strip(), 'name': ln[10:15].strip(),
                     'idx': int(ln[15:20]), 'xyz': [float(x) for x in ln[20:].split()[:3]], 'raw': ln})
    box = [float(x) for x in lines[2 + n].split()]
    return rows, box


def write_gro(path, rows, box, title='in'):
    with open(path, 'w') as fh:
        fh.write(title + '\n%d\n' % len(rows))
        for i, r in enumerate(rows):
            fh.write('%5d%-5s%5s%5d%8.3f%8.3f%8.3f\n' % (r['resid'], r['resname'], r['name'], (i + 1) % 100000,
                                                          r['xyz'][0], r['xyz'][1], r['xyz'][2]))
        fh.write(' '.join('%.5f' % b for b in box) + '\n')


class Workdir:
    def __enter__(self):
        self.path = tempfile.mkdtemp(prefix='pv_')
        return self.path

    def __exit__(self, *a):
        shutil.rmtree(self.path, ignore_errors=True)


def run_gen_coords(workdir, top, seed=0, hooks=None, files=None, timeout=60, **kwargs):
    """write the topology, run polyply.src.gen_coords.gen_coords in-process; returns dict with
    out rows/box or the exception; hooks: dict name -> callable installed by `patches`"""
    import random
    import pathlib
    import polyply.src.gen_coords as gc
    toppath = os.path.join(workdir, 'system.top')
    with open(toppath, 'w') as fh:
        fh.write(top)
    for fn, text in (files or {}).items():
        with open(os.path.join(workdir, fn), 'w') as fh:
            fh.write(text)
    outpath = os.path.join(workdir, kwargs.pop('outname', 'out.gro'))
    random.seed(seed)
    np.random.seed(seed)
    res = {'outpath': outpath}
    args = dict(toppath=pathlib.Path(toppath), outpath=pathlib.Path(outpath), name='generated')
    for k in ('coordpath', 'coordpath_meta', 'grid'):
        if kwargs.get(k):
            kwargs[k] = pathlib.Path(os.path.join(workdir, kwargs[k]))
    if 'build' in kwargs:
        kwargs['build'] = [pathlib.Path(os.path.join(workdir, b)) for b in kwargs['build']]
    args.update(kwargs)
    sink = io.StringIO()
    try:
        with contextlib.redirect_stderr(sink), contextlib.redirect_stdout(sink):
            with patches(hooks or {}), watchdog(timeout):
                gc.gen_coords(**args)
        res['ok'] = True
    except Exception as exc:  # noqa
        res['ok'] = False
        res['exception'] = exc
        res['exc_type'] = type(exc).__name__
    res['log'] = sink.getvalue()[-2000:]
    if os.path.exists(outpath):
        res['rows'], res['box'] = read_gro(outpath)
    return res


class RunTimeout(Exception):
    pass


@contextlib.contextmanager
def watchdog(seconds):
    """raise RunTimeout inside the running polyply call after `seconds` (main thread only)"""
    import signal

    def handler(signum, frame):
        raise RunTimeout(f"no result after {seconds} s")
    old = signal.signal(signal.SIGALRM, handler)
    signal.alarm(int(seconds))
    try:
        yield
    finally:
        signal.alarm(0)
        signal.signal(signal.SIGALRM, old)


@contextlib.contextmanager
def patches(hooks):
    """hooks: {'module.path:Class.attr' or 'module.path:func': wrapper_factory(real) -> replacement}"""
    import importlib
    saved = []
    try:
        for target, factory in hooks.items():
            modname, attr = target.split(':')
            obj = importlib.import_module(modname)
            parts = attr.split('.')
            for p in parts[:-1]:
                obj = getattr(obj, p)
            real = getattr(obj, parts[-1])
            saved.append((obj, parts[-1], real))
            setattr(obj, parts[-1], factory(real))
        yield
    finally:
        for obj, name, real in reversed(saved):
            setattr(obj, name, real)
