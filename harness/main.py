"""Entry point:  ./check <PID> [--tier quick|thorough] [--replay FILE]"""
import argparse
import importlib
import json
import os
import sys
import traceback

from harness import core


def main():
    ap = argparse.ArgumentParser()
    ap.add_argument('pid')
    ap.add_argument('--tier', default=os.environ.get('VERIF_TIER', 'quick'), choices=['quick', 'thorough'])
    ap.add_argument('--replay')
    ap.add_argument('--no-build', action='store_true', help='debugging: skip the Coq build')
    args = ap.parse_args()
    pid = args.pid.upper()
    seed = int(os.environ.get('VERIF_SEED', '0') or 0)
    mod = importlib.import_module(f'harness.props.{pid.lower()}')
    ctx = core.Ctx(pid, args.tier, seed)
    meta = mod.META
    ctx.rule = meta.get('rule', '')
    if args.replay:
        with open(args.replay, encoding='utf8') as fh:
            data = json.load(fh)
        rc = mod.replay(ctx, data)
        sys.exit(rc)
    try:
        if not args.no_build:
            ok = core.build_property(ctx, extra_targets=meta.get('eval_deps', ()), gen_deps=meta.get('gen_deps'))
        else:
            ok = True
        mod.run(ctx)
        if ctx.broken and not [v for v in ctx.violations]:
            # an obligation or a correspondence broke: look for a concrete failing input
            if hasattr(mod, 'search'):
                ctx.note("obligation broken; searching model and implementation for a failing input")
                mod.search(ctx)
    except Exception as exc:  # harness failure is reported as a broken check, never silently passed
        traceback.print_exc()
        ctx.broken.append(f'harness-error: {type(exc).__name__}: {exc}')
    sys.exit(core.finish(ctx, meta))


if __name__ == '__main__':
    main()
