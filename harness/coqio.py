"""Python <-> Coq term text: rendering literals for generated case files and parsing the
output of `Eval vm_compute`."""
import math
import re


# ------------------------------------------------------------------ rendering
class Raw(str):
    """already-rendered Coq text"""


def zlit(n):
    return f"({int(n)})%Z" if n < 0 else f"{int(n)}%Z"


def natlit(n):
    assert 0 <= n < 5000, "no large nat literals"
    return f"{int(n)}%nat"


def flit(x):
    x = float(x)
    if math.isnan(x):
        return "nan%float"
    if math.isinf(x):
        return "infinity%float" if x > 0 else "neg_infinity%float"
    h = x.hex()
    return f"({h})%float" if h.startswith('-') else f"{h}%float"


def slit(s):
    assert all(32 <= ord(c) < 127 for c in s), f"non-printable in string literal {s!r}"
    return '"' + s.replace('"', '""') + '"%string'


def blit(b):
    return 'true' if b else 'false'


def lit(x, num='Z'):
    """generic renderer: bool, int (as Z or nat), float, str, None/('Some',x), tuple, list"""
    if isinstance(x, Raw):
        return str(x)
    if isinstance(x, bool):
        return blit(x)
    if isinstance(x, int):
        return zlit(x) if num == 'Z' else natlit(x)
    if isinstance(x, float):
        return flit(x)
    if isinstance(x, str):
        return slit(x)
    if x is None:
        return "None"
    if isinstance(x, Some):
        return f"(Some {lit(x.v, num)})"
    if isinstance(x, tuple):
        if len(x) == 0:
            return "tt"
        return "(" + ", ".join(lit(e, num) for e in x) + ")"
    if isinstance(x, list):
        return "[" + "; ".join(lit(e, num) for e in x) + "]"
    raise TypeError(f"cannot render {type(x)}")


class Some:
    def __init__(self, v):
        self.v = v


def opt(x):
    return None if x is None else Some(x)


# ------------------------------------------------------------------ parsing
TOKEN = re.compile(r'''
    (?P<ws>\s+)
  | (?P<str>"(?:[^"]|"")*")
  | (?P<num>-?(?:0x[0-9a-fA-F.]+p[-+]?\d+|\d+\.?\d*(?:[eE][-+]?\d+)?))
  | (?P<id>[A-Za-z_][A-Za-z_0-9'.]*)
  | (?P<sym>[\[\]();,])
  | (?P<scope>%[a-z_A-Z0-9]+)
''', re.X)


def tokenize(text):
    pos, out = 0, []
    while pos < len(text):
        m = TOKEN.match(text, pos)
        if not m:
            raise ValueError(f"coq output: cannot tokenize at {text[pos:pos+40]!r}")
        pos = m.end()
        kind = m.lastgroup
        if kind in ('ws', 'scope'):
            if kind == 'scope' and out and out[-1][0] == 'num' and m.group() == '%float':
                out[-1] = ('float', out[-1][1])
            continue
        out.append((kind, m.group()))
    return out


class Parser:
    def __init__(self, toks):
        self.toks = toks
        self.i = 0

    def peek(self):
        return self.toks[self.i] if self.i < len(self.toks) else (None, None)

    def next(self):
        t = self.peek()
        self.i += 1
        return t

    def term(self):
        """application level: ident atom* | atom"""
        kind, val = self.peek()
        if kind == 'id' and val not in ('true', 'false', 'None', 'tt', 'nil', 'infinity',
                                        'neg_infinity', 'nan'):
            self.next()
            args = []
            while True:
                k, v = self.peek()
                if k in ('str', 'num', 'float', 'id') or (k == 'sym' and v in '[('):
                    args.append(self.atom())
                else:
                    break
            return (val,) + tuple(args) if args else (val,)
        return self.atom()

    def atom(self):
        kind, val = self.next()
        if kind == 'str':
            return val[1:-1].replace('""', '"')
        if kind == 'float':
            return float.fromhex(val) if 'x' in val else float(val)
        if kind == 'num':
            if re.fullmatch(r'-?\d+', val):
                return int(val)
            return float.fromhex(val) if 'x' in val else float(val)
        if kind == 'id':
            if val == 'true':
                return True
            if val == 'false':
                return False
            if val == 'None':
                return None
            if val == 'tt':
                return ()
            if val == 'nil':
                return []
            if val == 'infinity':
                return math.inf
            if val == 'neg_infinity':
                return -math.inf
            if val == 'nan':
                return math.nan
            return (val,)
        if kind == 'sym' and val == '[':
            items = []
            if self.peek() == ('sym', ']'):
                self.next()
                return items
            while True:
                items.append(self.term())
                k, v = self.next()
                if (k, v) == ('sym', ']'):
                    return items
                if (k, v) != ('sym', ';'):
                    raise ValueError(f"coq output: expected ; or ] got {v!r}")
        if kind == 'sym' and val == '(':
            items = [self.term()]
            while True:
                k, v = self.next()
                if (k, v) == ('sym', ')'):
                    break
                if (k, v) != ('sym', ','):
                    raise ValueError(f"coq output: expected , or ) got {v!r}")
                items.append(self.term())
            return items[0] if len(items) == 1 else tuple(items)
        raise ValueError(f"coq output: unexpected token {val!r}")


def parse_term(text):
    p = Parser(tokenize(text))
    t = p.term()
    if p.i != len(p.toks):
        raise ValueError(f"coq output: trailing tokens after term: {p.toks[p.i:p.i+5]}")
    return t


EVAL_RE = re.compile(r'^\s+= (.*?)^\s+: ', re.S | re.M)


def parse_evals(stdout):
    """all results of `Eval ... in` commands in a coqc output, in order"""
    return [parse_term(m.group(1)) for m in EVAL_RE.finditer(stdout)]


def unsome(x):
    """('Some', v) -> v ; None -> None"""
    if x is None:
        return None
    if isinstance(x, tuple) and x and x[0] == 'Some':
        return x[1]
    raise ValueError(f"not an option: {x!r}")
