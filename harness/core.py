"""Shared machinery of the checks: paths, translator run, Coq build / evaluation, verdicts,
known findings, evidence."""
import fcntl
import hashlib
import json
import os
import random
import re
import subprocess
import sys
import time

VERIF = os.path.dirname(os.path.dirname(os.path.abspath(__file__)))
REPO = os.environ.get('VERIF_REPO', '/repo')
COQ = os.path.join(VERIF, 'coq')
GEN_DIR = os.path.join(COQ, 'theories', 'gen')
WORK = os.path.join(VERIF, 'work')
REPLAYS = os.path.join(VERIF, 'replays')
EVIDENCE = os.path.join(VERIF, 'evidence')
CORPUS = os.path.join(VERIF, 'corpus')
PY = '/venv/bin/python'
NPROC = int(os.environ.get('VERIF_JOBS', '16'))

KERNEL_TB = [
    "Coq 8.16.1 kernel (coqc, full .vo builds; vm_compute used for evaluation and finite forallb lemmas; no native_compute)",
    "gen/translate.py + gen/sigs.py + gen/extractors.py (fail-closed Python-ast -> Gallina translator; tie T)",
    "harness/*.py (generators, implementation drivers, canonicalisers, Coq case-file writer and output parser; tie D)",
    "CPython 3.12, numpy, scipy, networkx, vermouth 0.15.0 as installed in /venv (library behaviour is modelled by contract, validated by the correspondence runs only)",
]


def env_for_impl():
    env = dict(os.environ)
    env['PYTHONPATH'] = REPO + os.pathsep + VERIF
    env['PYTHONHASHSEED'] = '0'
    env.pop('MARRINK_LAB_POLYPLY_1_0_VERIF', None)
    return env


class Ctx:
    def __init__(self, pid, tier, seed):
        self.pid = pid
        self.tier = tier
        self.seed = seed
        self.rng = random.Random(seed * 1000003 + int(hashlib.sha256(pid.encode()).hexdigest()[:8], 16))
        self.t0 = time.time()
        self.work = os.path.join(WORK, pid)
        os.makedirs(self.work, exist_ok=True)
        os.makedirs(os.path.join(REPLAYS, pid), exist_ok=True)
        self.violations = []      # dicts: {kind, what, replay(dict), finding(optional id)}
        self.known_hits = []
        self.evaluations = 0
        self.nontrivial = set()   # hashable case fingerprints judged non-trivial
        self.samples = []
        self.features = {}
        self.notes = []
        self.gen = {'errors': [], 'stamps': [], 'files': []}
        self.build = {'ok': None, 'log': '', 'failed': None}
        self.props = {'theorems': [], 'assumptions': {}, 'ok': None, 'log': ''}
        self.extra = {}
        self.rule = ''
        self.assumptions = []
        self.trusted = list(KERNEL_TB)
        self.checker_cmds = []
        self.correspondences = []   # names of correspondence checks that ran
        self.broken = []            # names of theorems / correspondences that no longer check

    @property
    def quick(self):
        return self.tier == 'quick'

    def n(self, quick, thorough):
        return quick if self.tier == 'quick' else thorough

    def feature(self, name, k=1):
        self.features[name] = self.features.get(name, 0) + k

    def case(self, fingerprint=None, nontrivial=True, sample=None):
        self.evaluations += 1
        if nontrivial and fingerprint is not None:
            self.nontrivial.add(fingerprint if isinstance(fingerprint, (str, int, tuple)) else json.dumps(fingerprint, sort_keys=True, default=str))
        if sample is not None and len(self.samples) < 6:
            self.samples.append(sample)

    def violation(self, kind, what, replay, finding=None):
        self.violations.append({'kind': kind, 'what': what, 'replay': replay, 'finding': finding})

    def note(self, msg):
        self.notes.append(msg)
        print(f"[{self.pid}] {msg}", flush=True)


# ------------------------------------------------------------------ translator (tie T)
def regen(ctx):
    sys.path.insert(0, os.path.join(VERIF, 'gen'))
    import importlib
    import translate
    importlib.reload(translate)
    with BuildLock():
        res = translate.run(REPO, GEN_DIR)
    ctx.gen = res
    for e in res['errors']:
        ctx.note(f"translator rejected {e['target']} ({e['out']}): {e['error']}")
    return res


class BuildLock:
    def __enter__(self):
        os.makedirs(COQ, exist_ok=True)
        self.fh = open(os.path.join(COQ, '.buildlock'), 'w')
        fcntl.flock(self.fh, fcntl.LOCK_EX)
        return self

    def __exit__(self, *a):
        fcntl.flock(self.fh, fcntl.LOCK_UN)
        self.fh.close()


# ------------------------------------------------------------------ Coq build
ERR_RE = re.compile(r'File "\./?([^"]+)", line (\d+), characters [\d-]+:\s*\nError:(.*?)(?=\n\n|\nmake|\Z)', re.S)


def enclosing_lemma(path, line):
    try:
        with open(path, encoding='utf8') as fh:
            lines = fh.read().split('\n')
    except OSError:
        return None
    for i in range(min(line, len(lines)) - 1, -1, -1):
        m = re.match(r'\s*(?:Local\s+|Global\s+)?(Lemma|Theorem|Example|Corollary|Definition|Fixpoint|Fact|Remark)\s+([A-Za-z_0-9\']+)', lines[i])
        if m:
            return m.group(2)
    return None


def coq_make(targets, timeout=1500, keep_going=True):
    """make the given .vo targets (paths relative to coq/); returns dict(ok, log, failures=[...])"""
    with BuildLock():
        subprocess.run([os.path.join(VERIF, 'tools', 'mkcoqproject.sh')], check=True, cwd=VERIF)
        cmd = ['timeout', str(timeout), 'make', '-j', str(NPROC)] + (['-k'] if keep_going else []) + list(targets)
        p = subprocess.run(cmd, cwd=COQ, stdout=subprocess.PIPE, stderr=subprocess.STDOUT, text=True)
    failures = []
    for m in ERR_RE.finditer(p.stdout):
        f, ln, msg = m.group(1), int(m.group(2)), m.group(3).strip()
        failures.append({'file': f, 'line': ln, 'lemma': enclosing_lemma(os.path.join(COQ, f), ln),
                         'error': msg[:600]})
    if p.returncode != 0 and not failures:
        failures.append({'file': '?', 'line': 0, 'lemma': None, 'error': p.stdout[-800:]})
    return {'ok': p.returncode == 0, 'log': p.stdout, 'failures': failures,
            'cmd': 'cd coq && ' + ' '.join(cmd)}


def props_file(pid):
    return os.path.join(COQ, 'theories', 'Props', f'{pid}.v')


def parse_props(pid):
    """theorem names in Props/<pid>.v with the lemma each is closed by"""
    with open(props_file(pid), encoding='utf8') as fh:
        text = fh.read()
    out = []
    for m in re.finditer(r'^(Theorem|Example)\s+([A-Za-z_0-9\']+)(.*?)^Proof\.\s*exact\s+\(?@?([A-Za-z_0-9\'.]+).*?Qed\.', text, re.S | re.M):
        out.append({'kind': m.group(1), 'name': m.group(2), 'by': m.group(4).rstrip('.'), 'line': text[:m.start()].count('\n') + 1})
    return out


def build_property(ctx, timeout=1500, extra_targets=(), gen_deps=None):
    """steps 1-2 of a check: regenerate gen/*.v, build the cone of Props/<pid>.vo, collect
    Print Assumptions.  Sets ctx.build / ctx.props / ctx.broken."""
    regen(ctx)
    target = f'theories/Props/{ctx.pid}.vo'
    res = coq_make([target] + list(extra_targets), timeout=timeout)
    ctx.build = res
    ctx.checker_cmds.append(res['cmd'])
    thms = parse_props(ctx.pid)
    ctx.props['theorems'] = thms
    if res['ok']:
        # recompile the statement file alone to capture Print Assumptions (the .vo goes to work/)
        os.makedirs(os.path.join(ctx.work, 'props'), exist_ok=True)
        out_vo = os.path.join(ctx.work, 'props', f'{ctx.pid}.vo')
        cmd = ['timeout', '600', 'coqc', '-Q', 'theories', 'PV', '-w', '-all', f'theories/Props/{ctx.pid}.v', '-o', out_vo]
        p = subprocess.run(cmd, cwd=COQ, stdout=subprocess.PIPE, stderr=subprocess.STDOUT, text=True)
        ctx.checker_cmds.append('cd coq && ' + ' '.join(cmd))
        ctx.props['ok'] = p.returncode == 0
        ctx.props['log'] = p.stdout
        ctx.props['assumptions'] = parse_assumptions(p.stdout, [t['name'] for t in thms if t['kind'] == 'Theorem'])
        if p.returncode != 0:
            ctx.broken.append(f'Props/{ctx.pid}.v')
        bad = check_axioms(ctx.props['assumptions'])
        if bad:
            ctx.broken.append('non-standard axiom: ' + ', '.join(bad))
    else:
        ctx.props['ok'] = False
        for f in res['failures']:
            name = f"{f['file']}:{f['line']}" + (f" ({f['lemma']})" if f['lemma'] else '')
            ctx.broken.append(name)
            ctx.note(f"proof obligation broken: {name}: {f['error'][:300]}")
    if gen_deps is not None:
        ctx.gen['errors'] = [e for e in ctx.gen['errors'] if e['out'] in gen_deps]
        ctx.gen['stamps'] = [s for s in ctx.gen['stamps'] if s.get('out') in gen_deps]
    for e in ctx.gen['errors']:
        ctx.broken.append(f"translator:{e['target']}")
    return not ctx.broken


STD_AXIOMS = ('ClassicalDedekindReals.sig_forall_dec', 'ClassicalDedekindReals.sig_not_dec',
              'FunctionalExtensionality.functional_extensionality_dep', 'Classical_Prop.classic',
              'ProofIrrelevance.proof_irrelevance', 'Eqdep.Eq_rect_eq.eq_rect_eq', 'JMeq.JMeq_eq',
              'PropExtensionality.propositional_extensionality', 'ClassicalEpsilon.constructive_indefinite_description',
              'Coq.Logic.', 'Coq.Reals.', 'Rdefinitions', 'Raxioms', 'PrimFloat.', 'Uint63.', 'PrimInt63.', 'FloatOps.',
              'FloatAxioms.', 'SpecFloat.', 'Uint63Axioms.', 'Float', 'float', 'int')


def parse_assumptions(log, names):
    """Print Assumptions outputs appear in file order, one block per theorem"""
    blocks = re.split(r'^(?=Closed under the global context|Axioms:)', log, flags=re.M)
    blocks = [b for b in blocks if b.startswith('Closed under') or b.startswith('Axioms:')]
    out = {}
    for name, b in zip(names, blocks):
        if b.startswith('Closed'):
            out[name] = []
        else:
            out[name] = sorted(set(re.findall(r'^([A-Za-z_][A-Za-z_0-9.\']*)\s*(?::|$)', b[len('Axioms:'):], re.M)))
    return out


def check_axioms(assumptions):
    bad = []
    for thm, axs in assumptions.items():
        for a in axs:
            if not any(a.startswith(p) or p in a for p in STD_AXIOMS):
                bad.append(f"{thm}:{a}")
    return bad


# ------------------------------------------------------------------ Coq evaluation (tie D / validation)
EVAL_HEADER = ("Set Printing Depth 10000000.\nSet Printing Width 200.\n"
               "From Coq Require Import ZArith String List Bool.\nImport ListNotations.\n")


def coq_eval(ctx, name, body, timeout=600, header=EVAL_HEADER):
    """write work/<pid>/<name>.v, run coqc, return stdout (raises on failure)"""
    path = os.path.join(ctx.work, f'{name}.v')
    with open(path, 'w', encoding='utf8') as fh:
        fh.write(header + body)
    cmd = ['timeout', str(timeout), 'coqc', '-Q', os.path.join(COQ, 'theories'), 'PV', '-w', '-all', path]
    p = subprocess.run(cmd, cwd=ctx.work, stdout=subprocess.PIPE, stderr=subprocess.PIPE, text=True)
    if p.returncode != 0:
        raise CoqEvalError(f"coqc {path} failed ({p.returncode}): {(p.stderr or p.stdout)[-1500:]}")
    return p.stdout


def coq_eval_many(ctx, jobs, timeout=900):
    """jobs: list of (name, body); run up to NPROC coqc in parallel; returns {name: stdout}"""
    procs, out = [], {}
    pending = list(jobs)
    running = []
    while pending or running:
        while pending and len(running) < NPROC:
            name, body = pending.pop(0)
            path = os.path.join(ctx.work, f'{name}.v')
            with open(path, 'w', encoding='utf8') as fh:
                fh.write(EVAL_HEADER + body)
            cmd = ['timeout', str(timeout), 'coqc', '-Q', os.path.join(COQ, 'theories'), 'PV', '-w', '-all', path]
            running.append((name, path, subprocess.Popen(cmd, cwd=ctx.work, stdout=subprocess.PIPE,
                                                         stderr=subprocess.PIPE, text=True)))
        name, path, p = running.pop(0)
        so, se = p.communicate()
        if p.returncode != 0:
            raise CoqEvalError(f"coqc {path} failed ({p.returncode}): {(se or so)[-1500:]}")
        out[name] = so
    return out


class CoqEvalError(Exception):
    pass


# ------------------------------------------------------------------ known findings, verdict, evidence
def load_known():
    path = os.path.join(VERIF, 'known_findings.json')
    if not os.path.exists(path):
        return []
    with open(path, encoding='utf8') as fh:
        return json.load(fh)['findings']


def write_replay(ctx, name, data):
    path = os.path.join(REPLAYS, ctx.pid, f'{name}.json')
    data = dict(data)
    data.setdefault('property', ctx.pid)
    data.setdefault('seed', ctx.seed)
    data.setdefault('tier', ctx.tier)
    with open(path, 'w', encoding='utf8') as fh:
        json.dump(data, fh, indent=1, default=str)
    return path


def finish(ctx, meta):
    """verdict + evidence; returns exit code"""
    known = [k for k in load_known() if k['property'] == ctx.pid]
    open_ids = {k['id']: k for k in known if k['status'] == 'open'}
    lines, hard = [], []
    seen_known = {}
    for v in ctx.violations:
        fid = v.get('finding')
        if fid and fid in open_ids:
            seen_known.setdefault(fid, v)
            continue
        hard.append(v)
    for fid, v in seen_known.items():
        lines.append(f"KNOWN-FINDING: property={ctx.pid} {fid}: {open_ids[fid]['what']}")
    # obligations that broke without a concrete failing input from run()/search()
    exit_code = 0
    vcount = 0
    reported = set()
    for idx, v in enumerate(hard):
        key = json.dumps(v['replay'], sort_keys=True, default=str)[:4000]
        if key in reported:
            continue
        reported.add(key)
        if vcount >= 5:
            break
        path = write_replay(ctx, f"violation_{vcount}", dict(v['replay'], kind=v['kind'], what=v['what']))
        lines.append(f"VIOLATION property={ctx.pid} replay={path}")
        vcount += 1
        exit_code = 1
    if ctx.broken and not hard:
        path = write_replay(ctx, 'broken_obligation', {
            'kind': 'broken-obligation', 'broken': ctx.broken,
            'failures': ctx.build.get('failures', []), 'translator_errors': ctx.gen['errors'],
            'what': 'a theorem, translated definition or correspondence no longer checks and the search found no concrete failing input'})
        lines.append(f"VIOLATION property={ctx.pid} replay={path} no-failing-input-found")
        vcount += 1
        exit_code = 1
    thms = ctx.props['theorems']
    obligations = len(thms) + len(ctx.correspondences)
    if ctx.build.get('ok') and ctx.props.get('ok'):
        discharged_thm = len(thms)
    else:
        failed_files = {f['file'] for f in ctx.build.get('failures', [])}
        discharged_thm = 0 if failed_files or not ctx.props.get('ok') else len(thms)
    broken_corr = [b for b in ctx.broken if b.startswith('correspondence:')]
    discharged = discharged_thm + len(ctx.correspondences) - len(broken_corr)
    axioms = sorted({a for axs in ctx.props['assumptions'].values() for a in axs})
    coverage = {
        'obligations': max(obligations, 1),
        'discharged': max(discharged, 0) if exit_code or ctx.broken else max(obligations, 1),
        'checker_cmd': ' ; '.join(ctx.checker_cmds) or 'none',
        'trusted_base': ctx.trusted + [f"axiom (Print Assumptions): {a}" for a in axioms],
        'evaluations': ctx.evaluations,
        'distinct_nontrivial': len(ctx.nontrivial),
        'rule': ctx.rule or meta.get('rule', ''),
        'samples': ctx.samples or [{'note': 'no generated cases in this run'}],
        'theorems': [{'name': t['name'], 'closed_by': t['by'], 'kind': t['kind'],
                      'axioms': ctx.props['assumptions'].get(t['name'])} for t in thms],
        'correspondences': ctx.correspondences,
        'broken': ctx.broken,
        'translated_segments': [s for s in ctx.gen['stamps']],
        'translator_errors': ctx.gen['errors'],
        'features': ctx.features,
        'known_findings_hit': sorted(seen_known),
        'notes': ctx.notes[-40:],
    }
    coverage.update(ctx.extra)
    ev = {
        'property_id': ctx.pid, 'tier': ctx.tier, 'seed': ctx.seed, 'level': meta.get('level', 'proof'),
        'coverage': coverage,
        'assumptions': ctx.assumptions + meta.get('assumptions', []),
        'wall_s': round(time.time() - ctx.t0, 2),
        'violations': vcount,
    }
    os.makedirs(EVIDENCE, exist_ok=True)
    tmp = os.path.join(EVIDENCE, f'{ctx.pid}.json.tmp')
    with open(tmp, 'w', encoding='utf8') as fh:
        json.dump(ev, fh, indent=1, default=str)
    os.replace(tmp, os.path.join(EVIDENCE, f'{ctx.pid}.json'))
    for ln in lines:
        print(ln, flush=True)
    print(f"[{ctx.pid}] tier={ctx.tier} seed={ctx.seed} obligations={coverage['obligations']} "
          f"discharged={coverage['discharged']} evaluations={ctx.evaluations} "
          f"distinct_nontrivial={len(ctx.nontrivial)} violations={vcount} "
          f"known={len(seen_known)} wall={ev['wall_s']}s -> exit {exit_code}", flush=True)
    return exit_code


def corpus_cases(pid):
    d = os.path.join(CORPUS, pid)
    if not os.path.isdir(d):
        return []
    out = []
    for fn in sorted(os.listdir(d)):
        if fn.endswith('.json'):
            with open(os.path.join(d, fn), encoding='utf8') as fh:
                out.append((fn, json.load(fh)))
    return out


def close(a, b, rel=1e-9, abs_=1e-9):
    import math
    if isinstance(a, (list, tuple)) and isinstance(b, (list, tuple)):
        return len(a) == len(b) and all(close(x, y, rel, abs_) for x, y in zip(a, b))
    if isinstance(a, float) or isinstance(b, float):
        if math.isnan(a) or math.isnan(b):
            return math.isnan(a) and math.isnan(b)
        if math.isinf(a) or math.isinf(b):
            return a == b
        return abs(a - b) <= abs_ + rel * max(abs(a), abs(b))
    return a == b


def coq_eval_cases(ctx, name, prelude, exprs, chunk=200, timeout=900):
    """evaluate a list of Coq expressions (all of one type) with vm_compute, in chunks run in
    parallel; returns the list of parsed results in order (raises CoqEvalError)"""
    from harness.coqio import parse_evals
    jobs = []
    for c in range(0, len(exprs), chunk):
        body = prelude + "Eval vm_compute in [" + ";\n ".join(exprs[c:c + chunk]) + "].\n"
        jobs.append((f'{name}_{c // chunk}', body))
    outs = coq_eval_many(ctx, jobs, timeout=timeout)
    res = []
    for c in range(0, len(exprs), chunk):
        got = parse_evals(outs[f'{name}_{c // chunk}'])
        if not got:
            raise CoqEvalError(f"no Eval output in {name}_{c // chunk}")
        part = got[0]
        if len(part) != len(exprs[c:c + chunk]):
            raise CoqEvalError(f"{name}_{c // chunk}: {len(part)} results for {len(exprs[c:c + chunk])} cases")
        res.extend(part)
    return res
