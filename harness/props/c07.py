"""C07 -- build-file restraints hold for every residue they select.

Proof: Props/C07.v over the predicates in_sphere / in_cylinder / in_rectangle / is_restricted and
the bound formulas of set_distance_restraint translated from the source (tie T), the guard
skeleton of update_positions, the search-tree branch for cyclic molecules, and the hand-written
model of set_distance_restraint (model/Restraints.v, tie D).
Correspondence: (a) translator validation of every predicate on boundary-biased points (exact
booleans) and of the bound formulas; (b) real set_distance_restraint / checks_milestones on
random trees vs the model; (c) _initialize_cylces on every ring size 3-12 (every root, shuffled
adjacency): the restrained pair is joined by the edge of the ring that the search tree leaves
out; (d) complete gen_coords runs with generated build files: every placement and the final
structure are judged against every declared restraint."""
import itertools
import json
import math

import numpy as np

from harness import core, systems
from harness.coqio import lit, flit, Raw

META = {
    'level': 'proof',
    'technique': 'Coq proof over translated restraint predicates, bound formulas and guard skeleton; Coq proof (induction along the ring) that the depth-first tree of a ring of any size ends at the neighbour of the root across the closing edge; differential correspondence of the distance-restraint and search-tree models; judged gen_coords runs with generated build files',
    'gen_deps': ['Gen_walk', 'Gen_restraints', 'Gen_walk_skel', 'Gen_linalg'],
    'eval_deps': ['theories/gen/Gen_walk_F.vo', 'theories/gen/Gen_restraints_F.vo', 'theories/model/Restraints.vo', 'theories/model/Dfs.vo'],
    'level_text': ("Theorems in Coq (Props/C07.v) over the text regenerated from the source on every run: a point accepted by the "
                   "sphere / cylinder / rectangle predicate satisfies the declared in/out restraint; an accepted growth step lies on "
                   "the reference side of the plane within the reference angle; positions are added only under the geometric, "
                   "milestone and direction tests; for every tree path the restrained residue carries the window "
                   "[d - tol, d + tol + avg] and a position accepted against it lies inside; cyclic molecules are traversed depth "
                   "first, and (C07_ring_search_tree / C07_ring_closing_pair, by induction along the ring, model/Dfs.v) for a ring of EVERY size n >= 3, every "
                   "node labelling, every order of the adjacency lists and every root the depth-first search tree is the path through "
                   "all residues that leaves the root by its first-listed neighbour and ends at its second-listed one, and the pair "
                   "_initialize_cylces restrains (the first molecule edge the search tree leaves out, ends in discovery order; its five "
                   "assignments regenerated from the source) is that closing edge for any listing of the ring's edges; for any molecule "
                   "(ring with ligands or tails) the restrained pair is an edge the tree leaves out; arange samples lie in [step, contour length). The distance-restraint "
                   "model, the milestone test, the depth-first tree model (networkx dfs_tree on random connected graphs and on rings "
                   "3-12 with every root, edge order as list(tree.edges)) and the restrained cycle pair are tied to the code by "
                   "correspondence, and complete gen_coords runs with generated build files (cyclic molecules with additional "
                   "build-file restraints included) are judged restraint by restraint and ring edge by ring edge."),
    'level_note': ("Trusted: Coq kernel, translator/extractors, real-number axioms (Print Assumptions). arccos/degrees enter "
                   "is_restricted as an opaque argument (the angle); networkx dfs_tree/bfs_tree/lowest_common_ancestor are library "
                   "contracts validated by the runs. Several [ rw_restriction ] lines per molecule are outside the generator until "
                   "finding F8 (C18) is decided."),
    'rule': ("kernel cases = points at relative 1e-6 on both sides of every restraint surface plus random ones; model cases = random "
             "trees x (target, ref) pairs x distances; ring cases = every ring size 3-12 x every root x shuffled adjacency; search-tree cases = "
             "random connected graphs of 2-9 residues (trees, rings with tails, several cycles) x random roots; "
             "end-to-end cases = generated topologies x generated build files (all restraint kinds); non-trivial = a case in which "
             "a restraint selects at least one generated residue; distinct by full input"
             "; directed / added families (waves 10-12): -start on restrained residues; rings with tails and cyclic hosts with ligands; restraints between inner residues (near stretched); direction restrictions at the periodic boundary (small boxes, start grid at a face)"),
}


def fvec(p):
    return Raw("(" + ", ".join(flit(float(x)) for x in p) + ")")


MODE = {'in': 'MIn', 'out': 'MOut'}


# ------------------------------------------------------------------ (a) kernels
def kernel_cases(ctx, n):
    import polyply.src.random_walk as rw
    rng = ctx.rng
    exprs, want, desc = [], [], []
    for _ in range(n):
        kind = rng.choice(['sphere', 'cylinder', 'rectangle', 'direction', 'bounds'])
        mode = rng.choice(['in', 'out'])
        c = np.array([rng.uniform(1, 5) for _ in range(3)])
        if kind == 'sphere':
            r = rng.uniform(0.5, 3)
            u = np.array([rng.gauss(0, 1) for _ in range(3)])
            u /= np.linalg.norm(u)
            p = c + u * r * rng.choice([1 - 1e-6, 1 + 1e-6, rng.uniform(0, 2)])
            want.append(bool(rw.in_sphere(p, [mode, c, r, 'sphere'])))
            exprs.append(f"inl (in_sphere {fvec(p)} ({MODE[mode]}, {fvec(c)}, {flit(r)}))")
        elif kind == 'cylinder':
            r, h = rng.uniform(0.5, 3), rng.uniform(0.5, 3)
            ang = rng.uniform(0, 2 * math.pi)
            rad = r * rng.choice([1 - 1e-6, 1 + 1e-6, rng.uniform(0, 2)])
            z = h * rng.choice([1 - 1e-6, 1 + 1e-6, -1 + 1e-6, -1 - 1e-6, rng.uniform(-2, 2)])
            p = c + np.array([rad * math.cos(ang), rad * math.sin(ang), z])
            want.append(bool(rw.in_cylinder(p, [mode, c, r, h, 'cylinder'])))
            exprs.append(f"inl (in_cylinder {fvec(p)} ({MODE[mode]}, {fvec(c)}, {flit(r)}, {flit(h)}))")
        elif kind == 'rectangle':
            abc = [rng.uniform(0.5, 3) for _ in range(3)]
            p = c + np.array([a * rng.choice([1 - 1e-6, 1 + 1e-6, -1 + 1e-6, rng.uniform(-2, 2)]) for a in abc])
            want.append(bool(rw.in_rectangle(p, [mode, c] + abc + ['rectangle'])))
            exprs.append(f"inl (in_rectangle {fvec(p)} ({MODE[mode]}, {fvec(c)}, {flit(abc[0])}, {flit(abc[1])}, {flit(abc[2])}))")
        elif kind == 'direction':
            from polyply.src.linalg_functions import _vector_angle_degrees
            normal = np.array([rng.gauss(0, 1) for _ in range(3)])
            ref = rng.choice([-1, 1]) * rng.uniform(5, 175)
            old = c
            p = old + np.array([rng.gauss(0, 1) for _ in range(3)])
            ang = float(_vector_angle_degrees(normal, p - old))
            if rng.random() < 0.3:
                ref = math.copysign(ang * rng.choice([1 - 1e-9, 1 + 1e-9]), ref)
            want.append(bool(rw.is_restricted(p, old, {'rw_options': [[normal, ref]]})))
            exprs.append(f"inl (is_restricted_tail {fvec(p)} {fvec(old)} {fvec(normal)} {flit(ref)} {flit(ang)})")
        else:
            gd, avg, d, tol, g, i = (float(rng.randint(1, 9)), rng.uniform(0.2, 0.8), rng.uniform(0.5, 6), rng.choice([0.0, 0.1, 0.35]),
                                     float(rng.randint(1, 9)), float(rng.randint(1, 9)))
            ub = gd * avg + d + tol
            lb = d / g * i - tol
            want.append((ub, lb))
            exprs.append(f"inr (upper_bound {flit(gd)} {flit(avg)} {flit(d)} {flit(tol)}, "
                         f"lower_bound (avg_needed_step_length {flit(d)} {flit(g)}) {flit(tol)} {flit(i)})")
        desc.append(kind)
    pre = ("From Coq Require Import PrimFloat.\nFrom PV Require Import FNum Mode Tproj Gen_linalg_F Gen_walk_F Gen_restraints_F.\n"
           "Open Scope float_scope.\nDefinition R := (bool + (float * float))%type.\nDefinition id (x : R) := x.\n")
    exprs = [f"id ({e})" for e in exprs]
    got = core.coq_eval_cases(ctx, 'kern', pre, exprs, chunk=400)
    mism = 0
    for k, w, g in zip(desc, want, got):
        val = g[1]
        ok = (val == w) if isinstance(w, bool) else core.close(list(val), list(w), 1e-12, 1e-12)
        ctx.feature('kernel_' + k)
        if not ok:
            mism += 1
            if mism <= 3:
                ctx.note(f"translator validation ({k}): model {val} != impl {w}")
    ctx.extra['translator_validation'] = {'cases': n, 'mismatches': mism}
    if mism:
        ctx.broken.append('correspondence:translator-validation restraint predicates')


# ------------------------------------------------------------------ (b) distance-restraint model
def gen_tree(rng):
    n = rng.randint(2, 9)
    keys = rng.sample(range(0, 3 * n), n) if rng.random() < 0.5 else list(range(n))
    edges = [(keys[rng.randrange(i)] if rng.random() < 0.5 else keys[i - 1], keys[i]) for i in range(1, n)]
    return keys, edges


def restraint_case(rng):
    import networkx as nx
    from polyply import MetaMolecule
    from polyply.src.restraints import set_distance_restraint
    keys, edges = gen_tree(rng)
    g = nx.Graph()
    for k in keys:
        g.add_node(k, resname='A', resid=k + 1)
    g.add_edges_from(edges)
    meta = MetaMolecule(g)
    meta.dfs = rng.random() < 0.5
    meta.root = rng.choice(keys)
    tree = [(int(a), int(b)) for a, b in meta.search_tree.edges]
    # one to three restraints on the same molecule: entries accumulate per residue
    specs = []
    out = []
    avg = rng.uniform(0.2, 0.8)
    failed = False
    for _ in range(rng.choice([1, 1, 2, 3])):
        t, r = rng.sample(keys, 2)
        d, tol = rng.uniform(0.3, 5), rng.choice([0.0, 0.1, 0.4])
        specs.append((t, r, d, tol))
        try:
            set_distance_restraint(meta, t, r, d, avg, tol)
        except (OSError, KeyError):   # the message template of the OSError itself raises KeyError(' ')
            failed = True
            break
    if failed:
        out = 'OSError'
    else:
        out = sorted((int(n), int(e[0]), float(e[1]), float(e[2])) for n in meta.nodes
                     for e in meta.nodes[n].get('distance_restraints', []))
    expr = "[" + "; ".join(
        f"show (set_distance_restraint of_nat 1%float upper_bound avg_needed_step_length lower_bound {lit(tree)} {lit(t)} {lit(r)} "
        f"{flit(avg)} {flit(d)} {flit(tol)})" for t, r, d, tol in specs) + "]"
    return {'tree': tree, 'specs': specs, 'avg': avg}, out, expr


RESTR_PRELUDE = """From Coq Require Import PrimFloat Uint63.
From PV Require Import FNum Tproj Restraints Gen_restraints_F.
Open Scope Z_scope.
Definition of_nat (n : nat) : float := PrimFloat.of_uint63 (Uint63.of_Z (Z.of_nat n)).
Definition show (r : option (list (Z * (Z * float * float)))) := r.
"""


def milestone_cases(ctx, n):
    """real checks_milestones vs milestone_ok (model) on boundary-biased distances"""
    import polyply.src.random_walk as rw
    import networkx as nx
    rng = ctx.rng
    mism = 0
    for _ in range(n):
        ub, lb = rng.uniform(1, 3), rng.uniform(0, 1)
        dist = rng.choice([ub * (1 - 1e-9), ub * (1 + 1e-9), lb * (1 - 1e-9), lb * (1 + 1e-9), rng.uniform(0, 4)])

        class Eng:
            def get_point(self, m, n):
                return np.zeros(3)

            def pbc_min_dist(self, a, b):
                return dist
        w = rw.RandomWalk(0, Eng())
        g = nx.Graph()
        g.add_node(0, distance_restraints=[(1, ub, lb)])
        w.molecule = g
        impl = bool(w.checks_milestones(0, np.zeros(3)))
        model = (not dist > ub) and (not dist < lb)
        in_window = lb <= dist <= ub
        if impl != model or impl != in_window:
            mism += 1
            ctx.violation('spec', f"checks_milestones accepted={impl} for distance {dist} with window [{lb}, {ub}]",
                          {'milestone': True, 'dist': dist, 'ub': ub, 'lb': lb, 'observed': impl})
    ctx.extra['milestone_cases'] = {'cases': n, 'mismatches': mism}


# ------------------------------------------------------------------ (c) rings
def ring_cases(ctx):
    import networkx as nx
    from polyply import MetaMolecule
    import polyply.src.gen_coords as gc
    from collections import defaultdict
    rng = ctx.rng
    count = 0
    dfs_exprs, dfs_impl = [], []

    def dfs_case(meta, nnodes):
        """model/Dfs.v on the implementation's own adjacency lists vs the real search tree"""
        tbl = '[' + '; '.join(f"({lit(int(v))}, {lit([int(u) for u in meta[v]])})" for v in meta.nodes) + ']'
        root = meta.root if meta.root is not None else list(meta.nodes)[0]
        medges = [(int(a), int(b)) for a, b in meta.edges]
        dfs_exprs.append(f"(tree_edges (adj_of {tbl}) {nnodes}%nat {lit(int(root))}, closing_pair (adj_of {tbl}) {lit(medges)} {nnodes}%nat {lit(int(root))})")
        te = [(int(a), int(b)) for a, b in meta.search_tree.edges]
        dfs_impl.append((te, None))
    # depth-first trees of arbitrary connected residue graphs (trees, rings with tails, several cycles)
    for _ in range(ctx.n(40, 400)):
        n = rng.randint(2, 9)
        keys = rng.sample(range(0, 3 * n), n)
        edges = [(keys[rng.randrange(i)], keys[i]) for i in range(1, n)]
        for _ in range(rng.choice([0, 0, 1, 2])):
            a, b = rng.sample(keys, 2)
            if (a, b) not in edges and (b, a) not in edges:
                edges.append((a, b))
        rng.shuffle(edges)
        g = nx.Graph()
        for k in rng.sample(keys, n):
            g.add_node(k, resname='A', resid=k + 1)
        g.add_edges_from(edges)
        meta = MetaMolecule(g)
        meta.dfs = True
        meta.root = rng.choice(keys)
        dfs_case(meta, n)
        if len(edges) <= n:
            # a tree, or one ring with tails / pendant residues: the pair the real _initialize_cylces restrains
            meta.mol_name = 'ring'

            class TopG:
                molecules = [meta]
                mol_idx_by_name = {'ring': [0]}
                distance_restraints = defaultdict(dict)
            gc._initialize_cylces(TopG, ['ring'], 0.0)
            pairs = list(TopG.distance_restraints[('ring', 0)])
            dfs_impl[-1] = (dfs_impl[-1][0], tuple(int(x) for x in pairs[0]) if pairs else None)
            if len(edges) == n:
                ctx.feature('ring_with_tails_pairs')
                left_out = {frozenset(e) for e in edges} - {frozenset(e) for e in meta.search_tree.edges}
                if len(pairs) != 1 or frozenset(pairs[0]) not in left_out:
                    ctx.violation('spec', f"ring with tails ({n} residues, root {meta.root}): restrained pair {pairs[0] if pairs else None} is not the "
                                  f"edge the search tree leaves out {sorted(map(sorted, left_out))}",
                                  {'ring_with_tails': sorted(map(list, edges)), 'root': meta.root, 'nodes': list(meta.nodes)})
        ctx.case(('dfs', tuple(meta.nodes), tuple(edges), meta.root), nontrivial=len(edges) >= n)
    for n in range(3, 13):
        for root_pos in range(n):
            for rep in range(ctx.n(1, 4)):
                keys = list(range(n))
                if rep:
                    keys = rng.sample(range(0, 3 * n), n)
                edges = [(keys[i], keys[(i + 1) % n]) for i in range(n)]
                rng.shuffle(edges)
                g = nx.Graph()
                order = keys[root_pos:] + keys[:root_pos]
                for k in order:
                    g.add_node(k, resname='A', resid=k + 1)
                g.add_edges_from(edges)
                meta = MetaMolecule(g)
                meta.mol_name = 'ring'

                class Top:
                    molecules = [meta]
                    mol_idx_by_name = {'ring': [0]}
                    distance_restraints = defaultdict(dict)
                Top.distance_restraints = defaultdict(dict)
                gc._initialize_cylces(Top, ['ring'], 0.0)
                pairs = list(Top.distance_restraints[('ring', 0)].items())
                count += 1
                dfs_case(meta, n)
                dfs_impl[-1] = (dfs_impl[-1][0], tuple(int(x) for x in pairs[0][0]) if pairs else None)
                tree_edges = {frozenset(e) for e in meta.search_tree.edges}
                ring_edges = {frozenset(e) for e in edges}
                closing = ring_edges - tree_edges
                ok = len(pairs) == 1 and frozenset(pairs[0][0]) in closing and pairs[0][1] == (0.0, 0.0)
                ctx.case(('ring', n, root_pos, rep), nontrivial=True)
                if not ok:
                    ctx.violation('spec', f"ring of {n} residues rooted at {order[0]}: restrained pair {pairs[0][0] if pairs else None} "
                                  f"is not joined by the closing edge {sorted(map(sorted, closing))}",
                                  {'ring': n, 'order': order, 'edges': edges, 'restrained': [list(p[0]) for p in pairs],
                                   'closing': sorted(map(sorted, closing))})
    ctx.extra['ring_cases'] = {'cases': count, 'sizes': '3..12', 'exhaustive_over_roots': True}
    try:
        res = core.coq_eval_cases(ctx, 'dfs', "From PV Require Import Dfs.\nOpen Scope Z_scope.\n", dfs_exprs, chunk=120)
    except core.CoqEvalError as exc:
        ctx.note(str(exc)[:800])
        ctx.broken.append('correspondence:search tree vs model/Dfs.v (evaluation failed)')
        return
    mism = 0
    for (te, pair), r in zip(dfs_impl, res):
        mte = [tuple(e) for e in r[0]]
        from harness.coqio import unsome
        mpair = unsome(r[1])
        mpair = None if mpair is None else tuple(mpair)
        if mte != te or (pair is not None and mpair != tuple(pair)):
            mism += 1
            if mism <= 3:
                ctx.note(f"correspondence (dfs): model edges {mte} pair {mpair} != search tree {te} pair {pair}")
    ctx.extra['dfs_correspondence'] = {'cases': len(dfs_impl), 'mismatches': mism}
    if mism:
        ctx.broken.append('correspondence:depth-first search tree / restrained cycle pair vs model/Dfs.v')


# ------------------------------------------------------------------ (d) end-to-end with build files
def gen_cyclic_host_case(rng):
    """a ring declared cyclic that hosts a ligand (an extra residue hangs on the ring while it is built), on any residue --
    also the one the search tree reaches last: the ring is still closed between the residues its closing edge joins"""
    host = systems.gen_moltype(rng, 'MA', nres=rng.randint(4, 7), shape='ring')
    lig = systems.gen_moltype(rng, 'LIG', nres=1, resnames=['LG'])
    r = rng.choice([host['nres'], host['nres'] - 1, rng.randint(1, host['nres'])])
    box = [round(rng.uniform(6, 8), 2) for _ in range(3)]
    return {'moltypes': [host, lig], 'molecules': [('MA', 1), ('LIG', 1)], 'box': box, 'build': '[ molecule ]\nMA 0 1\n', 'decl': [],
            'cycles': ['MA'], 'seed': rng.randrange(10 ** 6), 'start': [], 'ligands': [[f"MA#0-{host['resnames'][r - 1]}#{r}", 'LIG#1']]}


def gen_boundary_direction_case(rng):
    """a chain that starts right above the lower face of the box (start grid given) and must grow upwards: trial steps
    downwards cross the periodic boundary, and the direction of growth is that of the step, not of the wrapped coordinates"""
    mt = systems.gen_moltype(rng, 'MA', nres=rng.randint(4, 6), shape='path', resnames=['RA'] * 6)
    L = round(rng.uniform(2.8, 3.2), 2)
    axis = rng.randrange(3)
    nrm = [0.0, 0.0, 0.0]
    nrm[axis] = rng.choice([1.0, 2.0, 0.5])
    ang = rng.choice([45.0, 60.0, 75.0])
    pts = []
    for u in (0.5, 1.5, 2.5):
        for v in (0.5, 1.5, 2.5):
            p = [u, v]
            p.insert(axis, 0.04)
            pts.append(p)
    lines = ['[ molecule ]', 'MA 0 1', '[ rw_restriction ]', f'RA 1 {mt["nres"] + 1} {nrm[0]} {nrm[1]} {nrm[2]} {ang}']
    return {'moltypes': [mt], 'molecules': [('MA', 1)], 'box': [L, L, L], 'build': '\n'.join(lines) + '\n',
            'decl': [{'kind': 'rw', 'resname': 'RA', 'start': 1, 'stop': mt['nres'] + 1, 'normal': nrm, 'angle': ang, 'mols': [0, 1]}],
            'cycles': [], 'seed': rng.randrange(10 ** 6), 'start': [], 'grid': '\n'.join(' '.join(str(x) for x in p) for p in pts) + '\n'}


def gen_inner_restraint_case(rng, d=0.5, tol=5.0, ab=None, seed=None):
    """a distance restraint between two INNER residues of a chain of equal residues (the reference is not where the walk
    starts); with d close to the stretched length of the segment many trial steps fail and the walk steps back over the
    reference residue"""
    mt = systems.gen_moltype(rng, 'MA', nres=14, shape='path', resnames=['RA'] * 14)
    for a in mt['atoms']:
        a['atype'], a['mass'] = mt['atoms'][0]['atype'], mt['atoms'][0]['mass']
    a0 = rng.randint(3, 7) if ab is None else ab[0]
    b0 = a0 + 3
    box = [8.0, 8.0, 8.0]
    lines = ['[ molecule ]', 'MA 0 1', '[ distance_restraints ]', f'{a0} {b0} {d} {tol}']
    return {'moltypes': [mt], 'molecules': [('MA', 1)], 'box': box, 'build': '\n'.join(lines) + '\n',
            'decl': [{'kind': 'dist', 'a': a0, 'b': b0, 'd': d, 'tol': tol, 'mols': [0, 1]}], 'cycles': [],
            'seed': rng.randrange(10 ** 6) if seed is None else seed, 'start': [], 'inner': True}


def inner_restraint_cases(ctx, n):
    rng = ctx.rng
    probe = gen_inner_restraint_case(rng)
    rec = run_build_case(probe, timeout=30)
    if not rec['ok'] or 'avg' not in rec:
        ctx.note(f"inner-restraint probe did not finish: {rec.get('exc')}")
        return
    d = round(2.98 * rec['avg'], 4)
    for _ in range(n):
        case = gen_inner_restraint_case(rng, d=d, tol=0.003)
        case['moltypes'] = probe['moltypes']
        r = run_build_case(case, timeout=30)
        ctx.case(('inner_restraint', case['build'], case['seed']), nontrivial=r['ok'], sample={'build': case['build']})
        ctx.feature('e2e_near_stretched_restraint_between_inner_residues_' + ('ok' if r['ok'] else 'failed'))
        for b in r['bad'][:1]:
            ctx.violation('spec', f"C07 fails on the implementation: {b}", {'case': case, 'failure': b})


def gen_build_case(rng, ring_with_restraint=False, rw_nonunit=False):
    mts = [systems.gen_moltype(rng, 'MA', nres=rng.randint(5, 9) if ring_with_restraint else rng.randint(3, 7),
                               shape='ring' if ring_with_restraint else rng.choice(['path', 'path', 'tree', 'ring']))]
    if rw_nonunit:
        mts = [systems.gen_moltype(rng, 'MA', nres=rng.randint(6, 8), shape='path', resnames=['RA'] * 8)]
    if rng.random() < 0.5:
        mts.append(systems.gen_moltype(rng, 'MB', nres=rng.randint(2, 5), shape='path'))
    mols = [('MA', rng.randint(1, 2))] + ([('MB', rng.randint(1, 2))] if len(mts) > 1 else [])
    box = [round(rng.uniform(7, 9), 2) for _ in range(3)]
    if rw_nonunit and rng.random() < 0.7:
        # a box the chain does not fit in along the restricted direction: growth steps cross the periodic boundary
        box = [round(rng.uniform(2.6, 3.4), 2) for _ in range(3)]
    lines, decl = [], []
    nmol = sum(n for _, n in mols)
    mt = mts[0]
    lo = 0
    hi = rng.randint(1, mols[0][1])
    lines += ['[ molecule ]', f'MA {lo} {hi}']
    cyc = mt['shape'] == 'ring' and (ring_with_restraint or rng.random() < 0.7)
    kinds = rng.sample(['sphere', 'cylinder', 'rectangle', 'rw', 'dist'], rng.randint(1, 3))
    if cyc and (ring_with_restraint or rng.random() < 0.6) and 'dist' not in kinds:
        kinds = ['dist'] + kinds[:1]
    if cyc:
        kinds = [k for k in kinds if k != 'rw'] or ['dist']      # a ring cannot close while every step keeps one direction
    if ring_with_restraint:
        kinds = ['dist']
    if rw_nonunit:
        kinds = ['rw']
    c = [b / 2 for b in box]
    for kind in kinds:
        resname = rng.choice(['RA', 'RB'])
        start = rng.randint(1, 3)
        stop = rng.randint(start + 1, mt['nres'] + 2)
        if rw_nonunit:
            resname, start, stop = 'RA', 2, mt['nres'] + 1
        mode = rng.choice(['in', 'in', 'out'])
        if kind == 'sphere':
            r = rng.uniform(2.0, 3.0) if mode == 'in' else rng.uniform(0.5, 1.5)
            lines += ['[ sphere ]', f'{resname} {start} {stop} {mode} {c[0]} {c[1]} {c[2]} {r:.3f}']
            decl.append({'kind': 'sphere', 'resname': resname, 'start': start, 'stop': stop, 'mode': mode, 'c': c, 'p': [round(r, 3)], 'mols': [lo, hi]})
        elif kind == 'cylinder':
            r, h = (rng.uniform(2.0, 3.0), rng.uniform(2.0, 3.0)) if mode == 'in' else (rng.uniform(0.5, 1.2), rng.uniform(0.5, 1.2))
            lines += ['[ cylinder ]', f'{resname} {start} {stop} {mode} {c[0]} {c[1]} {c[2]} {r:.3f} {h:.3f}']
            decl.append({'kind': 'cylinder', 'resname': resname, 'start': start, 'stop': stop, 'mode': mode, 'c': c, 'p': [round(r, 3), round(h, 3)], 'mols': [lo, hi]})
        elif kind == 'rectangle':
            abc = [rng.uniform(2.0, 3.0) for _ in range(3)] if mode == 'in' else [rng.uniform(0.5, 1.2) for _ in range(3)]
            lines += ['[ rectangle ]', f'{resname} {start} {stop} {mode} {c[0]} {c[1]} {c[2]} ' + ' '.join(f'{a:.3f}' for a in abc)]
            decl.append({'kind': 'rectangle', 'resname': resname, 'start': start, 'stop': stop, 'mode': mode, 'c': c, 'p': [round(a, 3) for a in abc], 'mols': [lo, hi]})
        elif kind == 'rw':
            nrm = [0.0, 0.0, 1.0] if rng.random() < 0.5 else [1.0, 0.0, 0.0]
            ang = rng.choice([90.0, -120.0, 120.0, 60.0])      # a negative angle below 90 degrees can never be met
            if rw_nonunit or rng.random() < 0.3:
                # the normal as a user writes it: any length (the declared angle is measured against its direction)
                nrm = rng.choice([[1.0, 1.0, 0.0], [0.0, 0.0, 2.0], [1.0, 1.0, 1.0], [0.0, 3.0, 0.0], [0.5, 0.0, 0.0]])
                ang = rng.choice([30.0, 45.0, 60.0])
            lines += ['[ rw_restriction ]', f'{resname} {start} {stop} {nrm[0]} {nrm[1]} {nrm[2]} {ang}']
            decl.append({'kind': 'rw', 'resname': resname, 'start': start, 'stop': stop, 'normal': nrm, 'angle': ang, 'mols': [lo, hi]})
        elif kind == 'dist' and (cyc or (mt['shape'] == 'path' and not cyc)):
            # on a molecule declared cyclic the restraint is given in addition to the ring closure (depth-first chain from residue 0)
            a, b = 0, (rng.randint(1, mt['nres'] - 2) if cyc else mt['nres'] - 1)
            d = round(rng.uniform(0.4, max(0.45, 0.3 * (min(b, mt['nres'] - b) if cyc else b))), 3)
            tol = rng.choice([0.0, 0.1])
            if cyc:
                # together with the ring closure: keep the pair restraint loose enough for the walk to meet both
                d, tol = round(rng.uniform(0.4, 0.5), 3), 0.15
            lines += ['[ distance_restraints ]', f'{a} {b} {d} {tol}']
            decl.append({'kind': 'dist', 'a': a, 'b': b, 'd': d, 'tol': tol, 'mols': [lo, hi]})
    # -start on a residue that carries a geometric restraint (by molecule name only, or with the molecule index): the walk
    # begins there, and the start position is a generated residue position like every other
    start_spec = []
    geo = [d for d in decl if d['kind'] in ('sphere', 'cylinder', 'rectangle')]
    if geo and not cyc and rng.random() < 0.6:
        d = rng.choice(geo)
        cand = [r for r in range(d['start'], d['stop']) if 2 <= r <= mt['nres'] and mt['resnames'][r - 1] == d['resname']]
        if cand:
            r = rng.choice(cand)
            start_spec = [f"MA-{d['resname']}#{r}" if rng.random() < 0.6 else f"MA#0-{d['resname']}#{r}"]
    return {'moltypes': mts, 'molecules': mols, 'box': box, 'build': '\n'.join(lines) + '\n', 'decl': decl,
            'cycles': ['MA'] if cyc else [], 'seed': rng.randrange(10 ** 6), 'start': start_spec}


def geom_ok(d, p):
    diff = np.array(d['c']) - np.array(p)
    if d['kind'] == 'sphere':
        r = np.linalg.norm(diff)
        return r <= d['p'][0] + 1e-9 if d['mode'] == 'in' else r >= d['p'][0] - 1e-9
    if d['kind'] == 'cylinder':
        rad, dz = np.linalg.norm(diff[:2]), abs(diff[2])
        inside = rad < d['p'][0] and dz < d['p'][1]
        return inside if d['mode'] == 'in' else not (rad <= d['p'][0] - 1e-9 and dz <= d['p'][1] - 1e-9)
    inside = all(abs(x) < a for x, a in zip(diff, d['p']))
    return inside if d['mode'] == 'in' else not inside


def run_build_case(case, timeout=60):
    rec = {'bad': [], 'selected': 0, 'placements': 0}
    ctxs = {}
    box = np.array(case['box'])

    def selected(d, mol_idx, attrs):
        return d['mols'][0] <= mol_idx < d['mols'][1] and attrs['resname'] == d.get('resname') and d['start'] <= attrs['resid'] < d['stop']

    def wrap_update(real):
        def update(self, vector_bundle, current_node, prev_node):
            ctxs['cur'] = (self, prev_node, current_node, self.nonbond_matrix.get_point(self.mol_idx, prev_node).copy())
            try:
                return real(self, vector_bundle, current_node, prev_node)
            finally:
                ctxs.pop('cur', None)
        return update

    def wrap_run_molecule(real):
        def run_molecule(self, meta_molecule):
            ctxs['walker'] = self
            self.molecule = meta_molecule
            return real(self, meta_molecule)
        return run_molecule

    def wrap_add(real):
        def add_positions(self, point, mol_idx, node_key, start=True):
            walker = ctxs.get('walker')
            if walker is not None and walker.mol_idx == mol_idx:
                rec['placements'] += 1
                attrs = walker.molecule.nodes[node_key]
                if case['molecules'][0][0] == walker.molecule.mol_name:
                    for d in case['decl']:
                        if d['kind'] in ('sphere', 'cylinder', 'rectangle') and selected(d, mol_idx, attrs):
                            rec['selected'] += 1
                            if not geom_ok(d, point):
                                rec['bad'].append(f"residue {attrs['resid']} {attrs['resname']} of molecule {mol_idx} placed at "
                                                  f"{np.array(point).tolist()} violates {d['kind']} {d['mode']} {d['c']} {d['p']}")
                        if d['kind'] == 'rw' and selected(d, mol_idx, attrs) and 'cur' in ctxs and not start:
                            rec['selected'] += 1
                            # the growth step is the displacement from the previous residue under the minimum-image convention
                            # (the new point is wrapped into the box)
                            step = np.array(point) - ctxs['cur'][3]
                            step = step - np.array(self.boxsize) * np.round(step / np.array(self.boxsize))
                            nrm = np.array(d['normal'])
                            cosang = np.dot(nrm, step) / (np.linalg.norm(nrm) * np.linalg.norm(step))
                            ang = math.degrees(math.acos(max(-1, min(1, cosang))))
                            if np.sign(np.dot(nrm, step)) != np.sign(d['angle']) or ang > abs(d['angle']) + 1e-7:
                                rec['bad'].append(f"residue {attrs['resid']} of molecule {mol_idx}: growth step {step.tolist()} makes angle {ang:.3f} "
                                                  f"with normal {d['normal']}, restriction is {d['angle']}")
            return real(self, point, mol_idx, node_key, start=start)
        return add_positions

    def wrap_run_system(real):
        def run_system(self, molecules):
            out = real(self, molecules)
            eng = self.nonbond_matrix
            for d in case['decl']:
                if d['kind'] != 'dist':
                    continue
                for mol_idx in range(d['mols'][0], d['mols'][1]):
                    mol = self.topology.molecules[mol_idx]
                    pa, pb = mol.nodes[d['a']]['position'], mol.nodes[d['b']]['position']
                    dist = eng.pbc_min_dist(np.array(pa), np.array(pb))
                    edges = list(mol.search_tree.edges)
                    avg = sum(eng.get_interaction(mol_idx, mol_idx, a, b)[0] for a, b in edges) / len(edges)
                    rec['selected'] += 1
                    rec.setdefault('avg', float(avg))
                    if not (d['d'] - d['tol'] - 1e-7 <= dist <= d['d'] + d['tol'] + avg + 1e-7):
                        rec['bad'].append(f"distance restraint {d['a']}-{d['b']} of molecule {mol_idx}: distance {dist:.4f} outside "
                                          f"[{d['d'] - d['tol']:.4f}, {d['d'] + d['tol'] + avg:.4f}]")
            if case['cycles']:
                for mol_idx, mol in enumerate(self.topology.molecules):
                    if mol.mol_name == 'MA':
                        restr = self.topology.distance_restraints.get(('MA', mol_idx), {})
                        for (a, b), (dd, tol) in restr.items():
                            edges = list(mol.search_tree.edges)
                            avg = sum(eng.get_interaction(mol_idx, mol_idx, x, y)[0] for x, y in edges) / len(edges)
                            dist = eng.pbc_min_dist(np.array(mol.nodes[a]['position']), np.array(mol.nodes[b]['position']))
                            rec['selected'] += 1
                            declared = any(d['kind'] == 'dist' and {d['a'], d['b']} == {a, b} for d in case['decl'])
                            if not declared:
                                rec['cycle_pairs'] = rec.get('cycle_pairs', 0) + 1
                            if not declared and not mol.has_edge(a, b):
                                rec['bad'].append(f"cyclic molecule {mol_idx}: restrained pair ({a},{b}) is not joined by an edge")
                            if not (dd - tol - 1e-7 <= dist <= dd + tol + avg + 1e-7):
                                rec['bad'].append(f"cyclic molecule {mol_idx}: distance {dist:.4f} of the restrained pair ({a},{b}) outside "
                                                  f"[{dd - tol:.4f}, {dd + tol + avg:.4f}]")
                        # every edge of the ring is realised: the residues it joins end within one step (+ tolerance window)
                        for x, y in mol.edges:
                            dist = eng.pbc_min_dist(np.array(mol.nodes[x]['position']), np.array(mol.nodes[y]['position']))
                            step = eng.get_interaction(mol_idx, mol_idx, x, y)[0]
                            edges = list(mol.search_tree.edges)
                            avg = sum(eng.get_interaction(mol_idx, mol_idx, u, v)[0] for u, v in edges) / len(edges)
                            if dist > max(step, avg) + 1e-6 and dist > avg + 1e-6:
                                rec['bad'].append(f"cyclic molecule {mol_idx}: ring edge ({x},{y}) is left open: its residues are {dist:.4f} apart "
                                                  f"(one step is {step:.4f}, closing window [0, {avg:.4f}])")
                                break
            return out
        return run_system

    hooks = {'polyply.src.random_walk:RandomWalk.update_positions': wrap_update,
             'polyply.src.nonbond_engine:NonBondEngine.add_positions': wrap_add,
             'polyply.src.random_walk:RandomWalk.run_molecule': wrap_run_molecule,
             'polyply.src.build_system:BuildSystem.run_system': wrap_run_system}
    top = systems.top_text(case['moltypes'], case['molecules'])
    with systems.Workdir() as wd:
        extra = {'grid': 'grid.dat'} if case.get('grid') else {}
        res = systems.run_gen_coords(wd, top, seed=case['seed'], hooks=hooks, files=dict({'opts.bld': case['build']}, **({'grid.dat': case['grid']} if case.get('grid') else {})),
                                     build=['opts.bld'], **extra, box=box, cycles=case['cycles'], cycle_tol=0.0, maxiter=200,
                                     start=list(case.get('start') or []), ligands=[list(x) for x in case.get('ligands') or []], timeout=timeout)
    rec['ok'] = res['ok']
    rec['exc'] = None if res['ok'] else f"{res['exc_type']}: {res['exception']}"
    return rec


def run(ctx):
    ctx.correspondences += ['translator validation of in_sphere / in_cylinder / in_rectangle / is_restricted / bound formulas (exact)',
                            'set_distance_restraint on random trees vs model/Restraints.v',
                            'checks_milestones vs the window test',
                            '_initialize_cylces on rings 3-12, every root: restrained pair = closing edge',
                            'gen_coords runs with generated build files judged restraint by restraint',
                            'single real update_positions calls next to a box face (volumes reaching the face, steps crossing it): stored position judged']
    face_cases(ctx, ctx.n(60, 400))
    try:
        kernel_cases(ctx, ctx.n(600, 6000))
        cases = [restraint_case(ctx.rng) for _ in range(ctx.n(300, 3000))]
        res = core.coq_eval_cases(ctx, 'restr', RESTR_PRELUDE, [c[2] for c in cases], chunk=300)
        mism = 0
        for (inp, out, _), rs in zip(cases, res):
            if any(r is None for r in rs):
                model = 'OSError'
            else:
                model = sorted((int(x[0]), int(x[1][0]), float(x[1][1]), float(x[1][2])) for r in rs for x in r[1])
            same = (model == out) if isinstance(out, str) or isinstance(model, str) else (
                len(model) == len(out) and all(a[:2] == b[:2] and core.close(list(a[2:]), list(b[2:]), 1e-12, 1e-12) for a, b in zip(model, out)))
            ctx.case(json.dumps(inp, sort_keys=True), nontrivial=not isinstance(out, str) and len(out) >= 2,
                     sample={'tree': inp['tree'], 'restraints': inp['specs'], 'entries': out if isinstance(out, str) else out[:3]})
            ctx.feature('restraint_' + ('error' if isinstance(out, str) else f"ok_{len(inp['specs'])}"))
            if not same:
                mism += 1
                if mism <= 3:
                    ctx.note(f"correspondence(set_distance_restraint): model {str(model)[:200]} != impl {str(out)[:200]} for {inp}")
                    ctx.extra.setdefault('disagreements', []).append({'input': inp, 'model': model, 'impl': out})
            # judge the implementation: every restrained end carries its window [d - tol, d + tol + avg]
            if not isinstance(out, str):
                for t, r, d, tol in inp['specs']:
                    tgt = [e for e in out if abs(e[2] - (d + tol + inp['avg'])) < 1e-9 and abs(e[3] - (d - tol)) < 1e-9
                           and {e[0], e[1]} == {t, r}]
                    if not tgt:
                        ctx.violation('spec', f"after set_distance_restraint the pair ({t},{r}) carries no window [d - tol, d + tol + avg] "
                                      f"= [{d - tol:.4f}, {d + tol + inp['avg']:.4f}]: entries {out}",
                                      {'restraint_case': inp, 'entries': out})
                        break
        ctx.extra['restraint_model'] = {'cases': len(cases), 'mismatches': mism}
        if mism:
            ctx.broken.append('correspondence:set_distance_restraint vs model/Restraints.v')
    except core.CoqEvalError as exc:
        ctx.note(str(exc)[:800])
        ctx.broken.append('correspondence:C07 model evaluation failed')
    milestone_cases(ctx, ctx.n(300, 3000))
    persistence_cases(ctx, ctx.n(10, 50))
    inner_restraint_cases(ctx, ctx.n(8, 40))
    ring_cases(ctx)
    bcases = [c for _, c in core.corpus_cases('C07')]
    # a molecule declared cyclic that also carries a build-file distance restraint: always exercised
    bcases += [gen_boundary_direction_case(ctx.rng) for _ in range(ctx.n(4, 24))]
    bcases += [gen_cyclic_host_case(ctx.rng) for _ in range(ctx.n(3, 20))]
    bcases += [gen_build_case(ctx.rng, ring_with_restraint=True) for _ in range(ctx.n(3, 20))]
    bcases[len(bcases) - 2:len(bcases) - 2] = [gen_build_case(ctx.rng, rw_nonunit=True) for _ in range(ctx.n(5, 20))]
    bcases += [gen_build_case(ctx.rng) for _ in range(ctx.n(12, 120))]
    if ctx.broken:
        bcases = bcases[:12] + [c for c in bcases[12:] if c.get('start')][:8]
    timeouts = 0
    for case in bcases:
        if timeouts >= 2:
            break
        rec = run_build_case(case, timeout=15 if ctx.broken else 30)
        if not rec['ok']:
            if 'RunTimeout' in (rec['exc'] or ''):
                timeouts += 1
            ctx.note(f"gen_coords with build file did not finish: {rec['exc']} -- build file: {case['build']!r} cycles {case['cycles']} "
                     f"shape {case['moltypes'][0]['shape']} nres {case['moltypes'][0]['nres']} molecules {case['molecules']}")
        ctx.feature('e2e_ok' if rec['ok'] else 'e2e_failed')
        if case.get('ligands'):
            ctx.feature('e2e_cyclic_host_with_ligand')
        if case.get('grid'):
            ctx.feature('e2e_direction_restriction_at_the_periodic_boundary')
        if case.get('start'):
            ctx.feature('e2e_start_on_restrained_residue_' + ('by_name' if '#0-' not in case['start'][0] else 'with_index'))
        ctx.feature('e2e_restraint_checks', rec['selected'])
        for b in rec['bad'][:2]:
            ctx.violation('spec', f"C07 fails on the implementation: {b}", {'case': case, 'failure': b})
        ctx.case(json.dumps([case['build'], case['molecules'], case['seed']]), nontrivial=rec['ok'] and rec['selected'] > 0,
                 sample={'build_file': case['build'], 'molecules': case['molecules'], 'checks': rec['selected']})


def persistence_cases(ctx, n):
    """[ persistence_length ] batches: every sampled end-to-end distance lies between one (average) step and the contour
    length of ITS OWN path.  Two batches of one molecule type with the same model, persistence length and number of steps
    but paths through residues of different size; the restraints are read back where the sampling leaves them."""
    rng = ctx.rng
    for _ in range(n):
        nres = rng.randint(8, 12)
        half = nres // 2
        # two residue kinds of clearly different size: RA one small bead, RB three big beads in a row
        small = min(systems.ATOMTYPES, key=lambda t: systems.ATOMTYPES[t][0])
        big = max(systems.ATOMTYPES, key=lambda t: systems.ATOMTYPES[t][0])
        first_big = rng.random() < 0.5
        atoms, bonds, firsts, idx = [], [], [], 1
        for r in range(nres):
            is_big = (r < half) == first_big
            names = ['L1', 'L2', 'L3'] if is_big else ['S']
            firsts.append(idx)
            for j, nm in enumerate(names):
                atoms.append({'idx': idx, 'atype': big if is_big else small, 'resid': r + 1, 'res': r, 'resname': 'RB' if is_big else 'RA',
                              'name': nm, 'cgnr': idx, 'charge': 0.0, 'mass': systems.ATOMTYPES[big if is_big else small][1]})
                if j > 0:
                    bonds.append((idx - 1, idx))
                idx += 1
        bonds += [(firsts[r], firsts[r + 1]) for r in range(nres - 1)]
        mt = {'name': 'MA', 'nres': nres, 'shape': 'path', 'resnames': [a['resname'] for a in atoms if a['idx'] in firsts],
              'redges': [(r, r + 1) for r in range(nres - 1)], 'atoms': atoms, 'bonds': bonds}
        k = rng.randint(3, half - 1)
        lp = rng.choice([1.0, 2.0, 5.0])
        batches = [(0, 3, 0, k), (3, 6, nres - 1, nres - 1 - k)]          # (mol lo, mol hi, start, stop): through RA / through RB
        if rng.random() < 0.5:
            batches.reverse()
        build = ''.join(f'[ molecule ]\nMA {lo} {hi}\n[ persistence_length ]\nWCM {lp} {a} {b}\n' for lo, hi, a, b in batches)
        got = {}

        def wrap_sample(real):
            def sample(topology, nonbond_matrix, seed=None):
                out = real(topology, nonbond_matrix, seed=seed)
                for lo0, hi, a, b in batches:
                    for lo in range(lo0, hi):
                        mol = topology.molecules[lo]
                        path = list(range(a, b + 1)) if a < b else list(range(a, b - 1, -1))
                        steps = [float(nonbond_matrix.get_interaction(lo, lo, x, y)[0]) for x, y in zip(path[:-1], path[1:])]
                        entries = [e for e in mol.nodes[b].get('distance_restraints', [])]
                        got[(lo, a, b)] = {'contour': sum(steps), 'avg': sum(steps) / len(steps),
                                           'entries': [[int(e[0]), float(e[1]), float(e[2])] for e in entries]}
                raise Probe()
            return sample
        top = systems.top_text([mt], [('MA', 6)])
        with systems.Workdir() as wd:
            res = systems.run_gen_coords(wd, top, seed=rng.randrange(10 ** 6), files={'opts.bld': build}, build=['opts.bld'],
                                         box=np.array([12.0, 12.0, 12.0]), timeout=40,
                                         hooks={'polyply.src.build_system:sample_end_to_end_distances': wrap_sample})
        ctx.case(('persistence', build, nres), nontrivial=True, sample={'build_file': build, 'residues': nres})
        ctx.feature('persistence_batches')
        rep = {'persistence_case': {'moltype': mt, 'build': build}}
        if not got:
            if res.get('exc_type') != 'RunTimeout':
                ctx.violation('spec', f"gen_coords with two [ persistence_length ] batches stops before the distances are sampled: "
                              f"{res.get('exc_type')}: {str(res.get('exception'))[:150]}", rep)
            continue
        for (lo, a, b), o in got.items():
            # the entry of the stop residue against the start residue: (reference, upper, lower) with lower = d (tolerance 0)
            mine = [e for e in o['entries'] if e[0] == a]
            if len(mine) != 1:
                ctx.violation('spec', f"persistence batch of molecule {lo} ({a} -> {b}): the stop residue carries {len(mine)} restraints against the start residue", rep)
                continue
            d = mine[0][2]
            if not (o['avg'] - 1e-9 <= d < o['contour'] + 1e-9):
                ctx.violation('spec', f"persistence batch of molecule {lo} ({a} -> {b}): sampled end-to-end distance {d:.4f} nm outside "
                              f"[one step {o['avg']:.4f}, contour length {o['contour']:.4f}) of its own path", rep)


class Probe(Exception):
    pass


def face_step(c, mode, kind, prm, start, vec, box=6.0):
    """one real update_positions call for a residue restrained to the given volume, grown from `start` along
    `vec`: returns the stored position or None when the step is refused"""
    import networkx as nx
    import polyply.src.nonbond_engine as nbe
    import polyply.src.random_walk as rw
    boxv = np.array([box] * 3)
    positions = np.ones((2, 3)) * np.inf
    positions[0] = np.array(start)
    eng = nbe.NonBondEngine(positions, {(0, 0): 0, (0, 1): 1}, ['A', 'A'], {frozenset(['A']): (0.47, 1.0)}, None, None, 1.1, boxv)
    g = nx.Graph()
    g.add_edge(0, 1)
    g.nodes[1]['restraints'] = [[mode, np.array(c)] + list(prm) + [kind]]
    g.search_tree = nx.bfs_tree(g, 0)
    g.root = 0
    w = rw.RandomWalk(0, eng, maxdim=boxv, maxiter=0)
    w.molecule = g
    ok = w.update_positions(np.array([vec], dtype=float), 1, 0)
    return [float(x) for x in eng.positions[1]] if ok else None


def face_cases(ctx, n):
    """restraint volumes that reach a face of the periodic box, steps that cross that face: whatever is stored for
    the residue has to lie in the declared volume (positions are absolute coordinates inside the box)"""
    rng = ctx.rng
    box = 6.0
    for _ in range(n):
        axis = rng.randrange(3)
        hi = rng.random() < 0.5
        kind = rng.choice(['sphere', 'cylinder', 'rectangle'])
        mode = 'in'
        c = [3.0, 3.0, 3.0]
        c[axis] = round(box - rng.uniform(0.0, 0.6), 3) if hi else round(rng.uniform(0.0, 0.6), 3)
        prm = {'sphere': [1.2], 'cylinder': [1.2, 1.2], 'rectangle': [1.2, 1.2, 1.2]}[kind]
        start = [3.0, 3.0, 3.0]
        start[axis] = round(box - rng.uniform(0.02, 0.3), 3) if hi else round(rng.uniform(0.02, 0.3), 3)
        vec = [0.0, 0.0, 0.0]
        vec[axis] = 1.0 if hi else -1.0
        if rng.random() < 0.3:
            vec[axis] = -vec[axis]          # control: a step that stays inside
        stored = face_step(c, mode, kind, prm, start, vec, box)
        crossed = stored is not None and abs(stored[axis] - start[axis]) > box / 2
        ctx.case(('face', kind, tuple(c), tuple(start), tuple(vec)), nontrivial=True, sample={'kind': kind, 'centre': c, 'start': start, 'vector': vec, 'stored': stored})
        ctx.feature('face_step_' + ('refused' if stored is None else ('stored_across_face' if crossed else 'stored')))
        d = {'kind': kind, 'mode': mode, 'c': c, 'p': prm}
        if stored is not None and not geom_ok(d, stored):
            ctx.violation('spec', f"a residue restrained '{mode}' {kind} centre {c} {prm} was grown from {start} along {vec} and stored at "
                          f"{[round(x, 4) for x in stored]}, outside the declared volume",
                          {'face': True, 'kind': kind, 'mode': mode, 'c': c, 'p': prm, 'start': start, 'vec': vec})


def search(ctx):
    """boundary-directed probe of the real predicates against the declared geometry"""
    import polyply.src.random_walk as rw
    rng = ctx.rng
    for _ in range(3000):
        c = np.array([rng.uniform(1, 5) for _ in range(3)])
        mode = rng.choice(['in', 'out'])
        kind = rng.choice(['sphere', 'cylinder', 'rectangle'])
        if kind == 'sphere':
            prm = [round(rng.uniform(0.5, 3), 3)]
        elif kind == 'cylinder':
            prm = [round(rng.uniform(0.5, 3), 3), round(rng.uniform(0.5, 3), 3)]
        else:
            prm = [round(rng.uniform(0.5, 3), 3) for _ in range(3)]
        scale = rng.choice([1 - 1e-6, 1 + 1e-6, 0.5, 1.5])
        u = np.array([rng.gauss(0, 1) for _ in range(3)])
        u /= np.linalg.norm(u)
        p = c + u * max(prm) * scale
        acc = bool(rw.RESTRAINT_METHODS[kind](p, [mode, c] + prm + [kind]))
        d = {'kind': kind, 'mode': mode, 'c': c.tolist(), 'p': prm}
        if acc and not geom_ok(d, p):
            ctx.violation('search', f"{kind} predicate accepted {p.tolist()} which violates '{mode}' {c.tolist()} {prm}",
                          {'predicate': kind, 'mode': mode, 'c': c.tolist(), 'p': prm, 'point': p.tolist(), 'broken': ctx.broken})
            return


def replay(ctx, data):
    print(json.dumps(data, indent=1, default=str)[:3000])
    if data.get('face'):
        stored = face_step(data['c'], data['mode'], data['kind'], data['p'], data['start'], data['vec'])
        ok = stored is None or geom_ok({'kind': data['kind'], 'mode': data['mode'], 'c': data['c'], 'p': data['p']}, stored)
        print('replay: stored', stored, 'inside the declared volume' if ok else 'OUTSIDE the declared volume')
        return 0 if ok else 1
    if 'predicate' in data:
        import polyply.src.random_walk as rw
        acc = bool(rw.RESTRAINT_METHODS[data['predicate']](np.array(data['point']), [data['mode'], np.array(data['c'])] + data['p'] + [data['predicate']]))
        ok = (not acc) or geom_ok({'kind': data['predicate'], 'mode': data['mode'], 'c': data['c'], 'p': data['p']}, data['point'])
        print('replay: accepted =', acc)
        return 0 if ok else 1
    case = data.get('case')
    if case and 'build' in case:
        case['molecules'] = [tuple(m) for m in case['molecules']]
        rec = run_build_case(case)
        print('replay:', rec['bad'][:3] or 'all declared restraints satisfied')
        return 1 if rec['bad'] else 0
    return 0
