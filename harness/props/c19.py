"""C19 -- dsDNA completion adds the antiparallel Watson-Crick complement.

Proof: Props/C19.v (pairing table regenerated from gen_dna.BASE_LIBRARY: involution, A-T/G-C,
5'<->3'; name-level specification: antiparallel pairing, 2n residues, double complement,
rejection; algorithmic model: original strand unchanged and separate for every graph).
Correspondence (tie D): real complement_dsDNA on generated residue graphs (linear with
terminal names, circular, arbitrary key/adjacency orders, unknown names) versus the
algorithmic model model/Dna.v evaluated by vm_compute -- nodes (key, resid, name) in order,
adjacency lists in order with edge labels, error class.  The implementation output is also
judged against the verified name-level specification comp_strand."""
import itertools
import json
import os

from harness import core
from harness.coqio import lit, Raw

META = {
    'level': 'proof',
    'technique': 'Coq proof over the regenerated pairing table and an algorithmic graph model; exact differential correspondence with complement_dsDNA',
    'gen_deps': ['Gen_dna'],
    'eval_deps': ['theories/model/Dna.vo', 'theories/gen/Gen_dna.vo'],
    'level_text': ("Theorems in Coq (Props/C19.v): the pairing table as regenerated from the source on every run is an involution "
                   "pairing A-T and G-C and exchanging 5'/3' roles (finite check over the table); for sequences of every length the "
                   "specification comp_strand pairs residue n+k with residue n+1-k, yields 2n residues, is undone by a second "
                   "completion and rejects unknown names; the algorithmic model of complement_dsDNA/_dna_edge_iterator leaves the "
                   "original strand (nodes, neighbour lists, edge labels) unchanged and unconnected to the new one for every residue "
                   "graph and adjacency order, and rejects unknown names where the traversal meets them. The algorithmic model is "
                   "tied to the code by exact comparison on generated graphs (exhaustive over all sequences up to a length bound, "
                   "linear and circular, plus random long ones, permuted adjacency, unknown names); the implementation's output is "
                   "additionally judged by the specification. For the graphs the sequence readers build for a LINEAR strand of any length and for a "
                   "CIRCULAR strand of any length >= 3 the algorithmic model is proved equal to the specification (loop invariant over "
                   "the edge iterator: terminates within its fuel, closes the ring and stops, residues = strand followed by its "
                   "complement read backwards, numbered 1..2n); that these are the graphs the readers build is compared on every run."),
    'level_note': ("Trusted: Coq kernel + vm_compute, the table extractor of gen/translate.py, the harness. No axioms (Print "
                   "Assumptions: closed). networkx adjacency order and MetaMolecule.add_node are modelled by hand and validated "
                   "by the correspondence only."),
    'rule': ("cases = residue graphs built with the real constructors (from_monomer_seq_linear, parse_ig circular, "
             "MetaMolecule(graph) with shuffled edge order, direct add_edge in random order) over the 12 table names, plus "
             "unknown names at every position; non-trivial = at least 2 residues or a rejection; distinct by (names, keys, adjacency)"
             "; directed / added families (waves 10-12): residue graphs without resid attributes"),
}

LETTERS = ['A', 'C', 'G', 'T']
os.environ.setdefault('TQDM_DISABLE', '1')


def names_linear(seq):
    out = ['D' + c for c in seq]
    out[0] += '5'
    out[-1] += '3'
    return out


def build_linear(names):
    from polyply import MetaMolecule
    from polyply.src.meta_molecule import Monomer
    return MetaMolecule.from_monomer_seq_linear(None, [Monomer(resname=n, n_blocks=1) for n in names], 'dna')


def build_graph(names, edges, rng=None, keys=None, attrs=None):
    """MetaMolecule(graph) from an nx.Graph with given key list and (possibly shuffled) edges"""
    import networkx as nx
    from polyply import MetaMolecule
    g = nx.Graph()
    keys = keys or list(range(len(names)))
    # a residue graph without residue numbers (a .json file with ids and names only): the constructor numbers the residues
    # itself, key + 1 -- the same numbers
    no_resid = rng is not None and keys == list(range(len(names))) and rng.random() < 0.35
    for k, (key, nm) in enumerate(zip(keys, names)):
        if no_resid:
            g.add_node(key, resname=nm)
        else:
            g.add_node(key, resname=nm, resid=k + 1)
    edges = list(edges)
    if rng:
        rng.shuffle(edges)
    for a, b in edges:
        if rng and rng.random() < 0.5:
            a, b = b, a
        g.add_edge(keys[a], keys[b], **((attrs or {}).get((min(a, b), max(a, b)), {})))
    return MetaMolecule(g)


def snapshot(meta):
    nodes = [(int(k), int(meta.nodes[k]['resid']), str(meta.nodes[k]['resname'])) for k in meta.nodes]
    adj = [(int(k), [(int(v), sorted((str(a), str(b)) for a, b in meta.adj[k][v].items())) for v in meta.adj[k]])
           for k in meta.nodes]
    return {'nodes': nodes, 'adj': adj, 'maxres': int(meta.max_resid)}


def run_impl(meta):
    import io, contextlib
    from polyply.src.gen_dna import complement_dsDNA
    try:
        with contextlib.redirect_stderr(io.StringIO()):
            complement_dsDNA(meta)
    except KeyError:
        return 'ErrKey'
    except IOError:
        return 'ErrIO'
    except IndexError:
        return 'ErrKey'
    return snapshot(meta)


def coq_graph(snap):
    nodes = "[" + "; ".join(f"Build_node {lit(k)} {lit(r)} {lit(n)}" for k, r, n in snap['nodes']) + "]"
    adj = "[" + "; ".join(
        "(" + lit(k) + ", [" + "; ".join("(" + lit(v) + ", " + lit([(a, b) for a, b in d]) + ")" for v, d in l) + "])"
        for k, l in snap['adj']) + "]"
    # empty attr lists need a type annotation-free form: lit([]) prints [] which Coq infers
    return f"(Build_mg {nodes} {adj} {lit(snap['maxres'])})"


PRELUDE = """From PV Require Import Dna Gen_dna.
Open Scope Z_scope.
Definition show (r : result mg) :=
  match r with
  | Ok g => (0, map (fun n => (n_key n, n_resid n, n_name n)) (g_nodes g), g_adj g, g_maxres g)
  | Err ErrKey => (1, [], [], 0) | Err ErrIO => (2, [], [], 0) | Err ErrFuel => (3, [], [], 0)
  end.
Definition run (g : mg) (names : list string) := (show (complement BASE_LIBRARY g), comp_strand BASE_LIBRARY names).
Definition reader_graph (circ : bool) (names : list string) := show (Ok (if circ then circular names else linear names)).
"""


def norm_model(res):
    code, nodes, adj, maxres, spec = res
    spec = None if spec is None else list(spec[1])
    if code == 1:
        return 'ErrKey', spec
    if code == 2:
        return 'ErrIO', spec
    if code == 3:
        return 'ErrFuel', spec
    return {'nodes': [tuple(n) for n in nodes],
            'adj': [(k, [(v, sorted(tuple(x) for x in d)) for v, d in l]) for k, l in adj],
            'maxres': maxres}, spec


def norm_impl(out):
    if isinstance(out, str):
        return out
    return {'nodes': [tuple(n) for n in out['nodes']],
            'adj': [(k, [(v, [tuple(x) for x in d]) for v, d in l]) for k, l in out['adj']],
            'maxres': out['maxres']}


def judge(case, before, out, spec):
    """C19 statement on the implementation output, using the Coq-evaluated specification for
    the expected names; returns list of failures"""
    bad = []
    names = [n for _, _, n in before['nodes']]
    n = len(names)
    if spec is None:
        if not isinstance(out, str) and wc_expected(names) is None:
            bad.append('unknown residue name accepted')
        if wc_expected(names) is None or isinstance(out, str):
            return bad
        spec = [x[2] for x in out['nodes'][n:]]
    if isinstance(out, str):
        bad.append(f'known sequence rejected with {out}')
        return bad
    if len(out['nodes']) != 2 * n:
        bad.append(f"{len(out['nodes'])} residues instead of {2 * n}")
        return bad
    if out['nodes'][:n] != before['nodes']:
        bad.append('original strand changed')
    new = out['nodes'][n:]
    indep = wc_expected(names)
    if indep is not None and [x[2] for x in new] != indep:
        bad.append(f"new strand names {[x[2] for x in new]} are not the antiparallel Watson-Crick complement {indep}")
    if [x[2] for x in new] != spec:
        bad.append(f"new strand names {[x[2] for x in new]} expected {spec}")
    if [x[1] for x in new] != list(range(n + 1, 2 * n + 1)):
        bad.append(f"new strand resids {[x[1] for x in new]}")
    if case['shape'] in ('linear', 'circular'):
        key_of = {r: k for k, r, _ in out['nodes']}
        adj = {k: dict(l) for k, l in out['adj']}
        edges = {(min(key_of_resid(out, a), key_of_resid(out, b)), max(key_of_resid(out, a), key_of_resid(out, b))): d
                 for a in range(1, 2 * n + 1) for b, d in adj_resid(out, a).items() if a < b}
        exp = {}
        for r in range(1, n):
            exp[(r, r + 1)] = []
        for k in range(1, n):
            exp[(n + k, n + k + 1)] = []
        if case['shape'] == 'circular' and n > 2:
            exp[(1, n)] = [('linktype', 'circle')]
            exp[(n + 1, 2 * n)] = [('linktype', 'circle')]
        got = {}
        for a in range(1, 2 * n + 1):
            for b, d in adj_resid(out, a).items():
                if a < b:
                    got[(a, b)] = d
        if case['shape'] == 'circular' and n == 2:
            exp[(1, 2)] = got.get((1, 2), [])
            exp[(3, 4)] = got.get((1, 2), [])
        if got != exp:
            bad.append(f"edges (by resid) {sorted(got.items())} expected {sorted(exp.items())}")
    return bad


WC = {'A': 'T', 'T': 'A', 'G': 'C', 'C': 'G'}
SWAP = {'5': '3', '3': '5', '': ''}


def wc_expected(names):
    """the property text, independent of the source table: complement base, exchanged terminal role, reversed"""
    out = []
    for nm in reversed(names):
        if len(nm) not in (2, 3) or nm[0] != 'D' or nm[1] not in WC or nm[2:] not in SWAP:
            return None
        out.append('D' + WC[nm[1]] + SWAP[nm[2:]])
    return out


def key_of_resid(out, r):
    for k, rr, _ in out['nodes']:
        if rr == r:
            return k


def adj_resid(out, r):
    resid = {k: rr for k, rr, _ in out['nodes']}
    k = key_of_resid(out, r)
    for kk, l in out['adj']:
        if kk == k:
            return {resid[v]: d for v, d in l}
    return {}


def gen_cases(ctx):
    rng = ctx.rng
    cases = []
    maxlen = ctx.n(4, 6)
    for L in range(1, maxlen + 1):
        for seq in itertools.product(LETTERS, repeat=L):
            cases.append({'shape': 'linear', 'names': names_linear(seq), 'how': 'seq'})
            if L >= 2:
                cases.append({'shape': 'circular', 'names': ['D' + c for c in seq], 'how': 'graph'})
    for _ in range(ctx.n(150, 1500)):
        L = rng.randint(5, 40)
        seq = [rng.choice(LETTERS) for _ in range(L)]
        how = rng.choice(['seq', 'graph', 'graph', 'shuffled', 'keys'])
        shape = rng.choice(['linear', 'linear', 'circular'])
        if shape == 'circular' and how == 'seq':
            how = 'graph'
        names = names_linear(seq) if shape == 'linear' else ['D' + c for c in seq]
        c = {'shape': shape, 'names': names, 'how': how}
        if rng.random() < 0.25:
            pos = rng.randrange(L)
            c['names'] = list(names)
            c['names'][pos] = rng.choice(['ALA', 'DX', 'A', 'DA55', 'da'])
            c['unknown_at'] = pos
        cases.append(c)
    # odd graphs: branched / resid gaps / arbitrary keys: model-vs-impl only
    for _ in range(ctx.n(60, 600)):
        L = rng.randint(2, 9)
        names = [rng.choice(['DA', 'DT', 'DG', 'DC', 'DA5', 'DT3', 'XX']) for _ in range(L)]
        edges = [(rng.randrange(i), i) for i in range(1, L)]
        if rng.random() < 0.5 and L > 2:
            a, b = rng.sample(range(L), 2)
            if (min(a, b), max(a, b)) not in [(min(x, y), max(x, y)) for x, y in edges]:
                edges.append((a, b))
        keys = sorted(rng.sample(range(0, 3 * L), L))
        if rng.random() < 0.4:
            rng.shuffle(keys)        # node ids in any order (a .json graph): the last residue need not carry the highest key
        cases.append({'shape': 'odd', 'names': names, 'how': 'odd', 'edges': edges, 'keys': keys})
    return cases


def build_case(c, rng):
    n = len(c['names'])
    if c['how'] == 'seq':
        return build_linear(c['names'])
    if c['how'] == 'odd':
        attrs = {(min(a, b), max(a, b)): ({'linktype': 'x'} if rng.random() < 0.3 else {}) for a, b in c['edges']}
        return build_graph(c['names'], c['edges'], rng, keys=c['keys'], attrs=attrs)
    edges = [(i, i + 1) for i in range(n - 1)]
    attrs = {}
    if c['shape'] == 'circular' and n >= 2:
        edges.append((0, n - 1))
        attrs[(0, n - 1)] = {'linktype': 'circle'}
    if c['how'] == 'graph':
        return build_graph(c['names'], edges, None, attrs=attrs)
    if c['how'] == 'shuffled':
        return build_graph(c['names'], edges, rng, attrs=attrs)
    keys = sorted(rng.sample(range(0, 3 * n + 3), n))
    if rng.random() < 0.4:
        rng.shuffle(keys)
    return build_graph(c['names'], edges, rng, keys=keys, attrs=attrs)


def reader_graphs(ctx):
    """the graphs the theorems C19_algorithm_on_linear/circular_strands speak about are the graphs the sequence readers build"""
    import io
    import contextlib
    import pathlib
    from polyply import MetaMolecule
    from harness import systems
    rng = ctx.rng
    exprs, snaps = [], []
    with systems.Workdir() as wd:
        for _ in range(ctx.n(12, 60)):
            n = rng.randint(3, 9)
            seq = ''.join(rng.choice('ACGT') for _ in range(n))
            circ = rng.random() < 0.5
            p = pathlib.Path(wd) / 's.ig'
            p.write_text('; DNA test\ntitle\n' + seq + ('2' if circ else '1') + '\n')
            with contextlib.redirect_stderr(io.StringIO()), contextlib.redirect_stdout(io.StringIO()):
                meta = MetaMolecule.from_sequence_file(None, p, 'dna')
            snap = snapshot(meta)
            names = [nm for _, _, nm in snap['nodes']]
            exprs.append(f"reader_graph {lit(circ)} {lit(names)}")
            snaps.append((circ, seq, snap))
    res = core.coq_eval_cases(ctx, 'readers', PRELUDE, exprs, chunk=100)
    mism = 0
    for (circ, seq, snap), r in zip(snaps, res):
        code, nodes, adj, maxres = r
        model = ([tuple(x) for x in nodes], [(k, [(v, [tuple(a) for a in d]) for v, d in l]) for k, l in adj], maxres)
        impl = ([tuple(x) for x in snap['nodes']], [(k, [(v, [tuple(a) for a in d]) for v, d in l]) for k, l in snap['adj']], snap['maxres'])
        if model != impl:
            mism += 1
            if mism <= 2:
                ctx.note(f"reader graph ({'circular' if circ else 'linear'} {seq}): model {str(model)[:200]} impl {str(impl)[:200]}")
    ctx.extra['reader_graphs'] = {'cases': len(snaps), 'mismatches': mism}
    if mism:
        ctx.broken.append('correspondence:graphs built by the sequence readers vs model linear / circular')


def run_cases(ctx):
    ctx.correspondences += ['graphs built by the sequence readers (linear, circular .ig) == model linear / circular (premise of the algorithm theorems)',
                            'complement_dsDNA vs model/Dna.v complement (exact: nodes, ordered adjacency, labels, error class)',
                            'implementation output judged by the specification comp_strand (evaluated in Coq)']
    cases = gen_cases(ctx)
    for fn, c in core.corpus_cases('C19'):
        cases.insert(0, c)
    befores, outs, exprs = [], [], []
    for ci, c in enumerate(cases):
        meta = build_case(c, ctx.rng)
        # residues of the given strand that carry flags / attributes set after the molecule was made (residues that already
        # exist and are not to be built, labels): "the original strand unchanged" covers every attribute
        if ci % 3 == 0:
            for k in meta.nodes:
                if ctx.rng.random() < 0.5:
                    meta.nodes[k]['build'] = False
                if ctx.rng.random() < 0.5:
                    meta.nodes[k]['backmap'] = False
                if ctx.rng.random() < 0.3:
                    meta.nodes[k]['chiral'] = 'R'
        attrs_before = {int(k): {str(a): repr(v) for a, v in meta.nodes[k].items() if a != 'graph'} for k in meta.nodes}
        before = snapshot(meta)
        out = run_impl(meta)
        if not isinstance(out, str):
            for k, want in attrs_before.items():
                got = {str(a): repr(v) for a, v in meta.nodes[k].items() if a != 'graph'} if k in meta.nodes else None
                if got != want:
                    diff = sorted(a for a in set(want) | set(got or {}) if (got or {}).get(a) != want.get(a))
                    ctx.violation('spec', f"C19 fails on the implementation: residue {k} of the given strand had attributes "
                                  f"{ {a: want.get(a) for a in diff} }, after completion {None if got is None else {a: got.get(a) for a in diff} }",
                                  {'case': c, 'before': before, 'failure': f'attributes {diff} of original residue {k} changed', 'flags': ci % 3 == 0})
                    break
        befores.append(before)
        outs.append(out)
        exprs.append(f"run {coq_graph(before)} {lit([n for _, _, n in before['nodes']])}")
        ctx.feature(c['shape'])
        ctx.feature('how_' + c['how'])
        if isinstance(out, str):
            ctx.feature('rejected_' + out)
    try:
        res = core.coq_eval_cases(ctx, 'corr', PRELUDE, exprs, chunk=250)
    except core.CoqEvalError as exc:
        ctx.note(str(exc)[:600])
        ctx.broken.append('correspondence:complement_dsDNA vs model (evaluation failed)')
        return
    mism = 0
    for c, before, out, r in zip(cases, befores, outs, res):
        model, spec = norm_model(r)
        impl = norm_impl(out)
        n = len(before['nodes'])
        ctx.case((tuple(before['nodes']), json.dumps(before['adj'])), nontrivial=(n >= 2 or isinstance(out, str)),
                 sample={'shape': c['shape'], 'names': c['names'][:8], 'result': out if isinstance(out, str) else [x[2] for x in out['nodes']][:16]})
        if c['shape'] != 'odd':
            for b in judge(c, before, impl, spec):
                ctx.violation('spec', f"C19 fails on the implementation output: {b}",
                              {'case': c, 'before': before, 'impl': impl, 'spec_names': spec, 'failure': b})
        if model != impl:
            mism += 1
            if mism <= 3:
                ctx.note(f"correspondence: case {c['shape']} {c['names'][:6]}: model {str(model)[:300]} != impl {str(impl)[:300]}")
                ctx.extra.setdefault('disagreements', []).append({'case': c, 'before': before, 'model': model, 'impl': impl})
    ctx.extra['correspondence'] = {'cases': len(cases), 'mismatches': mism, 'comparison': 'exact',
                                   'exhaustive_up_to_length': ctx.n(4, 6)}
    if mism:
        ctx.broken.append('correspondence:complement_dsDNA vs model/Dna.v')
    glue(ctx)


def glue(ctx):
    """gen_params(dsdna=True) reaches complement_dsDNA on the sequence it read (the glue around the core)"""
    import tempfile, pathlib
    import polyply.src.gen_itp as gi

    class Stop(Exception):
        pass
    captured = {}

    class Capture:
        def __init__(self, ff):
            pass

        def run_molecule(self, meta):
            captured['meta'] = snapshot(meta)
            raise Stop()
    real = gi.MapToMolecule
    gi.MapToMolecule = Capture
    try:
        for seq, flag in [(['DA5:1', 'DG:2', 'DC3:1'], True), (['DT5:1', 'DA3:1'], True), (['DA5:1', 'DG:2', 'DC3:1'], False)]:
            captured.clear()
            try:
                gi.gen_params(name='x', outpath=pathlib.Path(tempfile.gettempdir()) / 'verif_c19_never_written.itp',
                              inpath=[], lib=None, seq=seq, seq_file=None, dsdna=flag)
            except Stop:
                pass
            n = sum(int(s.split(':')[1]) for s in seq)
            got = len(captured['meta']['nodes'])
            ctx.case(('glue', tuple(seq), flag), nontrivial=True)
            if got != (2 * n if flag else n):
                ctx.violation('spec', f"gen_params(dsdna={flag}) handed {got} residues to the mapping stage for a {n}-residue sequence",
                              {'glue': True, 'seq': seq, 'dsdna': flag, 'observed': captured['meta']})
    finally:
        gi.MapToMolecule = real


def run(ctx):
    run_cases(ctx)
    try:
        reader_graphs(ctx)
    except core.CoqEvalError as exc:
        ctx.note(str(exc)[:600])
        ctx.broken.append('correspondence:reader graphs (evaluation failed)')


def search(ctx):
    """after a broken obligation: run() has already judged every generated case against the
    specification; nothing further to enumerate (the exhaustive small scope is part of run)"""
    return


def replay(ctx, data):
    print(json.dumps(data, indent=1, default=str)[:3000])
    c = data.get('case')
    if not c:
        return 0
    import random
    meta = build_case(c, random.Random(0))
    before = snapshot(meta)
    out = norm_impl(run_impl(meta))
    spec = data.get('spec_names')
    bad = judge(c, before, out, spec) if c['shape'] != 'odd' else []
    print('replay:', bad or 'specification satisfied on this case')
    return 1 if bad else 0
