"""C12 -- sequence inputs produce exactly the specified residue graph.

Proof: Props/C12.v over model/SeqParse.v (linear builder, .txt tokenisation with line-break
invariance, one-letter translation with 5'/3' naming, circular .ig, macro trees, block
union with connects) with the one-letter tables and the guard of the suffix stripping
regenerated from the source (tie T, Gen_seqtables).
Correspondence (tie D): the real -seq builder, parse_txt / parse_fasta / parse_ig /
MetaMolecule.from_sequence_file and gen_seq -> .json -> parse_json on generated inputs against
the model graphs; independent judge for names, numbering and edges; JSON round trip of the
labelled graph."""
import contextlib
import io
import json
import pathlib

from harness import core, systems
from harness.coqio import lit

META = {
    'level': 'proof',
    'technique': 'Coq proofs over the sequence-parser and gen_seq graph model (tables regenerated from source); differential correspondence with the real parsers, -seq builder and gen_seq/json round trip',
    'gen_deps': ['Gen_seqtables'],
    'eval_deps': ['theories/model/SeqParse.vo'],
    'level_text': ("Theorems in Coq (Props/C12.v): a monomer list gives residues in input order numbered from 1 with exactly the edges "
                   "k-(k+1); every breaking of a stream of clean tokens into single-space separated non-empty lines yields the same "
                   "token list; one-letter translation is position-wise through the source's tables (all 256 characters, T), unknown "
                   "letters are rejected, 5'/3' suffixes go on the first/last residue of nucleic acids only; with a comment that names PROTEIN "
                   "together with DNA or RNA every letter goes through the DNA, RNA, amino-acid table in this order (a function of the "
                   "keywords and the letter alone); a circular .ig sequence "
                   "has the plain names, the chain edges and exactly one closing edge labelled circular; macro trees hang node k under "
                   "(k-1)/r; blocks occupy consecutive key ranges in sequence order and a connect record adds exactly the stated "
                   "edge. Tied to the code by differential runs of every reader, the -seq builder and gen_seq with the json round trip."),
    'level_note': ("Trusted: Coq kernel, translator (string_dict, guard_of_assign), harness. No axioms. networkx balanced_tree, "
                   "disjoint_union and the node-link JSON codec are modelled by contract and validated by the runs; residue mixes "
                   "with probability < 1 are random and outside the statement."),
    'rule': ("cases = monomer lists (1-5 entries, counts 1-4); token streams of 1-12 arbitrary names x random line breaking and "
             "padding; letter streams of 1-30 over DNA/RNA/protein alphabets x random line breaking, .fasta and .ig (linear and "
             "circular, incl. unknown letters), fasta comments naming PROTEIN with DNA / RNA, a fixed history of plain and mixed records in one process; gen_seq with 1-3 macros (levels 1-4, branching 1-3) x sequences of 1-4 blocks x "
             "connects x terminal renamings x labels; non-trivial = >= 3 residues and (>= 2 lines or >= 2 blocks); distinct by input text"
             "; directed / added families (waves 10-12): comments naming PROTEIN with DNA / RNA; arbitrary .ig titles"),
}

PRELUDE = """From Coq Require Import String Ascii List Bool Arith.
From PV Require Import SeqParse.
Import ListNotations.
Open Scope string_scope.
Definition show (g : graph) := (g_names g, g_edges g).
Definition oshow (g : option graph) := option_map show g.
Definition mk_macro (m : string * (nat * nat * string)) : string * macro :=
  (fst m, {| m_levels := fst (fst (snd m)); m_bfact := snd (fst (snd m)); m_res := snd (snd m) |}).
Definition mk_connect (c : nat * nat * nat * nat) : connect :=
  let '(i, j, a, b) := c in {| c_i := i; c_j := j; c_a := a; c_b := b |}.
Inductive case :=
| CSeq (ms : list (string * nat))
| CTxt (lines : list string)
| CPlain (a : alphabet) (lines : list string)
| CPlainMix (d r a : bool) (lines : list string)
| CIg (a : alphabet) (circular : bool) (lines : list string)
| CGen (macros : list (string * (nat * nat * string))) (sequence : list string) (cs : list (nat * nat * nat * nat)) (mods : list (nat * string)).
Definition run_case (c : case) : option (list string * list (nat * nat * bool)) :=
  match c with
  | CSeq ms => Some (show (from_seq ms))
  | CTxt lines => Some (show (parse_txt lines))
  | CPlain a lines => oshow (parse_plain a lines)
  | CPlainMix d r a lines => oshow (parse_plain_mix {| k_dna := d; k_rna := r; k_aa := a |} lines)
  | CIg a circ lines => oshow (parse_ig a circ lines)
  | CGen macros sequence cs mods => oshow (gen_seq_graph (map mk_macro macros) sequence (map mk_connect cs) mods)
  end.
"""

TABLES = {'DNA': {"A": "DA", "C": "DC", "G": "DG", "T": "DT"}, 'RNA': {"A": "A", "C": "C", "G": "G", "T": "U"},
          'AA': {"G": "GLY", "A": "ALA", "V": "VAL", "C": "CYS", "P": "PRO", "L": "LEU", "I": "ILE", "M": "MET", "W": "TRP", "F": "PHE",
                 "S": "SER", "T": "THR", "Y": "TYR", "N": "ASN", "Q": "GLN", "K": "LYS", "R": "ARG", "H": "HIS", "D": "ASP", "E": "GLU",
                 "O": "HYP"}}
KEYWORD = {'DNA': 'DNA', 'RNA': 'RNA', 'AA': 'PROTEIN'}
NAMES = ['PEO', 'PS', 'P3HT', 'NH3', 'A', 'GLY', 'X1', 'OH', 'DA5']


def graph_of(g):
    """(names by key order, resid-is-key+1, edges with circular label)"""
    keys = sorted(g.nodes)
    names = [g.nodes[k].get('resname') for k in keys]
    resid_ok = all(g.nodes[k].get('resid', k + 1) == k + 1 for k in keys) and keys == list(range(len(keys)))
    edges = sorted((min(a, b), max(a, b), d.get('linktype') == 'circle') for a, b, d in g.edges(data=True))
    return names, resid_ok, edges


def break_lines(rng, items, sep):
    """random breaking of a stream into non-empty lines"""
    lines, cur = [], []
    for it in items:
        cur.append(it)
        if rng.random() < 0.3:
            lines.append(sep.join(cur))
            cur = []
    if cur:
        lines.append(sep.join(cur))
    return lines


def quiet(fn, *a, **kw):
    sink = io.StringIO()
    with contextlib.redirect_stderr(sink), contextlib.redirect_stdout(sink):
        return fn(*a, **kw)


def impl_file(wd, fname, text):
    import vermouth.forcefield
    from polyply import MetaMolecule
    p = pathlib.Path(wd) / fname
    p.write_text(text)
    try:
        meta = quiet(MetaMolecule.from_sequence_file, vermouth.forcefield.ForceField('x'), p, 'x')
    except Exception as exc:  # noqa
        return ('error', type(exc).__name__)
    return graph_of(meta)


def gen_cases(rng, n):
    cases = []
    for i in range(n):
        kind = ['seq', 'txt', 'fasta', 'ig', 'gen', 'ig', 'gen', 'txt'][i % 8]
        if kind == 'seq':
            ms = [(rng.choice(NAMES), rng.randint(1, 4)) for _ in range(rng.randint(1, 5))]
            cases.append({'kind': 'seq', 'ms': ms})
        elif kind == 'txt':
            toks = [rng.choice(NAMES) for _ in range(rng.randint(1, 12))]
            lines = break_lines(rng, toks, ' ')
            lines = [(' ' * rng.randint(0, 2)) + l + (' ' * rng.randint(0, 2)) for l in lines]
            cases.append({'kind': 'txt', 'toks': toks, 'lines': lines})
        elif kind in ('fasta', 'ig'):
            alpha = rng.choice(['DNA', 'RNA', 'AA'])
            n_l = rng.randint(2 if alpha != 'AA' else 1, 30)
            letters = [rng.choice(sorted(TABLES[alpha])) for _ in range(n_l)]
            if rng.random() < 0.12:
                letters[rng.randrange(n_l)] = rng.choice('BZXJ')
            lines = break_lines(rng, letters, '')
            circ = kind == 'ig' and rng.random() < 0.5
            cases.append({'kind': kind, 'alpha': alpha, 'letters': letters, 'lines': lines, 'circular': circ})
            if kind == 'ig':
                # the title line is an arbitrary identifier -- also one spelled with the letters A, C, G, T only
                cases[-1]['title'] = rng.choice(['title line', 'my_seq_A', 'GATA', 'TATA', 'CAT', 'A', 'TAG', 'seq 7', 'chain1', 'seq2', 'A1', 'run 12'])
            if kind == 'fasta' and alpha == 'AA' and rng.random() < 0.35:
                # the comment of a protein record that also names a nucleic acid ("... DNA-binding domain PROTEIN"):
                # letters go through the DNA / RNA table first, then the amino-acid table
                cases[-1]['with'] = rng.choice(['DNA', 'RNA'])
            if kind == 'fasta' and rng.random() < 0.4:
                # further records after the first (FASTA of a complex: other chains, possibly of another molecule type);
                # the residue graph is that of the first record
                cases[-1]['more_records'] = [[rng.choice(['DNA', 'RNA', 'AA']), ''.join(rng.choice('ACGT') for _ in range(rng.randint(2, 8)))]
                                             for _ in range(rng.randint(1, 2))]
        else:
            tags = ['A', 'B', 'C'][:rng.randint(1, 3)]
            macros = [(t, rng.randint(1, 4), rng.randint(1, 3), rng.choice(NAMES)) for t in tags]
            sequence = [rng.choice(tags) for _ in range(rng.randint(1, 4) if rng.random() < 0.7 else rng.randint(4, 7))]
            sizes = []
            for t in sequence:
                _, lev, bf, _ = next(m for m in macros if m[0] == t)
                sizes.append(sum(bf ** k for k in range(lev)))
            connects = []
            for k in range(len(sequence) - 1):
                if rng.random() < 0.85:
                    connects.append((k, k + 1, rng.randrange(sizes[k]), rng.randrange(sizes[k + 1])))
                    # several bonds between the same two blocks (written in one record when 'grouped')
                    while rng.random() < 0.35:
                        extra = (k, k + 1, rng.randrange(sizes[k]), rng.randrange(sizes[k + 1]))
                        if extra not in connects:   # the same bond twice is one edge of the graph; not generated
                            connects.append(extra)
            mods = [(rng.randrange(len(sequence)), rng.choice(['OH', 'NH2'])) for _ in range(rng.randint(0, 2))]
            tagsl = [(rng.randrange(len(sequence)), 'chiral', rng.choice(['R', 'S']))] if rng.random() < 0.4 else []
            cases.append({'kind': 'gen', 'macros': macros, 'sequence': sequence, 'connects': connects, 'mods': mods, 'labels': tagsl, 'sizes': sizes,
                          'grouped': rng.random() < 0.6})
    return cases


def connect_records(case):
    """the -connects strings: one record per bond, or (documented by _add_edges) all consecutive bonds of a
    block pair in one record 'i:j:a-b,c-d'"""
    recs = []
    last = None
    for i, j, a, b in case['connects']:
        if case.get('grouped') and last == (i, j):
            recs[-1] += f',{a}-{b}'
        else:
            recs.append(f'{i}:{j}:{a}-{b}')
        last = (i, j)
    return recs


def expected(case):
    """independent expectation from the statement: (names, edges) or 'error'"""
    k = case['kind']
    if k == 'seq':
        names = [n for n, c in case['ms'] for _ in range(c)]
    elif k == 'txt':
        names = list(case['toks'])
    elif k in ('fasta', 'ig'):
        t = TABLES[case['alpha']]
        if case.get('with'):
            t = dict(t, **TABLES[case['with']])
        if any(c not in t for c in case['letters']):
            return 'error'
        names = [t[c] for c in case['letters']]
        if (case['alpha'] != 'AA' or case.get('with')) and not case['circular']:
            names[0] += '5'
            names[-1] += '3'
    else:
        return None
    edges = [(i, i + 1, False) for i in range(len(names) - 1)]
    if case.get('circular'):
        # a residue graph is a simple graph: with two residues the closing edge is the chain edge, labelled
        edges = sorted([e for e in edges if (e[0], e[1]) != (0, len(names) - 1)] + [(0, len(names) - 1, True)])
    return names, edges


def run_impl(case, wd):
    k = case['kind']
    if k == 'seq':
        import vermouth.forcefield
        import polyply.src.gen_itp as gi
        from polyply import MetaMolecule
        mons = gi.split_seq_string([f'{n}:{c}' for n, c in case['ms']])
        meta = quiet(MetaMolecule.from_monomer_seq_linear, vermouth.forcefield.ForceField('x'), mons, 'x')
        return graph_of(meta)
    if k == 'txt':
        return impl_file(wd, 's.txt', '\n'.join(case['lines']) + '\n')
    if k == 'fasta':
        more = ''.join(f"> {KEYWORD[a]} chain {i + 2}\n{letters}\n" for i, (a, letters) in enumerate(case.get('more_records', [])))
        head = f"> {KEYWORD[case['alpha']]} test" if not case.get('with') else f"> lac repressor {case['with']}-binding domain {KEYWORD[case['alpha']]}"
        return impl_file(wd, 's.fasta', head + '\n' + '\n'.join(case['lines']) + '\n' + more)
    if k == 'ig':
        body = list(case['lines'])
        body[-1] += '2' if case['circular'] else '1'
        return impl_file(wd, 's.ig', f"; {KEYWORD[case['alpha']]} test\n; more\n{case.get('title', 'title line')}\n" + '\n'.join(body) + '\n')
    from polyply.src.gen_seq import gen_seq
    out = pathlib.Path(wd) / 'g.json'
    try:
        quiet(gen_seq, 'x', out, case['sequence'], macro_strings=[f'{t}:{lev}:{bf}:{res}-1.0' for t, lev, bf, res in case['macros']],
              connects=connect_records(case), modifications=[f'{i}:{n}' for i, n in case['mods']],
              tags=[f'{i}:{attr}:{v}-1.0' for i, attr, v in case['labels']])
    except Exception as exc:  # noqa
        return ('error', type(exc).__name__)
    res = impl_file(wd, 'g.json', out.read_text())
    return res


def coq_case(case):
    k = case['kind']
    if k == 'seq':
        return "CSeq [" + '; '.join(f"({lit(n)}, {c}%nat)" for n, c in case['ms']) + "]"
    if k == 'txt':
        return f"CTxt {lit(case['lines'])}"
    if k == 'fasta' and case.get('with'):
        return f"CPlainMix {lit(case['with'] == 'DNA')} {lit(case['with'] == 'RNA')} true {lit(case['lines'])}"
    if k == 'fasta':
        return f"CPlain {case['alpha']} {lit(case['lines'])}"
    if k == 'ig':
        return f"CIg {case['alpha']} {lit(bool(case['circular']))} {lit(case['lines'])}"
    macros = '[' + '; '.join(f"({lit(t)}, ({lev}%nat, {bf}%nat, {lit(res)}))" for t, lev, bf, res in case['macros']) + ']'
    cs = '[' + '; '.join(f"({i}%nat, {j}%nat, {a}%nat, {b}%nat)" for i, j, a, b in case['connects']) + ']'
    mods = '[' + '; '.join(f"({i}%nat, {lit(n)})" for i, n in case['mods']) + ']'
    return f"CGen {macros} {lit(case['sequence'])} {cs} {mods}"


def gen_judge(case, impl, wd):
    """gen_seq: labels, seqid ranges, tree shape and the json round trip, from the statement"""
    bad = []
    if not impl[1]:
        bad.append("the residues read back from the .json written by gen_seq are not numbered consecutively from 1 in input order")
    import networkx as nx
    from polyply.src.gen_seq import generate_seq_graph, MacroString, _apply_termini_modifications, _tag_nodes
    from polyply.src.simple_seq_parsers import parse_json
    macros = {t: MacroString(f'{t}:{lev}:{bf}:{res}-1.0') for t, lev, bf, res in case['macros']}
    g = generate_seq_graph(case['sequence'], macros, connect_records(case))
    _apply_termini_modifications(g, [f'{i}:{n}' for i, n in case['mods']])
    _tag_nodes(g, [f'{i}:{attr}:{v}-1.0' for i, attr, v in case['labels']])
    back = parse_json(pathlib.Path(wd) / 'g.json')
    a = (sorted((k, tuple(sorted(d.items()))) for k, d in g.nodes(data=True)), sorted(tuple(sorted(e)) for e in g.edges))
    b = (sorted((k, tuple(sorted(d.items()))) for k, d in back.nodes(data=True)), sorted(tuple(sorted(e)) for e in back.edges))
    if a != b:
        bad.append("the .json written by gen_seq is read back as a different labelled graph")
    # block ranges and sizes
    off = 0
    for idx, (t, size) in enumerate(zip(case['sequence'], case['sizes'])):
        _, lev, bf, res = next(m for m in case['macros'] if m[0] == t)
        for kk in range(off, off + size):
            if kk not in g.nodes or g.nodes[kk].get('seqid') != idx:
                bad.append(f"block {idx} does not occupy the keys {off}..{off + size - 1}")
                break
        for kk in range(off + 1, off + size):
            if not g.has_edge(off + (kk - off - 1) // bf, kk):
                bad.append(f"block {idx}: node {kk - off} is not attached to node {(kk - off - 1) // bf} of the tree")
                break
        for i, attr, v in case['labels']:
            if i == idx and any(back.nodes[kk].get(attr) != v for kk in range(off, off + size) if kk in back.nodes):
                bad.append(f"label {attr}={v} not on every residue of block {idx}")
        stated = {attr for i, attr, v in case['labels'] if i == idx}
        for kk in range(off, off + size):
            extra = [a for a in ('chiral',) if kk in back.nodes and back.nodes[kk].get(a) is not None and a not in stated]
            if extra:
                bad.append(f"residue {kk + 1} of block {idx} carries the label {extra[0]} which no -label option states for that block")
                break
        off += size
    if len(g.nodes) != off:
        bad.append(f"{len(g.nodes)} residues, the sequence of macros states {off}")
        return bad
    # edges: the trees of the blocks plus exactly the bonds the connect records state
    starts0 = [sum(case['sizes'][:i]) for i in range(len(case['sizes']))]
    want_edges = set()
    for idx, (t, size) in enumerate(zip(case['sequence'], case['sizes'])):
        bf = next(m for m in case['macros'] if m[0] == t)[2]
        want_edges |= {(starts0[idx] + (kk - 1) // bf, starts0[idx] + kk) for kk in range(1, size)}
    want_edges |= {tuple(sorted((starts0[i] + a, starts0[j] + b))) for i, j, a, b in case['connects']}
    got_edges = {tuple(sorted(e)) for e in back.edges}
    if got_edges != want_edges:
        bad.append(f"edges of the written graph differ from the specification (block trees + connect records {connect_records(case)}): "
                   f"missing {sorted(want_edges - got_edges)[:4]}, unexpected {sorted(got_edges - want_edges)[:4]}")
    # residue names: the macro's residue, except termini (degree 1 in the whole molecule) of renamed blocks
    want = []
    for idx, (t, size) in enumerate(zip(case['sequence'], case['sizes'])):
        res = next(m for m in case['macros'] if m[0] == t)[3]
        want += [res] * size
    starts = [sum(case['sizes'][:i]) for i in range(len(case['sizes']))]
    for i, newname in case['mods']:
        for kk in range(starts[i], starts[i] + case['sizes'][i]):
            if g.degree(kk) == 1:
                want[kk] = newname
    got = [g.nodes[kk].get('resname') for kk in range(off)]
    if got != want:
        kk = next(i for i in range(off) if got[i] != want[i])
        bad.append(f"residue {kk + 1} is named {got[kk]}, the specification (macros + terminal renaming) states {want[kk]}")
    return bad


HEAD_ITP = """[ moleculetype ]
HEAD 1
[ atoms ]
1 P1 1 HA A 1 0.0 72
2 P1 2 HB A 2 0.0 72
3 P1 2 HB B 3 0.0 72
4 P1 3 HC A 4 0.0 72
[ bonds ]
1 2 1 0.3 1000
2 3 1 0.3 1000
3 4 1 0.3 1000
"""


def file_macro_cases(ctx, wd):
    """gen_seq with a macro taken from a file (-from_file), used once or several times, next to a string macro, with labels on
    some blocks: residues, numbering, edges and -- exactly on the labelled blocks -- the labels, read back from the .json"""
    import pathlib
    from polyply.src.gen_seq import gen_seq
    rng = ctx.rng
    itp = pathlib.Path(wd) / 'head.itp'
    itp.write_text(HEAD_ITP)
    blocks = {'H': (['HA', 'HB', 'HC'], [(0, 1), (1, 2)]), 'A': (['PEO', 'PEO'], [(0, 1)])}
    for _ in range(ctx.n(10, 80)):
        seq = [rng.choice('HHA') for _ in range(rng.randint(2, 4))]
        if 'H' not in seq:
            seq[rng.randrange(len(seq))] = 'H'
        sizes = [len(blocks[t][0]) for t in seq]
        starts = [sum(sizes[:i]) for i in range(len(seq))]
        connects = [(k, k + 1, sizes[k] - 1, 0) for k in range(len(seq) - 1)]
        labels = [(i, rng.choice(['chain', 'chiral']), rng.choice(['X', 'R'])) for i in range(len(seq)) if rng.random() < 0.4]
        out = pathlib.Path(wd) / 'fm.json'
        try:
            quiet(gen_seq, 'x', out, seq, inpath=[itp], from_file=['H:HEAD'], macro_strings=['A:2:1:PEO-1.0'],
                  connects=[f'{i}:{j}:{a}-{b}' for i, j, a, b in connects], tags=[f'{i}:{attr}:{v}-1.0' for i, attr, v in labels])
        except Exception as exc:  # noqa
            ctx.violation('spec', f"gen_seq rejects a valid specification with a macro from a file: {type(exc).__name__}: {exc}",
                          {'file_macro': {'seq': seq, 'labels': labels}})
            continue
        import vermouth.forcefield
        from polyply import MetaMolecule
        meta = quiet(MetaMolecule.from_sequence_file, vermouth.forcefield.ForceField('x'), out, 'x')
        ctx.case(('file_macro', tuple(seq), tuple(labels)), nontrivial=seq.count('H') >= 2 and bool(labels),
                 sample={'sequence': seq, 'labels': labels})
        ctx.feature('gen_seq_macro_from_file')
        want_names = [n for t in seq for n in blocks[t][0]]
        want_edges = sorted({(starts[i] + a, starts[i] + b) for i, t in enumerate(seq) for a, b in blocks[t][1]} |
                            {tuple(sorted((starts[i] + a, starts[j] + b))) for i, j, a, b in connects})
        names, resid_ok, edges = graph_of(meta)
        bad = None
        if names != want_names or not resid_ok:
            bad = f"residues {names} (consecutive numbering {resid_ok}), the specification states {want_names}"
        elif [(a, b) for a, b, _ in edges] != want_edges:
            bad = f"edges {[(a, b) for a, b, _ in edges]}, the specification states {want_edges}"
        else:
            for i, t in enumerate(seq):
                for k in range(starts[i], starts[i] + sizes[i]):
                    want = {attr: v for bi, attr, v in labels if bi == i}
                    got = {attr: meta.nodes[k].get(attr) for attr in ('chain', 'chiral') if meta.nodes[k].get(attr) is not None}
                    if got != want:
                        bad = f"residue {k + 1} (block {i}, macro {t}) carries the labels {got}, the -label options state {want} for its block"
                        break
                if bad:
                    break
        if bad:
            ctx.violation('spec', f"gen_seq (macro from a file, sequence {seq}, labels {labels}): {bad}", {'file_macro': {'seq': seq, 'labels': labels}})


def run(ctx):
    ctx.correspondences += ['-seq builder, parse_txt, parse_fasta, parse_ig (MetaMolecule.from_sequence_file) vs model graphs',
                            'gen_seq -> .json -> from_sequence_file vs model gen_seq_graph',
                            'independent judge: names, numbering, edges, circular label; gen_seq block ranges, tree shape, labels, json round trip']
    rng = ctx.rng
    cases = [c for _, c in core.corpus_cases('C12')]
    # single-residue and circular protein inputs (F20, F21) always exercised
    cases += [{'kind': 'txt', 'toks': ['PEO'], 'lines': ['PEO']},
              {'kind': 'fasta', 'alpha': 'AA', 'letters': ['G'], 'lines': ['G'], 'circular': False},
              {'kind': 'ig', 'alpha': 'AA', 'letters': list('GAV'), 'lines': ['GA', 'V'], 'circular': True},
              {'kind': 'ig', 'alpha': 'DNA', 'letters': list('ACGT'), 'lines': ['AC', 'GT'], 'circular': True}]
    # a history in one process: plain records of every kind before and after a record whose comment names PROTEIN
    # together with a nucleic acid -- the translation of a file depends on that file alone
    plain = [{'kind': 'fasta', 'alpha': a, 'letters': list(l), 'lines': [l[:3], l[3:]], 'circular': False}
             for a, l in (('AA', 'GATCMK'), ('DNA', 'GATTAC'), ('RNA', 'GATCAG'))]
    mixed = [{'kind': 'fasta', 'alpha': 'AA', 'with': w, 'letters': list('MKGATCW'), 'lines': ['MKGA', 'TCW'], 'circular': False} for w in ('DNA', 'RNA')]
    cases += plain + mixed[:1] + plain + mixed[1:] + plain
    cases += gen_cases(rng, ctx.n(240, 2400))
    exprs, keep = [], []
    with systems.Workdir() as wd:
        for case in cases:
            impl = run_impl(case, wd)
            exp = expected(case)
            fp = json.dumps(case, sort_keys=True)
            nres = len(impl[0]) if impl[0] != 'error' else 0
            ctx.case(fp, nontrivial=nres >= 3 and (len(case.get('lines', [])) >= 2 or len(case.get('sequence', [])) >= 2 or case['kind'] == 'seq'),
                     sample={k: v for k, v in case.items() if k in ('kind', 'ms', 'lines', 'alpha', 'circular', 'macros', 'sequence', 'connects', 'mods')})
            ctx.feature('kind_' + case['kind'])
            if case.get('grouped') and any(',' in r for r in connect_records(case)):
                ctx.feature('several_bonds_in_one_connect_record')
            if impl[0] == 'error':
                ctx.feature('rejected')
            if case.get('circular'):
                ctx.feature('circular')
            if case.get('with'):
                ctx.feature('protein_keyword_with_' + case['with'])
            if case.get('title') and set(case['title']) <= set('ACGT'):
                ctx.feature('ig_title_spelled_with_ACGT_only')
            if case.get('more_records'):
                ctx.feature('fasta_with_several_records')
            if exp == 'error':
                if impl[0] != 'error':
                    ctx.violation('spec', f"a sequence with a letter outside the {case['alpha']} alphabet is accepted: {impl[0][:6]}", {'case': case})
            elif exp is not None:
                if impl[0] == 'error':
                    ctx.violation('spec', f"{case['kind']} input rejected with {impl[1]}; expected residues {exp[0][:8]}", {'case': case})
                else:
                    names, resid_ok, edges = impl
                    if names != exp[0] or not resid_ok:
                        ctx.violation('spec', f"{case['kind']} input: residues {names[:10]} (consecutive numbering {resid_ok}), stated {exp[0][:10]}", {'case': case})
                    elif edges != exp[1]:
                        ctx.violation('spec', f"{case['kind']} input: edges {edges[:10]}, stated {exp[1][:10]}", {'case': case})
            elif impl[0] != 'error':
                for b in gen_judge(case, impl, wd)[:2]:
                    ctx.violation('spec', f"gen_seq: {b}", {'case': case})
            else:
                ctx.violation('spec', f"gen_seq rejects a valid specification: {impl[1]}", {'case': case})
            exprs.append('run_case (' + coq_case(case) + ')')
            keep.append((case, impl))
        file_macro_cases(ctx, wd)
    try:
        out = core.coq_eval_cases(ctx, 'seq', PRELUDE, exprs, chunk=80)
    except core.CoqEvalError as exc:
        ctx.note(str(exc)[:800])
        ctx.broken.append('correspondence:sequence readers vs model (evaluation failed)')
        return
    mism = 0
    for (case, impl), r in zip(keep, out):
        if r is None:
            model = 'error'
        else:
            names, edges = r[1]
            model = (list(names), sorted((min(a, b), max(a, b), bool(l)) for a, b, l in edges))
        im = 'error' if impl[0] == 'error' else (impl[0], impl[2])
        if model != im:
            mism += 1
            if mism <= 3:
                ctx.note(f"correspondence ({case['kind']}): model {str(model)[:200]} impl {str(im)[:200]}")
                ctx.extra.setdefault('disagreements', []).append({'case': case})
    ctx.extra['correspondence'] = {'cases': len(keep), 'mismatches': mism}
    if mism:
        ctx.broken.append('correspondence:sequence readers / gen_seq vs model/SeqParse.v')


def search(ctx):
    return


def replay(ctx, data):
    print(json.dumps(data, indent=1, default=str)[:2500])
    if 'file_macro' in data:
        import pathlib
        from polyply.src.gen_seq import gen_seq
        fm = data['file_macro']
        with systems.Workdir() as wd:
            itp = pathlib.Path(wd) / 'head.itp'
            itp.write_text(HEAD_ITP)
            out = pathlib.Path(wd) / 'fm.json'
            n = len(fm['seq'])
            sizes = [3 if t == 'H' else 2 for t in fm['seq']]
            quiet(gen_seq, 'x', out, fm['seq'], inpath=[itp], from_file=['H:HEAD'], macro_strings=['A:2:1:PEO-1.0'],
                  connects=[f'{k}:{k + 1}:{sizes[k] - 1}-0' for k in range(n - 1)], tags=[f'{i}:{a}:{v}-1.0' for i, a, v in fm['labels']])
            g = json.loads(out.read_text())
            for nd in g['nodes']:
                print('replay:', nd)
        return 0
    case = data.get('case')
    if not case:
        return 0
    for k in ('ms', 'macros', 'connects', 'mods', 'labels'):
        if k in case:
            case[k] = [tuple(x) for x in case[k]]
    with systems.Workdir() as wd:
        impl = run_impl(case, wd)
        exp = expected(case)
        if exp == 'error':
            bad = impl[0] != 'error'
        elif exp is not None:
            bad = impl[0] == 'error' or impl[0] != exp[0] or not impl[1] or impl[2] != exp[1]
        else:
            bad = impl[0] == 'error' or bool(gen_judge(case, impl, wd))
    print('replay:', 'statement violated' if bad else 'statement satisfied', impl)
    return 1 if bad else 0
