"""C03 -- gen_coords writes one finite coordinate per topology atom, in topology order; the box.

Proof: Props/C03.v over model/Coords.v (rows = atoms of the expanded [ molecules ] list,
numbered, one coordinate each, for every placement outcome; the molecule loop of
BuildSystem._compose_system for every stream of attempt outcomes), over the option chain
translated from gen_coords / BuildSystem.__init__ (tie T, Gen_boxsel) and the
_compute_box_size formula translated to reals (tie T, Gen_box_R).
Correspondence (tie D): complete gen_coords runs on generated topologies x option sets
(-box / -dens / -c with box / -c with box and -box or -dens / -grid) x seeds: the rows of the
written .gro against model gro_rows, the written box against the translated chain and formula
(PrimFloat), the number of placement attempts per molecule against the model loop; run-time
monitor: every coordinate finite."""
import json
import math

import numpy as np

from harness import core, systems
from harness.coqio import lit, flit, Raw

META = {
    'level': 'proof',
    'technique': 'Coq proofs over the row model, the molecule loop (all attempt-outcome streams), the translated box option chain and density formula; differential correspondence on complete gen_coords runs; run-time finiteness monitor',
    'gen_deps': ['Gen_box', 'Gen_boxsel'],
    'eval_deps': ['theories/model/Coords.vo', 'theories/gen/Gen_box_F.vo', 'theories/gen/Gen_boxsel.vo'],
    'level_text': ("Theorems in Coq (Props/C03.v): for every topology and every placement outcome the rows are exactly the atoms of "
                   "the [ molecules ] entries in order (type repeated count times, atoms in type order) with residue number, residue "
                   "name, atom name, running index and the coordinate produced for that atom; identity and order are independent of "
                   "the placement; the molecule loop ends with every molecule positioned and none dropped for every stream of attempt "
                   "outcomes and terminates when each molecule succeeds within K attempts; the box chain regenerated from "
                   "gen_coords/BuildSystem.__init__ gives structure box > -box > density cube; the regenerated _compute_box_size "
                   "formula cubes to mass*1.6605410/density and a 5-decimal rounding moves the volume by at most 3(e0+d)^2 d. "
                   "Finite coordinates (no NaN/inf) are an IEEE property: monitored on every run, not proved."),
    'level_note': ("Trusted: Coq kernel, translator (option_chain / init_box extractors, assign_rhs for the formula, ** (1/3.) -> "
                   "Rpower x (/3)), harness .gro parser. Axioms: the standard real-number axioms (ClassicalDedekindReals.sig_not_dec, "
                   "sig_forall_dec, functional_extensionality_dep, Classical_Prop.classic) for the two density theorems only. "
                   "vermouth write_gro / TOPDirector.finalize are modelled by contract and validated by the runs."),
    'rule': ("cases = 1-3 generated molecule types (single/multi-atom residues, path/tree/ring) x 1-4 [ molecules ] entries with "
             "repeated names and counts 1-3 x option set {box, dens, structure, structure+box, structure+dens, box+grid} x seed; "
             "non-trivial = >= 2 entries, >= 2 molecule instances of one type and a finished run; distinct by (topology text, options, seed)"
             "; directed / added families (waves 10-12): option combinations (-cycles, -lig, -start on one molecule); crowded boxes with -mi 2"),
}

PRELUDE = """From Coq Require Import ZArith String List Bool PrimFloat.
From PV Require Import TopPre Coords Gen_boxsel FNum Gen_box_F.
Import ListNotations.
Open Scope string_scope.
Definition mk_atom (a : Z * string * string) : atom := {| a_resid := fst (fst a); a_resname := snd (fst a); a_name := snd a |}.
Definition feq3 (a b : float * float * float) : bool :=
  let '(a0, a1, a2) := a in let '(b0, b1, b2) := b in PrimFloat.eqb a0 b0 && PrimFloat.eqb a1 b1 && PrimFloat.eqb a2 b2.
Definition run_case (tys : list (string * list (Z * string * string))) (entries : list (string * nat))
                    (cli tbox : option (float * float * float)) (dens : option float) (masses : list (option float * option float)) :=
  (option_map (map (fun r => (w_resid r, w_resname r, w_name r, w_idx r)))
     (gro_rows (map (fun t => (fst t, map mk_atom (snd t))) tys) entries (fun _ => tt)),
   init_box float (box_choice (float * float * float) float feq3 cli tbox dens)
     (match dens, total_mass PrimFloat.add 0%float (rev masses) with
      | Some d, Some m => box_edge m d
      | _, _ => 0%float end)).
"""


def gen_case(rng):
    ntypes = rng.randint(1, 3)
    moltypes = [systems.gen_moltype(rng, f'M{"ABC"[i]}', nres=rng.randint(1, 5), multi_atom=rng.random() < 0.5) for i in range(ntypes)]
    entries = []
    for _ in range(rng.randint(1, 4)):
        entries.append((rng.choice(moltypes)['name'], rng.randint(1, 3)))
    mode = rng.choice(['box', 'dens', 'struct', 'struct+box', 'struct+dens', 'box+grid', 'dens'])
    case = {'moltypes': moltypes, 'molecules': entries, 'mode': mode, 'seed': rng.randrange(10 ** 6),
            'L': round(rng.uniform(4.0, 6.0), 3), 'L2': round(rng.uniform(6.5, 7.5), 3), 'dens': round(rng.uniform(40.0, 160.0), 2),
            'nsup': rng.randint(1, 2), 'omit_mass': rng.random() < 0.2}
    return vary_masses(rng, case)


def gen_combo_case(rng):
    """option combinations on one molecule: a ring declared cyclic that also hosts ligands and / or has a start residue;
    the written structure is judged like every other one (every atom of the expanded [ molecules ] section, finite)"""
    host = systems.gen_moltype(rng, 'MA', nres=rng.randint(4, 6), shape=rng.choice(['ring', 'ring', 'path']))
    lig = systems.gen_moltype(rng, 'LIG', nres=1, resnames=['LG'])
    other = systems.gen_moltype(rng, 'MB', nres=rng.randint(1, 3), shape='path')
    nlig = rng.randint(1, 2)
    entries = [('MA', 1), ('MB', 1), ('LIG', nlig)] if rng.random() < 0.5 else [('LIG', nlig), ('MA', 1), ('MB', 1)]
    inst = [n for n, c in entries for _ in range(c)]
    ma = inst.index('MA')
    ligs = [i for i, n in enumerate(inst) if n == 'LIG']
    resids = rng.sample(range(1, host['nres'] + 1), nlig)
    use = rng.choice([('cycles', 'lig'), ('cycles', 'lig'), ('cycles', 'lig', 'start'), ('lig', 'start'), ('cycles', 'start'), ('lig',)])
    if host['shape'] != 'ring':
        use = tuple(u for u in use if u != 'cycles') or ('lig',)
    case = {'moltypes': [host, lig, other], 'molecules': entries, 'mode': 'box', 'seed': rng.randrange(10 ** 6),
            'L': 6.0, 'L2': 7.0, 'dens': 100.0, 'nsup': 1, 'omit_mass': False, 'combo': list(use)}
    if 'cycles' in use:
        case['cycles'] = ['MA']
    if 'lig' in use:
        case['ligands'] = [[f"MA#{ma}-{host['resnames'][r - 1]}#{r}", f"LIG#{li}"] for r, li in zip(resids, ligs)]
    if 'start' in use:
        r = rng.randint(1, host['nres'])
        case['start'] = [f"MA#{ma}-{host['resnames'][r - 1]}#{r}" if rng.random() < 0.5 else f"MA-{host['resnames'][r - 1]}#{r}"]
    return case


def gen_crowded_case(rng):
    """a crowded but feasible box with few tries per molecule (-mi 2): whole-molecule attempts fail and are started
    over, and every molecule still ends up in the structure"""
    chain = systems.gen_moltype(rng, 'MA', nres=4, multi_atom=True, shape='path')
    sol = systems.gen_moltype(rng, 'SOL', nres=1, resnames=['SV'])
    entries = [('SOL', rng.randint(35, 42)), ('MA', rng.randint(5, 6)), ('SOL', rng.randint(20, 26)), ('MA', rng.randint(2, 3))]
    return {'moltypes': [chain, sol], 'molecules': entries, 'mode': 'box', 'seed': rng.randrange(10 ** 6),
            'L': round(rng.uniform(2.6, 2.75), 3), 'L2': 7.0, 'dens': 100.0, 'nsup': 1, 'omit_mass': False,
            'maxiter': 2, 'grid_spacing': 0.1, 'combo': ['crowded', 'mi2']}


def vary_masses(rng, case):
    """[ atoms ] masses that differ from the atom-type mass, and massless particles (virtual sites)"""
    for mt in case['moltypes'][1 if case['omit_mass'] else 0:]:
        for a in mt['atoms']:
            r = rng.random()
            if r < 0.2:
                a['mass'] = 0.0
            elif r < 0.4:
                a['mass'] = round(rng.uniform(10.0, 120.0), 2)
    return case


def top_of(case):
    top = systems.top_text(case['moltypes'], case['molecules'])
    if case.get('omit_mass'):
        # masses come from [ atomtypes ]: drop the charge and mass columns of the first molecule type
        mt = case['moltypes'][0]
        for a in mt['atoms']:
            full = f"{a['idx']} {a['atype']} {a['resid']} {a['resname']} {a['name']} {a['cgnr']} {a['charge']} {a['mass']}"
            top = top.replace(full + '\n', ' '.join(full.split()[:6]) + '\n', 1)
    return top


def snake(n, spacing, L):
    """n lattice points, consecutive ones adjacent"""
    k = max(1, int(L / spacing) - 1)
    pts = []
    for z in range(k):
        for y in range(k):
            xs = range(k) if (y + z * k) % 2 == 0 else range(k - 1, -1, -1)
            for x in xs:
                pts.append((0.3 + x * spacing, 0.3 + (y if z % 2 == 0 else k - 1 - y) * spacing, 0.3 + z * spacing))
                if len(pts) == n:
                    return pts
    return pts


def options(case, wd):
    """kwargs for gen_coords and the facts the judge needs"""
    by = {mt['name']: mt for mt in case['moltypes']}
    mode = case['mode']
    kw, facts = {}, {'cli': None, 'tbox': None, 'dens': None}
    if 'box' in mode:
        kw['box'] = np.array([case['L2'] if 'struct' in mode else case['L']] * 3)
        facts['cli'] = [float(x) for x in kw['box']]
    if 'dens' in mode:
        kw['density'] = case['dens']
        facts['dens'] = case['dens']
    if 'struct' in mode:
        # coordinates for the first nsup molecule instances, box L
        rows = []
        inst = [name for name, n in case['molecules'] for _ in range(n)][:case['nsup']]
        natoms = sum(len(by[n]['atoms']) for n in inst)
        pts = snake(natoms, 0.45, case['L'])
        k = 0
        for name in inst:
            for a in by[name]['atoms']:
                rows.append({'resid': a['resid'], 'resname': a['resname'], 'name': a['name'], 'xyz': pts[k]})
                k += 1
        systems.write_gro(f'{wd}/in.gro', rows, [case['L']] * 3)
        kw['coordpath'] = 'in.gro'
        facts['tbox'] = [case['L']] * 3
        facts['supplied'] = rows
    if 'grid' in mode:
        g = np.array([[x, y, z] for x in np.arange(0.5, case['L'], 1.0) for y in np.arange(0.5, case['L'], 1.0)
                      for z in np.arange(0.5, case['L'], 1.0)])
        np.savetxt(f'{wd}/grid.dat', g)
        kw['grid'] = 'grid.dat'
    if case.get('grid_spacing'):
        kw['grid_spacing'] = case['grid_spacing']
    if case.get('cycles'):
        kw['cycles'] = list(case['cycles'])
        kw['cycle_tol'] = 0.3
    if case.get('ligands'):
        kw['ligands'] = [list(x) for x in case['ligands']]
    if case.get('start'):
        kw['start'] = list(case['start'])
    return kw, facts


def total_mass(case):
    """the mass given for the atom, else the mass of its type"""
    by = {mt['name']: mt for mt in case['moltypes']}
    return sum(a['mass'] for name, n in case['molecules'] for _ in range(n) for a in by[name]['atoms'])


def mass_pairs(case):
    by = {mt['name']: mt for mt in case['moltypes']}
    first = case['moltypes'][0]['name'] if case.get('omit_mass') else None
    out = []
    for name, n in case['molecules']:
        for _ in range(n):
            for a in by[name]['atoms']:
                out.append((None if name == first else a['mass'], systems.ATOMTYPES[a['atype']][1]))
    return out


def run_case(case, timeout=90):
    attempts = {}

    def wrap_handle(real):
        def _handle_random_walk(self, molecule, mol_idx, vector_sphere):
            out = real(self, molecule, mol_idx, vector_sphere)
            attempts.setdefault(mol_idx, []).append(bool(out[0]))
            return out
        return _handle_random_walk
    with systems.Workdir() as wd:
        kw, facts = options(case, wd)
        res = systems.run_gen_coords(wd, top_of(case), seed=case['seed'], timeout=timeout, maxiter=case.get('maxiter', 200),
                                     hooks={'polyply.src.build_system:BuildSystem._handle_random_walk': wrap_handle}, **kw)
    res['attempts'] = attempts
    return res, facts


def judge(case, res, facts):
    """from the statement, independent of the model"""
    bad = []
    if not res['ok']:
        return bad
    if 'rows' not in res:
        return ["gen_coords finished but wrote no structure"]
    want = systems.expanded_atoms(case['moltypes'], case['molecules'])
    rows = res['rows']
    if len(rows) != len(want):
        return [f"{len(rows)} atoms written, the expanded [ molecules ] section has {len(want)}"]
    for i, (r, w) in enumerate(zip(rows, want)):
        if (r['resid'], r['resname'], r['name']) != w or r['idx'] != (i + 1) % 100000:
            bad.append(f"row {i + 1} is {(r['resid'], r['resname'], r['name'], r['idx'])}, topology order expects {w + (i + 1,)}")
            break
        if len(r['xyz']) != 3 or not all(math.isfinite(x) for x in r['xyz']):
            bad.append(f"row {i + 1} ({r['raw'].strip()}) has no finite coordinate")
            break
    box = res['box']
    if len(box) != 3 or not all(math.isfinite(b) and b > 0 for b in box):
        bad.append(f"box line {box} is not three positive finite numbers")
    elif facts['tbox'] is not None:
        if any(abs(a - b) > 1e-5 for a, b in zip(box, facts['tbox'])):
            bad.append(f"box written {box}, the input structure has box {facts['tbox']}")
    elif facts['cli'] is not None:
        if any(abs(a - b) > 1e-9 for a, b in zip(box, facts['cli'])):
            bad.append(f"box written {box}, requested {facts['cli']}")
    else:
        vol = total_mass(case) * 1.6605410 / facts['dens']
        e0 = vol ** (1.0 / 3.0)
        d = 5e-6 + 1e-9
        if max(box) - min(box) > 1e-12:
            bad.append(f"density box {box} is not cubic")
        elif abs(box[0] ** 3 - vol) > 3 * (e0 + d) ** 2 * d:
            bad.append(f"density box {box}: volume {box[0] ** 3:.6f} differs from mass/density = {vol:.6f} by more than the 5-decimal rounding")
    return bad


def coq_case(case, facts):
    tys = [(mt['name'], [(a['resid'], a['resname'], a['name']) for a in mt['atoms']]) for mt in case['moltypes']]
    tys_txt = '[' + '; '.join(f"({lit(n)}, [" + '; '.join(f"({lit(r)}, {lit(rn)}, {lit(an)})" for r, rn, an in atoms) + "])" for n, atoms in tys) + ']'
    ent_txt = '[' + '; '.join(f"({lit(n)}, {c}%nat)" for n, c in case['molecules']) + ']'

    def b3(b):
        return 'None' if b is None else f"(Some ({flit(b[0])}, {flit(b[1])}, {flit(b[2])}))"
    dens = 'None' if facts['dens'] is None else f"(Some {flit(facts['dens'])})"
    masses = '[' + '; '.join(f"({'None' if e is None else '(Some ' + flit(e) + ')'}, Some {flit(t)})" for e, t in mass_pairs(case)) + ']'
    return f"run_case {tys_txt} {ent_txt} {b3(facts['cli'])} {b3(facts['tbox'])} {dens} {masses}"


def run(ctx):
    ctx.correspondences += ['rows of the written .gro == model gro_rows on the topology',
                            'written box == translated option chain + density formula (PrimFloat, 5-decimal rounding allowed)',
                            'placement attempts per molecule follow the model loop (index advances only after success)',
                            'run-time monitor: every coordinate finite; independent judge from the expanded [ molecules ] section']
    cases = [c for _, c in core.corpus_cases('C03')]
    cases += [gen_case(ctx.rng) for _ in range(ctx.n(36, 360))]
    cases += [gen_combo_case(ctx.rng) for _ in range(ctx.n(8, 80))]
    cases += [gen_crowded_case(ctx.rng) for _ in range(ctx.n(2, 12))]
    if ctx.broken:
        cases = cases[:10]
    exprs, keep = [], []
    timeouts = 0
    for case in cases:
        if timeouts >= 2:
            ctx.note("two generated systems did not finish within the time limit; remaining runs skipped")
            break
        res, facts = run_case(case, timeout=30 if ctx.broken else 90)
        fp = json.dumps([top_of(case), case['mode'], case['seed'], case['L'], case['dens']])
        if not res['ok']:
            if res['exc_type'] == 'RunTimeout':
                timeouts += 1
            ctx.feature('runs_failed')
            ctx.note(f"gen_coords did not finish on a generated system ({case['mode']}): {res['exc_type']}: {str(res.get('exception'))[:200]}")
            ctx.case(fp, nontrivial=False)
            if 'rows' in res:
                ctx.violation('spec', "gen_coords failed but left an output structure", {'case': case})
            continue
        ninst = sum(n for _, n in case['molecules'])
        ctx.case(fp, nontrivial=len(case['molecules']) >= 2 and any(n >= 2 for _, n in case['molecules']),
                 sample={'molecules': case['molecules'], 'mode': case['mode'], 'atoms': len(res.get('rows', [])), 'box': res.get('box')})
        ctx.feature('mode_' + case['mode'])
        ctx.feature('runs_ok')
        if case.get('combo'):
            ctx.feature('options_' + '+'.join(case['combo']))
        if case.get('omit_mass'):
            ctx.feature('mass_from_atomtypes')
        for b in judge(case, res, facts)[:2]:
            ctx.violation('spec', f"C03 fails on the implementation: {b}", {'case': case, 'failure': b})
        # the loop: per molecule index a run of failures then one success, indices visited in increasing order
        att = res['attempts']
        if any(len(o) > 1 for o in att.values()):
            ctx.feature('runs_with_a_whole_molecule_attempt_started_over')
        for idx, outs in att.items():
            if outs[-1] is not True or any(outs[:-1]):
                ctx.violation('spec', f"molecule {idx}: attempt outcomes {outs}: the loop moved on without a successful attempt", {'case': case})
        if any(i >= ninst for i in att):
            ctx.violation('spec', f"placement attempted for molecule index {max(att)} of {ninst}", {'case': case})
        exprs.append(coq_case(case, facts))
        keep.append((case, res, facts))
    try:
        out = core.coq_eval_cases(ctx, 'coords', PRELUDE, exprs, chunk=30)
    except core.CoqEvalError as exc:
        ctx.note(str(exc)[:1000])
        ctx.broken.append('correspondence:gen_coords output vs model (evaluation failed)')
        return
    mism = 0
    for (case, res, facts), r in zip(keep, out):
        mrows, mbox = r
        diff = None
        rows = res.get('rows')
        if mrows is None:
            diff = 'model: unknown molecule name'
        elif rows is None:
            diff = 'no structure written'
        else:
            m = [tuple(x) for x in mrows[1]]
            impl = [(x['resid'], x['resname'], x['name'], x['idx']) for x in rows]
            if m != impl:
                k = next((i for i, (a, b) in enumerate(zip(m, impl)) if a != b), min(len(m), len(impl)))
                diff = f"rows differ at {k}: model {m[k] if k < len(m) else None} impl {impl[k] if k < len(impl) else None} (lengths {len(m)}/{len(impl)})"
            else:
                tol = 5e-6 + 1e-9 if (facts['tbox'] is None and facts['cli'] is None) else 1e-5 if facts['tbox'] is not None else 1e-12
                if any(abs(a - b) > tol for a, b in zip(mbox, res['box'])):
                    diff = f"box: model {mbox} impl {res['box']}"
        if diff:
            mism += 1
            if mism <= 3:
                ctx.note(f"correspondence: {diff[:400]}")
                ctx.extra.setdefault('disagreements', []).append({'case': case, 'diff': diff[:300]})
    ctx.extra['correspondence'] = {'runs': len(keep), 'mismatches': mism}
    if mism:
        ctx.broken.append('correspondence:gen_coords rows / box vs model/Coords.v + Gen_boxsel + Gen_box')
    retry_cases(ctx)


def retry_cases(ctx):
    """placement outcomes with rewinds: partly supplied chains (supplied and built residues interleaved) in which growth
    steps are refused, so that the walk rewinds over supplied residues; every row must be there, in order, finite"""
    from harness.props import c04
    for _ in range(ctx.n(3, 24)):
        case = c04.plan_rewind(ctx.rng)
        try:
            res, rows_in, plan = c04.run_case(case, timeout=60)
        except ValueError:
            continue
        ctx.case(('rewind', json.dumps(case, sort_keys=True, default=str)), nontrivial=bool(res.get('rewinds')),
                 sample={'residues': case['moltypes'][0]['nres'], 'refused_steps': case['step_fail'], 'rewinds': res.get('rewinds'), 'ok': res['ok']})
        ctx.feature('runs_with_rewind' if res.get('rewinds') else 'runs_without_rewind')
        if not res['ok']:
            if res['exc_type'] != 'RunTimeout':
                ctx.violation('spec', f"gen_coords fails on an accepted input (partly supplied chain, refused growth steps {case['step_fail']}): "
                              f"{res['exc_type']}: {str(res.get('exception'))[:160]}", {'rewind_case': case})
            continue
        want = systems.expanded_atoms(case['moltypes'], case['molecules'])
        rows = res.get('rows') or []
        bad = None
        if len(rows) != len(want):
            bad = f"{len(rows)} atoms written, the expanded [ molecules ] section has {len(want)}"
        else:
            for i, (r, w) in enumerate(zip(rows, want)):
                if (r['resid'], r['resname'], r['name']) != w:
                    bad = f"row {i + 1} is {(r['resid'], r['resname'], r['name'])}, topology order expects {w}"
                    break
                if len(r['xyz']) != 3 or not all(math.isfinite(x) for x in r['xyz']):
                    bad = f"row {i + 1} ({r['raw'].strip()}) has no finite coordinate after {res.get('rewinds')} rewind(s)"
                    break
        if bad:
            ctx.violation('spec', f"C03 fails on the implementation: {bad}", {'rewind_case': case, 'failure': bad})


def search(ctx):
    """a broken obligation without a failing run so far: sweep the option grid on a small system"""
    if ctx.violations:
        return
    rng = ctx.rng
    for mode in ['box', 'dens', 'struct', 'struct+box', 'struct+dens', 'box+grid']:
        for _ in range(3):
            case = gen_case(rng)
            case['mode'] = mode
            res, facts = run_case(case, timeout=40)
            for b in judge(case, res, facts)[:1]:
                ctx.violation('spec', f"C03 fails on the implementation: {b}", {'case': case, 'failure': b})
                return


def replay(ctx, data):
    if 'rewind_case' in data:
        from harness.props import c04
        res, rows_in, plan = c04.run_case(data['rewind_case'], timeout=60)
        bad = [r['raw'].strip() for r in (res.get('rows') or []) if not all(math.isfinite(x) for x in r['xyz'])]
        print('replay: ok', res['ok'], 'rewinds', res.get('rewinds'), 'rows without finite coordinates', bad[:5])
        return 1 if bad or not res['ok'] else 0
    print(json.dumps(data, indent=1, default=str)[:2500])
    case = data.get('case')
    if not case:
        return 0
    case['molecules'] = [tuple(m) for m in case['molecules']]
    for mt in case['moltypes']:
        mt['bonds'] = [tuple(b) for b in mt['bonds']]
    res, facts = run_case(case)
    bad = judge(case, res, facts)
    print('replay:', bad[:3] or ('statement satisfied' if res['ok'] else f"run failed: {res.get('exc_type')}"))
    return 1 if bad else 0
