"""C05 -- generated residues are one step apart, inside the box, never overlapping.

Proof: Props/C05.v over the kernels translated from random_walk._take_step,
linalg_functions.pbc_complete, nonbond_engine.pbc_min_dist, topology.lorentz_berthelot_rule and
the guard skeleton of update_positions / _random_walk / _is_overlap (tie T), plus the engine
invariant (C16) for "accepted => clear" and the pairwise statement over whole histories.
Correspondence: (a) translator validation of take_step / pbc_min_dist / lorentz_berthelot_rule on
PrimFloat against the Python functions; (b) complete gen_coords runs on generated systems with
NonBondEngine.add_positions and RandomWalk.update_positions interposed: every recorded placement
is re-judged against the statement (inside the box, exactly one step from the residue it was
grown from under minimum image, first residue on a grid point, >= 0.1 nm from every positioned
residue, soft-sphere force from positioned non-neighbours within the cut-off <= max_force)."""
import json
import math

import numpy as np

from harness import core, systems
from harness.coqio import lit, flit, Raw

META = {
    'level': 'proof',
    'technique': 'Coq proof over translated step / wrap / minimum-image kernels and the acceptance-guard skeleton; engine-invariant theorem for clearance; run-time re-judging of every placement of real gen_coords runs',
    'gen_deps': ['Gen_linalg', 'Gen_walk', 'Gen_engine', 'Gen_engine_consts', 'Gen_walk_skel'],
    'eval_deps': ['theories/gen/Gen_walk_F.vo', 'theories/gen/Gen_engine_F.vo'],
    'level_text': ("Theorems in Coq (Props/C05.v) over the text regenerated from the source on every run: for every step length, "
                   "start point, unit vector and box the wrapped step lies in [0,L)^3 and, when the box is at least two steps "
                   "wide, its minimum-image distance to the start is exactly the step length; the pair size is the mean of the "
                   "two residue sizes; the start point is a grid element; positions are added only under the overlap test. With the "
                   "engine invariant of C16: a point on which the force query is finite is at least the floor (0.1 nm, the "
                   "constant of the source) from every positioned residue within the cut-off, and after any history of checked "
                   "additions, removals and consolidations no residue added in the history is closer than the floor to any other "
                   "positioned residue. The float kernels agree with numpy on sampled inputs, and every placement of complete "
                   "gen_coords runs on generated systems is re-judged against the statement."),
    'level_note': ("Trusted: Coq kernel, translator and extractors, standard real-number axioms (Print Assumptions). The bound "
                   "'force <= max_force' is enforced by the guard skeleton (T) and monitored on real runs; the exact value of the "
                   "float force sum is not proved. Random choices (vectors, grid index) are universally quantified in the "
                   "theorems; the bendiness Monte-Carlo test only rejects more and is not modelled."),
    'rule': ("end-to-end cases = generated topologies (1-3 molecule types, paths / trees / rings of 1-6 residues, single- and "
             "multi-atom residues, mixed sizes) x boxes (cubic and not) x step factors x force limits x seeds, run through "
             "gen_coords; each accepted placement is one judged item; non-trivial = a run with at least 4 placements of which one "
             "has a positioned residue within the cut-off; distinct by (topology text, options, seed)"
             "; directed / added families (waves 10-12): branched molecules with mixed residue sizes; crowded runs with step factors 1.4-1.8; crowded runs with one try per molecule (limit judged = requested limit)"),
}


def fvec(p):
    return Raw("(" + ", ".join(flit(float(x)) for x in p) + ")")


def validate_kernels(ctx, n):
    import polyply.src.random_walk as rw
    import polyply.src.nonbond_engine as nbe
    from polyply.src.topology import lorentz_berthelot_rule
    rng = ctx.rng
    exprs, want = [], []
    for _ in range(n):
        box = [rng.uniform(1, 8) for _ in range(3)]
        c = [rng.uniform(0, b) for b in box]
        v = np.array([rng.gauss(0, 1) for _ in range(3)])
        v = v / np.linalg.norm(v)
        s = rng.uniform(0.05, 0.9)
        import random as pyrandom
        new, _ = rw._take_step(np.array([v]), s, np.array(c), np.array(box))

        class E:
            boxsize = np.array(box)
        d = float(nbe.NonBondEngine.pbc_min_dist(E, new, np.array(c)))
        a, b = rng.uniform(0.2, 0.9), rng.uniform(0.2, 0.9)
        lb = lorentz_berthelot_rule(a, b, 1.0, 1.0)
        want.append(([float(x) for x in new], d, float(lb[0])))
        exprs.append(f"(take_step {flit(s)} {fvec(c)} {fvec(box)} {fvec(v)}, "
                     f"pbc_min_norm (pbc_min_vec (take_step {flit(s)} {fvec(c)} {fvec(box)} {fvec(v)}) {fvec(c)} {fvec(box)}), "
                     f"fst (lorentz_berthelot_rule {flit(a)} {flit(b)} 1 1))")
    pre = "From Coq Require Import PrimFloat.\nFrom PV Require Import FNum Tproj Gen_linalg_F Gen_walk_F Gen_engine_F.\nOpen Scope float_scope.\n"
    got = core.coq_eval_cases(ctx, 'tv', pre, exprs, chunk=300)
    mism = 0
    for (new, d, sig), g in zip(want, got):
        gnew, gd, gs = list(g[0:3]) if len(g) == 5 else list(g[0]), g[-2], g[-1]
        if len(g) == 5:
            gnew = list(g[0:3])
        if not (core.close(gnew, new, 1e-9, 1e-9) and core.close(gd, d, 1e-9, 1e-9) and core.close(gs, sig, 1e-12, 1e-12)):
            mism += 1
            if mism <= 3:
                ctx.note(f"translator validation: model {g} != impl {(new, d, sig)}")
    ctx.extra['translator_validation'] = {'cases': n, 'mismatches': mism, 'comparison': '1e-9'}
    if mism:
        ctx.broken.append('correspondence:translator-validation take_step/pbc_min_dist/lorentz_berthelot_rule')


def min_image(a, b, box):
    d = np.abs(np.asarray(a) - np.asarray(b)) % box
    d = np.minimum(d, box - d)
    return float(np.linalg.norm(d))


def lj(sig, eps, r):
    return 24 * eps / r * (2 * (sig / r) ** 12 - (sig / r) ** 6)


def gen_system(rng):
    nt = rng.randint(1, 3)
    names = ['MA', 'MB', 'MC'][:nt]
    mts = [systems.gen_moltype(rng, nm, nres=rng.randint(1, 6), multi_atom=rng.random() < 0.3) for nm in names]
    mols = [(rng.choice(names), rng.randint(1, 3)) for _ in range(rng.randint(1, 3))]
    e = rng.uniform(4.5, 7.0)
    box = [e, e, e] if rng.random() < 0.5 else [rng.uniform(4.5, 7.0) for _ in range(3)]
    opts = {'box': [round(b, 3) for b in box], 'step_fudge': rng.choice([1.0, 0.8, 1.2]),
            'max_force': rng.choice([5e4, 1e3, 1e2]), 'nrewind': rng.choice([5, 3]), 'grid_spacing': rng.choice([0.2, 0.5])}
    case = {'moltypes': mts, 'molecules': mols, 'opts': opts, 'seed': rng.randrange(10 ** 6)}
    if rng.random() < 0.35:
        # ligands attached to individual copies of one molecule type, on different (adjacent) residues, of two kinds
        host = systems.gen_moltype(rng, 'MH', nres=rng.randint(5, 9), shape='path')
        l1 = systems.gen_moltype(rng, 'L1', nres=1, resnames=['LA'])
        l2 = systems.gen_moltype(rng, 'L2', nres=1, resnames=['LB'])
        ncopy = rng.randint(2, 4)
        case['moltypes'] = [host, l1, l2]
        case['molecules'] = [('MH', ncopy), ('L1', ncopy), ('L2', ncopy)]
        r0 = rng.randint(2, host['nres'] - 1)
        specs = []
        for c in range(ncopy):
            r = min(host['nres'], max(1, r0 + rng.choice([-1, 0, 1])))
            lig = rng.choice(['L1', 'L2'])
            specs.append([f"MH#{c}-{host['resnames'][r - 1]}#{r}", f"{lig}#{ncopy * (1 if lig == 'L1' else 2) + c}"])
        case['ligands'] = specs
    return case


def gen_crowded(rng):
    """many chains with mixed residue sizes in a tight box, grown with long steps (step factor 1.4-1.8) under a low force
    limit: the trial positions lie far from the previous residue, next to residues that are not near the previous one"""
    mts = [systems.gen_moltype(rng, 'MA', nres=rng.randint(8, 12), shape='path', multi_atom=rng.random() < 0.5)]
    e = rng.uniform(5.5, 6.5)
    opts = {'box': [round(e, 3), round(e * rng.uniform(0.9, 1.1), 3), round(e, 3)], 'step_fudge': rng.choice([1.4, 1.6, 1.8]),
            'max_force': rng.choice([1e3, 1e3, 5e4]), 'nrewind': 5, 'grid_spacing': 0.5}
    return {'moltypes': mts, 'molecules': [('MA', rng.randint(25, 40))], 'opts': opts, 'seed': rng.randrange(10 ** 6), 'crowded': True}


def gen_few_tries(rng):
    """a crowded box with a low force limit and one try per molecule (-mi 1): whole rounds of attempts fail and are started
    over; what is finally accepted still respects the limit that was asked for"""
    chain = systems.gen_moltype(rng, 'MA', nres=4, multi_atom=True, shape='path')
    sol = systems.gen_moltype(rng, 'SOL', nres=1, resnames=['SV'])
    e = round(rng.uniform(2.55, 2.7), 3)
    opts = {'box': [e, e, e], 'step_fudge': 1.0, 'max_force': rng.choice([1e2, 2e2]), 'nrewind': 5, 'grid_spacing': 0.1, 'maxiter': 1}
    return {'moltypes': [chain, sol], 'molecules': [('SOL', rng.randint(35, 42)), ('MA', rng.randint(4, 6)), ('SOL', rng.randint(18, 24)), ('MA', 2)],
            'opts': opts, 'seed': rng.randrange(10 ** 6), 'few_tries': True}


def run_monitored(case, timeout=60):
    """complete gen_coords run with the placement calls recorded and judged"""
    rec = {'placements': [], 'bad': [], 'grid': None}
    ctxs = {}
    opts = case['opts']
    box = np.array(opts['box'], dtype=float)

    def wrap_update(real):
        def update(self, vector_bundle, current_node, prev_node):
            ctxs['cur'] = (self, prev_node, current_node)
            try:
                return real(self, vector_bundle, current_node, prev_node)
            finally:
                ctxs.pop('cur', None)
        return update

    def wrap_add(real):
        def add_positions(self, point, mol_idx, node_key, start=True):
            point = np.array(point, dtype=float)
            item = {'mol': int(mol_idx), 'node': int(node_key), 'start': bool(start), 'point': [float(x) for x in point]}
            bad = []
            if not (np.all(point >= 0) and np.all(point < box)):
                bad.append(f"placed outside the box: {point.tolist()} box {box.tolist()}")
            rows = self.positions
            finite = np.all(np.isfinite(rows), axis=1)
            near = 0
            # neighbours (graph distance <= 1) are excluded from the force, never from the floor
            walker = ctxs.get('cur', (ctxs.get('walker'), None, None))[0]
            mol = walker.molecule if walker is not None else None
            excl = set()
            if mol is not None:
                excl = {self.nodes_to_gndx[(mol_idx, n)] for n in [node_key] + list(mol.neighbors(node_key))}
            force = np.zeros(3)
            gself = self.nodes_to_gndx[(mol_idx, node_key)]
            for g in np.where(finite)[0]:
                d = min_image(point, rows[g], box)
                if d <= self.cut_off:
                    near += 1
                    if d < 0.1 - 1e-12:
                        bad.append(f"placed {d:.6f} nm from positioned residue row {int(g)}")
                    if g not in excl and d > 0:
                        sig, eps = pair_size(self, gself, g), 1.0
                        dv = (point - rows[g])
                        dv = dv - box * np.round(dv / box)
                        force += lj(sig, eps, d) * dv / d
            item['near'] = near
            # the limit is the one that was asked for, whatever the walker carries by now
            if walker is not None and np.linalg.norm(force) > opts['max_force'] * (1 + 1e-9):
                bad.append(f"accepted with force {np.linalg.norm(force):.3f} > max_force {opts['max_force']}"
                           + (f" (the walker works with {walker.max_force})" if walker.max_force != opts['max_force'] else ''))
            if 'cur' in ctxs and not start:
                _, prev, cur = ctxs['cur']
                prevp = self.get_point(mol_idx, prev)
                step = walker.step_fudge * self.get_interaction(mol_idx, mol_idx, prev, cur)[0]
                want = walker.step_fudge * (sizes(self, mol_idx, prev) + sizes(self, mol_idx, cur)) / 2
                item['step'] = float(step)
                if abs(step - want) > 1e-9:
                    bad.append(f"step length {step} != step factor x mean size {want}")
                if 2 * step <= box.min():
                    d = min_image(point, prevp, box)
                    if abs(d - step) > 1e-7:
                        bad.append(f"placed {d} from the residue it was grown from, step length is {step}")
            if start:
                grid = rec['grid']
                if grid is not None and not np.any(np.all(np.abs(grid - point) < 1e-12, axis=1)):
                    bad.append(f"first residue at {point.tolist()} is not a point of the start grid")
            rec['placements'].append(item)
            for b in bad:
                rec['bad'].append({'placement': item, 'failure': b})
            return real(self, point, mol_idx, node_key, start=start)
        return add_positions

    def type_of(eng, g):
        """the residue type of an engine row, read from the TOPOLOGY (template key, else residue name)"""
        topo = rec.get('topo')
        if topo is None:
            return eng.atypes[g]
        if 'rows' not in rec:
            rec['rows'] = {gi: key for key, gi in eng.nodes_to_gndx.items()}
        m, n = rec['rows'][g]
        nd = topo.molecules[m].nodes[n]
        return nd.get('template', nd['resname'])

    def pair_size(eng, ga, gb):
        topo = rec.get('topo')
        if topo is None:
            return eng.interaction_matrix[frozenset([eng.atypes[ga], eng.atypes[gb]])][0]
        return (float(topo.volumes[type_of(eng, ga)]) + float(topo.volumes[type_of(eng, gb)])) / 2

    def sizes(eng, mol_idx, node):
        g = eng.nodes_to_gndx[(mol_idx, node)]
        return pair_size(eng, g, g)

    def wrap_run_molecule(real):
        def run_molecule(self, meta_molecule):
            ctxs['walker'] = self
            self.molecule = meta_molecule
            return real(self, meta_molecule)
        return run_molecule

    def wrap_run_system(real):
        def run_system(self, molecules):
            rec['grid'] = np.array(self.box_grid, dtype=float)
            rec['topo'] = self.topology
            out = real(self, molecules)
            rec['final'] = (self.nonbond_matrix.positions.copy(), float(self.nonbond_matrix.cut_off))
            return out
        return run_system

    hooks = {'polyply.src.random_walk:RandomWalk.update_positions': wrap_update,
             'polyply.src.nonbond_engine:NonBondEngine.add_positions': wrap_add,
             'polyply.src.random_walk:RandomWalk.run_molecule': wrap_run_molecule,
             'polyply.src.build_system:BuildSystem.run_system': wrap_run_system}
    top = systems.top_text(case['moltypes'], case['molecules'])
    with systems.Workdir() as wd:
        extra = {'ligands': [list(x) for x in case['ligands']]} if case.get('ligands') else {}
        res = systems.run_gen_coords(wd, top, seed=case['seed'], hooks=hooks, box=box,
                                     step_fudge=opts['step_fudge'], max_force=opts['max_force'],
                                     nrewind=opts['nrewind'], grid_spacing=opts['grid_spacing'], maxiter=opts.get('maxiter', 200), timeout=timeout, **extra)
    rec['ok'] = res['ok']
    rec['exc'] = None if res['ok'] else f"{res['exc_type']}: {res['exception']}"
    if res['ok'] and 'final' in rec:
        rows, cut = rec['final']
        fin = [r for r in rows if np.all(np.isfinite(r))]
        for i in range(len(fin)):
            for j in range(i + 1, len(fin)):
                d = min_image(fin[i], fin[j], box)
                if d < 0.1 - 1e-12:
                    rec['bad'].append({'failure': f"final structure: two residues {d:.6f} nm apart", 'placement': None})
    rec.pop('final', None)
    rec.pop('grid', None)
    rec.pop('topo', None)
    rec.pop('rows', None)
    return rec


def run(ctx):
    ctx.correspondences += ['translator validation take_step / pbc_min_dist / lorentz_berthelot_rule (PrimFloat vs numpy, 1e-9)',
                            'complete gen_coords runs: every placement re-judged (in box, step length under minimum image, grid start, floor, force limit)',
                            'engine-level probe of _is_overlap on both sides of the 0.1 nm floor and of the force limit, for plain residues and graph neighbours']
    try:
        validate_kernels(ctx, ctx.n(200, 2000))
    except core.CoqEvalError as exc:
        ctx.note(str(exc)[:600])
        ctx.broken.append('correspondence:translator-validation (evaluation failed)')
    search_mixed(ctx)      # force limit with mixed sizes positioned out of topology order
    search_floor(ctx)      # engine-level probe of the 0.1 nm floor / force limit (graph neighbours included); cheap, always run
    cases = [c for _, c in core.corpus_cases('C05')]
    # branched molecules with residues of different size (the parent in the search tree is not the predecessor in build order)
    for _ in range(ctx.n(3, 20)):
        c = gen_system(ctx.rng)
        c.pop('ligands', None)
        c['moltypes'] = [systems.gen_moltype(ctx.rng, 'MA', nres=ctx.rng.randint(5, 8), shape='tree', multi_atom=True)]
        c['molecules'] = [('MA', ctx.rng.randint(1, 2))]
        c['branched'] = True
        cases.append(c)
    cases += [gen_crowded(ctx.rng) for _ in range(ctx.n(2, 16))]
    cases += [gen_few_tries(ctx.rng) for _ in range(ctx.n(2, 12))]
    cases += [gen_system(ctx.rng) for _ in range(ctx.n(14, 150))]
    nplace = 0
    timeouts = 0
    if ctx.broken:
        cases = cases[:14]
    for case in cases:
        if timeouts >= 2:
            ctx.note("two generated systems did not finish within the time limit; remaining runs skipped")
            break
        rec = run_monitored(case, timeout=20 if ctx.broken else 60)
        if not rec['ok'] and 'RunTimeout' in (rec['exc'] or ''):
            timeouts += 1
        nplace += len(rec['placements'])
        ctx.feature('runs_ok' if rec['ok'] else 'runs_failed')
        if case.get('ligands'):
            ctx.feature('runs_with_ligands_on_individual_copies')
        if case.get('crowded'):
            ctx.feature('crowded_runs_with_long_steps')
        if case.get('branched'):
            ctx.feature('branched_molecules_with_mixed_residue_sizes')
        if case.get('few_tries'):
            ctx.feature('crowded_runs_with_one_try_per_molecule')
        ctx.feature('placements', len(rec['placements']))
        ctx.feature('placements_with_neighbours', sum(1 for p in rec['placements'] if p.get('near')))
        if not rec['ok']:
            ctx.note(f"gen_coords did not finish on a generated system: {rec['exc']}")
        for b in rec['bad'][:2]:
            ctx.violation('spec', f"C05 fails on the implementation: {b['failure']}", {'case': case, 'failure': b})
        ctx.case(json.dumps([systems.top_text(case['moltypes'], case['molecules']), case['opts'], case['seed']]),
                 nontrivial=rec['ok'] and len(rec['placements']) >= 4 and any(p.get('near') for p in rec['placements']),
                 sample={'molecules': case['molecules'], 'opts': case['opts'], 'placements': len(rec['placements']),
                         'first': rec['placements'][:2]})
    ctx.extra['monitor'] = {'runs': len(cases), 'placements_judged': nplace}


def search(ctx):
    """after a broken obligation: judge the real kernels against the statement on boundary-directed inputs"""
    import polyply.src.random_walk as rw
    import polyply.src.nonbond_engine as nbe
    rng = ctx.rng
    for _ in range(2000):
        box = np.array([rng.uniform(2, 8) for _ in range(3)])
        c = np.array([rng.choice([0.0, 1e-9, b - 1e-9, rng.uniform(0, b)]) for b in box])
        v = np.array([rng.gauss(0, 1) for _ in range(3)])
        v /= np.linalg.norm(v)
        s = rng.uniform(0.05, box.min() / 2 * 0.999)
        new, _ = rw._take_step(np.array([v]), s, c, box)

        class E:
            boxsize = box
        d = float(nbe.NonBondEngine.pbc_min_dist(E, new, c))
        why = None
        if not (np.all(new >= 0) and np.all(new < box)):
            why = f"step result {new.tolist()} outside the box {box.tolist()}"
        elif abs(d - s) > 1e-7:
            why = f"minimum-image distance {d} between the new point and the start differs from the step length {s}"
        elif abs(min_image(new, c, box) - s) > 1e-7:
            why = f"the new point is {min_image(new, c, box)} from the start, step length {s}"
        if why:
            ctx.violation('search', why, {'kernel': '_take_step/pbc_min_dist', 'coord': c.tolist(), 'vector': v.tolist(),
                                          'step': s, 'box': box.tolist(), 'why': why, 'broken': ctx.broken})
            return
    if search_floor(ctx):
        return
    for _ in range(3):
        case = gen_system(rng)
        case['opts']['max_force'] = 1e2
        rec = run_monitored(case, timeout=20)
        if rec['bad']:
            ctx.violation('search', f"C05 fails on the implementation: {rec['bad'][0]['failure']}", {'case': case, 'failure': rec['bad'][0]})
            return


def search_floor(ctx):
    """engine-level probe of the 0.1 nm floor and the force limit on both sides of each threshold"""
    import polyply.src.nonbond_engine as nbe
    import polyply.src.random_walk as rw
    import networkx as nx
    box = np.array([5.0, 5.0, 5.0])
    # 0.0: a candidate bit-identical to a positioned residue (two molecules drawing the same start grid point)
    for d in [0.0, 1e-12, 0.02, 0.05, 0.09, 0.0999, 0.1001, 0.2, 0.45, 0.6]:
        for cross in (False, True):
            q = np.array([0.03, 2.0, 2.0]) if cross else np.array([2.0, 2.0, 2.0])
            p = (q - np.array([d, 0, 0])) % box
            for sig, max_force, linked in ((0.5, 1e2, False), (0.5, 5e4, False), (0.05, 1e2, False), (0.05, 5e4, False),
                                           (0.5, 5e4, True), (0.05, 1e2, True)):
                positions = np.ones((2, 3)) * np.inf
                positions[0] = q
                eng = nbe.NonBondEngine(positions, {(0, 0): 0, (0, 1): 1}, ['A', 'A'], {frozenset(['A']): (sig, 1.0)},
                                        None, None, 1.0, box)
                g = nx.Graph()
                g.add_nodes_from([0, 1])
                if linked:
                    g.add_edge(0, 1)          # the positioned residue is a graph neighbour (ring closure): no force, but the floor holds
                walker = rw.RandomWalk(0, eng, max_force=max_force, maxdim=box)
                walker.molecule = g
                overlap = bool(walker._is_overlap(p, 1))
                f = abs(lj(sig, 1.0, d)) if d > 0 else float('inf')
                want = d < 0.1 or (not linked and f > max_force)
                if overlap != want:
                    ctx.violation('search', f"_is_overlap at distance {d} from a positioned {'graph neighbour' if linked else 'residue'} (size {sig}, force {f:.3f}, "
                                  f"max_force {max_force}) returned {overlap}, the statement requires {want}",
                                  {'probe': 'floor', 'd': d, 'cross_boundary': cross, 'max_force': max_force, 'observed': overlap,
                                   'expected': want, 'linked': linked, 'broken': ctx.broken})
                    return True
    return False


MIXED_SIZES = {'S': 0.2, 'B': 0.6}
MIXED_BOX = np.array([6.0, 6.0, 6.0])


def mixed_probe(atypes, order, pts, p, max_force):
    """(observed _is_overlap, required by the statement, net force) for a small residue at p"""
    import polyply.src.nonbond_engine as nbe
    import polyply.src.random_walk as rw
    import networkx as nx
    box = MIXED_BOX
    matrix = {frozenset([a, b]): ((MIXED_SIZES[a] + MIXED_SIZES[b]) / 2, 1.0) for a in MIXED_SIZES for b in MIXED_SIZES}
    n = len(pts)
    positions = np.ones((n + 1, 3)) * np.inf
    eng = nbe.NonBondEngine(positions, {(0, k): k for k in range(n + 1)}, atypes, matrix, None, None, 1.1, box)
    for k in order:
        eng.add_positions(np.array(pts[k]), 0, k, start=False)
    g = nx.Graph()
    g.add_nodes_from(range(n + 1))
    walker = rw.RandomWalk(0, eng, max_force=max_force, maxdim=box)
    walker.molecule = g
    overlap = bool(walker._is_overlap(np.array(p), n))
    force = np.zeros(3)
    floor = False
    for k in range(n):
        dv = np.array(p) - np.array(pts[k])
        dv = dv - box * np.round(dv / box)
        dist = float(np.linalg.norm(dv))
        if dist < 0.1:
            floor = True
        if dist <= 1.1:
            sig, eps = matrix[frozenset([atypes[k], 'S'])]
            force += lj(sig, eps, dist) * dv / dist
    f = float(np.linalg.norm(force))
    return overlap, floor or f > max_force, f


def search_mixed(ctx):
    """engine-level probe of the force limit with residues of different sizes that were positioned in an
    order different from their order in the topology: the limit must be judged with the sizes of the
    residues actually nearby"""
    rng = ctx.rng
    for trial in range(ctx.n(40, 200)):
        n = rng.randint(3, 6)
        atypes = [rng.choice('SB') for _ in range(n)] + ['S']
        pts = [[rng.uniform(0.5, 5.5) for _ in range(3)] for _ in range(n)]
        order = list(range(n))
        rng.shuffle(order)
        target = rng.randrange(n)
        d = rng.choice([0.3, 0.4, 0.5, 0.6, 0.7])
        vec = np.array([rng.gauss(0, 1) for _ in range(3)])
        p = ((np.array(pts[target]) + d * vec / np.linalg.norm(vec)) % MIXED_BOX).tolist()
        max_force = rng.choice([1e2, 1e3, 5e4])
        overlap, want, f = mixed_probe(atypes, order, pts, p, max_force)
        if abs(f - max_force) < 1e-6 * max_force:
            continue
        ctx.feature('mixed_size_force_probe')
        if overlap != want:
            ctx.violation('search', f"_is_overlap for a small residue at {d} nm from residue {target} (type {atypes[target]}) with residues {atypes[:n]} positioned in order {order}: "
                          f"returned {overlap}, net force {f:.3f} against max_force {max_force} requires {want}",
                          {'probe': 'mixed', 'atypes': atypes, 'order': order, 'points': pts, 'p': p,
                           'max_force': max_force, 'observed': overlap, 'expected': want})
            return True
    return False


def replay(ctx, data):
    print(json.dumps(data, indent=1, default=str)[:3000])
    if data.get('probe') == 'mixed':
        overlap, want, f = mixed_probe(data['atypes'], data['order'], data['points'], data['p'], data['max_force'])
        print(f'replay: _is_overlap returned {overlap}, net force {f:.3f}, the statement requires {want}')
        return 0 if overlap == want else 1
    if data.get('probe') == 'floor':
        class C:
            violations = []

            def violation(self, *a):
                self.violations.append(a)
            broken = []
        c = C()
        search_floor(c)
        print('replay:', c.violations[:1] or 'floor and force limit respected')
        return 1 if c.violations else 0
    if 'kernel' in data:
        import polyply.src.random_walk as rw
        new, _ = rw._take_step(np.array([data['vector']]), data['step'], np.array(data['coord']), np.array(data['box']))
        box = np.array(data['box'])
        ok = np.all(new >= 0) and np.all(new < box) and abs(min_image(new, data['coord'], box) - data['step']) < 1e-7
        print('replay: new point', new.tolist())
        return 0 if ok else 1
    case = data.get('case')
    if not case:
        return 0
    case['molecules'] = [tuple(m) for m in case['molecules']]
    for mt in case['moltypes']:
        mt['bonds'] = [tuple(b) for b in mt['bonds']]
    rec = run_monitored(case)
    print('replay:', rec['bad'][:3] or 'statement satisfied on this run')
    return 1 if rec['bad'] else 0
