"""C16 -- the neighbour engine always reflects exactly the currently positioned residues.

Proof: Props/C16.v (invariant over all guarded histories, last-write refinement, exact force
scope; translated kernels: LJ force = -dV/dr, minimum image symmetric / periodic / <= direct).
Correspondence (tie D): the real NonBondEngine driven through generated histories of
add_positions / remove_positions / concatenate_trees / get_point / compute_force_point versus
model/Engine.v instantiated with the translated pbc_min_dist on PrimFloat; compared after every
operation: position rows, defined_idxs, and for force queries the set of contributing
residues / the infinite verdict.  The tree-size threshold (5000 in the source, regenerated)
is reached with 6 points by presenting KD-trees to the engine through a proxy that reports
n*1000 (so that the branch at nonbond_engine.py:160-166 runs in every history).
The implementation state is also judged directly (the four views agree; queries equal a brute
force over the rows)."""
import json
import math

import numpy as np

from harness import core
from harness.coqio import lit, flit, Raw

META = {
    'level': 'proof',
    'technique': 'Coq invariant/refinement proof over an engine state-machine model plus theorems over translated LJ and minimum-image kernels; differential correspondence on operation histories',
    'gen_deps': ['Gen_engine', 'Gen_engine_consts'],
    'eval_deps': ['theories/model/Engine.vo', 'theories/gen/Gen_engine_F.vo', 'theories/gen/Gen_engine_consts.vo'],
    'level_text': ("Theorems in Coq (Props/C16.v), for every initial position table, every history of add/remove/consolidate in "
                   "which add targets an unpositioned residue, every tree threshold and every distance predicate: the search-tree "
                   "index lists hold exactly the positioned rows, each once (invariant by induction over the history); the row "
                   "table equals the abstract last-write-wins map; a force query sums over exactly the positioned residues within "
                   "the cut-off minus the exclusions, each once across all trees, and is infinite exactly when one of them is below "
                   "the floor. Over R, for the text regenerated from nonbond_engine.py on every run: the pair force is minus the "
                   "derivative of the 12-6 potential along the unit vector (Coquelicot), the minimum-image vector is symmetric, "
                   "invariant under integer box translations and not longer than the direct distance. The state-machine model is "
                   "tied to the code by comparing state and query results after every operation of generated histories, including "
                   "emptying a tree, re-adding and crossing the tree threshold."),
    'level_note': ("Trusted: Coq kernel + vm_compute; translator; standard real-number axioms (Print Assumptions); scipy KDTree's "
                   "periodic query is modelled by the translated pbc_min_dist and validated by the runs; float evaluation of the "
                   "model versus numpy agrees to 1e-9 (no rounding proof). Histories that add a position twice without removal are "
                   "outside the model (API precondition; C17 shows polyply's callers respect it) and are not generated."),
    'rule': ("cases = engines of 3-14 residues (1-3 molecules, random non-cubic boxes, some residues prepositioned, built with "
             "the constructor or from_topology) x random guarded histories of 4-25 operations with interleaved get/force queries; "
             "non-trivial = the history contains a remove of a positioned residue and a force query with at least one residue in "
             "range; distinct by the full (initial table, history) fingerprint"
             "; directed / added families (waves 10-12): node keys passed as list / tuple / generator / iterator / dict view"),
}

SCALE = 1000


class ProxyTree:
    """what the engine sees instead of scipy.spatial.KDTree: same queries, n scaled so that the
    tree threshold of the source is crossed with a handful of points"""
    def __init__(self, data, **kw):
        import scipy.spatial
        self.t = scipy.spatial.KDTree(np.asarray(data, dtype=float).reshape(-1, 3), **kw)
        self.n = self.t.n * SCALE
        self.data = self.t.data

    def sparse_distance_matrix(self, other, r):
        return self.t.sparse_distance_matrix(other.t, r)


class FakeSpatial:
    KDTree = ProxyTree


def gen_case(rng):
    nmol = rng.randint(1, 3)
    sizes = [rng.randint(1, 6) for _ in range(nmol)]
    # copies of one molecule type that differ in a residue (a ligand attached to individual copies): same name, same
    # number of residues, other residue types
    same_name = nmol >= 2 and rng.random() < 0.35
    if same_name:
        sizes = [sizes[0]] * nmol
    box = [round(rng.uniform(2.0, 6.0), 3) for _ in range(3)]
    if rng.random() < 0.3:
        box = [box[0]] * 3
    types = ['A', 'B', 'C']
    vols = {t: round(rng.uniform(0.2, 0.9), 3) for t in types}
    nodes = []
    for m, sz in enumerate(sizes):
        keys = rng.sample(range(0, 3 * sz + 2), sz)
        for k in keys:
            nodes.append((m, k, rng.choice(types)))
    n = len(nodes)

    def rnd_point(near=None):
        if near is not None and rng.random() < 0.6:
            d = rng.choice([0.05, 0.0999, 0.1001, 0.3, 0.8, 1.5])
            v = np.array([rng.gauss(0, 1) for _ in range(3)])
            v = v / np.linalg.norm(v) * d
            p = (np.array(near) + v) % np.array(box)
            return [float(x) for x in p]
        return [rng.uniform(0, b * 0.999) for b in box]
    pos = [None] * n
    for g in range(n):
        if rng.random() < 0.35:
            pos[g] = rnd_point()
    init_pos = list(pos)
    ops = []
    for _ in range(rng.randint(4, 25)):
        r = rng.random()
        defined = [g for g in range(n) if pos[g] is not None]
        undefined = [g for g in range(n) if pos[g] is None]
        if r < 0.35 and undefined:
            g = rng.choice(undefined)
            near = pos[rng.choice(defined)] if defined else None
            p = rnd_point(near)
            pos[g] = p
            ops.append(('add', rng.random() < 0.5, g, p))
        elif r < 0.55 and (defined or undefined):
            m = rng.randrange(nmol)
            cand = [g for g in range(n) if nodes[g][0] == m]
            gs = rng.sample(cand, rng.randint(1, len(cand)))
            if rng.random() < 0.2:
                gs = gs + gs[:1]
            for g in gs:
                pos[g] = None
            ops.append(('remove', m, gs))
        elif r < 0.62:
            ops.append(('concat',))
        elif r < 0.72:
            ops.append(('get', rng.randrange(n)))
        else:
            g = rng.randrange(n)
            near = pos[rng.choice(defined)] if defined else None
            p = rnd_point(near)
            m = nodes[g][0]
            cand = [h for h in range(n) if nodes[h][0] == m]
            excl = rng.sample(cand, rng.randint(0, min(3, len(cand))))
            ops.append(('force', g, p, excl))
    return {'nodes': nodes, 'box': box, 'vols': vols, 'init': init_pos, 'ops': ops,
            'via_topology': rng.random() < 0.5 or same_name, 'cut': round(rng.uniform(0.6, 2.2), 3), 'same_name': same_name}


def make_engine(case):
    import networkx as nx
    import polyply.src.nonbond_engine as nbe
    nodes, box = case['nodes'], np.array(case['box'])
    n = len(nodes)
    if case['via_topology']:
        mols = []
        nmol = max(m for m, _, _ in nodes) + 1
        for m in range(nmol):
            g = nx.Graph()
            for gi, (mm, k, t) in enumerate(nodes):
                if mm == m:
                    attrs = {'resname': t}
                    if case['init'][gi] is not None:
                        attrs['position'] = np.array(case['init'][gi])
                    g.add_node(k, **attrs)
            g.mol_name = 'm' if case.get('same_name') else f'm{m}'
            mols.append(g)

        class Top:
            volumes = case['vols']
            bending = {}
            molecules = mols          # the engine addresses molecules by their index in the topology
        eng = nbe.NonBondEngine.from_topology(mols, Top, box)
    else:
        positions = np.ones((n, 3)) * np.inf
        for gi, p in enumerate(case['init']):
            if p is not None:
                positions[gi] = p
        n2g = {(m, k): gi for gi, (m, k, t) in enumerate(nodes)}
        types = [t for _, _, t in nodes]
        inter = {}
        for a in set(types):
            for b in set(types):
                inter[frozenset([a, b])] = ((case['vols'][a] + case['vols'][b]) / 2, 1.0)
        eng = nbe.NonBondEngine(positions, n2g, types, inter, None, None, case['cut'], box)
    return eng


def impl_state(eng):
    pos = [None if not np.all(np.isfinite(r)) else [float(x) for x in r] for r in eng.positions]
    return {'pos': pos, 'lists': [[int(g) for g in l] for l in eng.defined_idxs]}


def judge_state(eng, shadow):
    """the four views agree and the rows equal the last writes"""
    bad = []
    st = impl_state(eng)
    flat = [g for l in st['lists'] for g in l]
    if len(flat) != len(set(flat)):
        bad.append(f"an index occurs twice in defined_idxs {st['lists']}")
    if set(flat) != {g for g, p in enumerate(st['pos']) if p is not None}:
        bad.append(f"defined_idxs {st['lists']} != positioned rows {[g for g, p in enumerate(st['pos']) if p is not None]}")
    for g, p in enumerate(st['pos']):
        if p != shadow[g]:
            bad.append(f"row {g} is {p}, last write was {shadow[g]}")
    tmap = {int(k): int(v) for k, v in eng.gndx_to_tree.items()}
    exp = {g: i for i, l in enumerate(st['lists']) for g in l}
    if tmap != exp:
        bad.append(f"gndx_to_tree {tmap} != membership in defined_idxs {exp}")
    if len(eng.position_trees) != len(eng.defined_idxs):
        bad.append("number of trees != number of index lists")
    else:
        for i, (tree, l) in enumerate(zip(eng.position_trees, eng.defined_idxs)):
            data = np.asarray(tree.data).reshape(-1, 3)
            want = eng.positions[l].reshape(-1, 3) if len(l) else np.zeros((0, 3))
            if data.shape != want.shape or not np.array_equal(data, want):
                bad.append(f"tree {i} does not hold the current rows of its index list")
    return bad


def brute_force(eng, shadow, p, excl, cut):
    box = np.asarray(eng.boxsize, dtype=float)
    hits, inf = [], False
    for g, q in enumerate(shadow):
        if q is None:
            continue
        d = np.abs(np.array(p) - np.array(q)) % box
        d = np.minimum(d, box - d)
        dist = float(np.linalg.norm(d))
        if dist <= cut:
            hits.append((g, dist))
            if dist < 0.1:
                inf = True
    return inf, sorted(g for g, _ in hits if g not in excl), hits


def run_impl(case):
    """drive the real engine; returns (observations per op, spec failures)"""
    import polyply.src.nonbond_engine as nbe
    real_spatial = nbe.scipy.spatial
    real_lj = nbe.POTENTIAL_FUNC['LJ']

    class FakeScipy:
        spatial = FakeSpatial
    real_scipy = nbe.scipy
    nbe.scipy = FakeScipy
    contrib = []

    def rec(dist, point, ref, params):
        contrib.append((float(dist), [float(x) for x in ref], tuple(float(x) for x in params)))
        return real_lj(dist, point, ref, params)
    nbe.POTENTIAL_FUNC['LJ'] = rec
    obs, bad = [], []
    try:
        eng = make_engine(case)
        nodes = case['nodes']
        shadow = list(case['init'])
        cut = float(eng.cut_off)
        st0 = impl_state(eng)
        bad += [('init', b) for b in judge_state(eng, shadow)]
        for i, op in enumerate(case['ops']):
            if op[0] == 'add':
                _, start, g, p = op
                eng.add_positions(np.array(p), nodes[g][0], nodes[g][1], start=start)
                shadow[g] = list(p)
                obs.append(('state', impl_state(eng)))
            elif op[0] == 'remove':
                _, m, gs = op
                # node_keys is documented as any iterable: lists, tuples, dict views and one-shot iterators alike
                keys = [nodes[g][1] for g in gs]
                form = (i + len(gs)) % 5
                eng.remove_positions(m, keys if form == 0 else tuple(keys) if form == 1 else (k for k in keys) if form == 2
                                     else iter(keys) if form == 3 else dict.fromkeys(keys).keys())
                for g in gs:
                    shadow[g] = None
                obs.append(('state', impl_state(eng)))
            elif op[0] == 'concat':
                eng.concatenate_trees()
                obs.append(('state', impl_state(eng)))
            elif op[0] == 'get':
                r = eng.get_point(nodes[op[1]][0], nodes[op[1]][1])
                r = None if not np.all(np.isfinite(r)) else [float(x) for x in r]
                obs.append(('get', r))
                if r != shadow[op[1]]:
                    bad.append((i, f"get_point of row {op[1]} returned {r}, last write was {shadow[op[1]]}"))
            else:
                _, g, p, excl = op
                contrib.clear()
                f = eng.compute_force_point(np.array(p), nodes[g][0], nodes[g][1], exclude=[nodes[h][1] for h in excl])
                isinf = bool(np.isscalar(f) and f == np.inf)
                rows = []
                box__ = np.asarray(eng.boxsize, dtype=float)
                for dist, ref, params in contrib:
                    # the neighbour is handed over as its position or as a periodic image of it
                    cand = [h for h, q in enumerate(shadow) if q is not None
                            and np.allclose((np.array(q) - np.array(ref)) / box__, np.round((np.array(q) - np.array(ref)) / box__), atol=1e-9)]
                    rows.append(cand[0] if len(cand) == 1 else -1)
                binf, bhits, ball = brute_force(eng, shadow, p, excl, cut)
                obs.append(('force', 'inf' if isinf else sorted(rows)))
                margin = [d for _, d in ball if abs(d - cut) < 1e-9 or abs(d - 0.1) < 1e-12]
                if not margin and not isinf and not binf:
                    # value of the force: sum over the contributors of -dV/dr along the minimum-image unit vector
                    box_ = np.asarray(eng.boxsize, dtype=float)
                    want_f = np.zeros(3)
                    for h in bhits:
                        dv = np.array(p) - np.array(shadow[h])
                        dv = dv - box_ * np.round(dv / box_)
                        r_ = float(np.linalg.norm(dv))
                        sig_, eps_ = eng.interaction_matrix[frozenset([eng.atypes[eng.nodes_to_gndx[(nodes[g][0], nodes[g][1])]], eng.atypes[h]])]
                        want_f += 24 * eps_ / r_ * (2 * (sig_ / r_) ** 12 - (sig_ / r_) ** 6) * dv / r_
                    got_f = np.zeros(3) if np.isscalar(f) else np.asarray(f, dtype=float)
                    if not np.allclose(got_f, want_f, rtol=1e-7, atol=1e-7 * (1 + np.abs(want_f).max())):
                        bad.append((i, f"force on point {p} is {got_f.tolist()}, the sum of -dV/dr along the minimum-image vectors of the "
                                       f"contributors {bhits} is {want_f.tolist()}"))
                if not margin:
                    if isinf != binf:
                        bad.append((i, f"force query at {p}: infinite={isinf} but brute force over the rows says {binf}"))
                    elif not isinf and sorted(rows) != bhits:
                        bad.append((i, f"force query at {p} excl {excl}: contributors {sorted(rows)} != positioned residues within the cut-off {bhits}"))
                    if not isinf:
                        for (dist, ref, params), h in zip(contrib, rows):
                            want = (case['vols'][nodes[g][2]] + case['vols'][nodes[h][2]]) / 2 if h >= 0 else None
                            if h >= 0 and case['via_topology'] and abs(params[0] - want) > 1e-12:
                                bad.append((i, f"pair size {params[0]} for residues {g},{h} != mean of their sizes {want}"))
            if op[0] in ('add', 'remove', 'concat'):
                bad += [(i, b) for b in judge_state(eng, shadow)]
        return st0, cut, obs, bad
    finally:
        nbe.scipy = real_scipy
        nbe.POTENTIAL_FUNC['LJ'] = real_lj


PRELUDE = """From Coq Require Import PrimFloat.
From PV Require Import FNum Engine Gen_engine_F Gen_engine_consts.
Definition fv := FNum.vec.
Definition dist (box p q : fv) := pbc_min_norm (pbc_min_vec p q box).
Definition within (box : fv) (cut : float) (p q : fv) := nleb (dist box p q) cut.
Definition tooclose (box p q : fv) := nltb (dist box p q) overlap_floor.
Definition thr := Z.to_nat (tree_threshold / 1000)%Z.
Inductive q := QOp (o : op fv) | QGet (g : nat) | QForce (p : fv) (excl : list nat).
Definition obs := (nat * list (option fv) * list (list nat) * list nat)%type.
Fixpoint play (box : fv) (cut : float) (s : eng fv) (qs : list q) : list obs :=
  match qs with
  | [] => []
  | QOp o :: r => let s' := step thr s o in (0%nat, e_pos s', rev (e_lists s'), []) :: play box cut s' r
  | QGet g :: r => (1%nat, [get s g], [], []) :: play box cut s r
  | QForce p excl :: r =>
      (match force (within box cut) (tooclose box) s p excl with
       | FInf => (2%nat, [], [], [])
       | FSum cs => (3%nat, [], [], cs) end) :: play box cut s r
  end.
Definition go (box : fv) (cut : float) (pos : list (option fv)) (qs : list q) :=
  let s := init pos in ((e_pos s, rev (e_lists s)), play box cut s qs).
"""


def fvec(p):
    return Raw("(" + ", ".join(flit(x) for x in p) + ")")


def optvec(p):
    return Raw("None") if p is None else Raw(f"(Some {fvec(p)})")


def coq_case(case, cut):
    qs = []
    for op in case['ops']:
        if op[0] == 'add':
            qs.append(f"QOp (Add {lit(op[1])} {op[2]}%nat {fvec(op[3])})")
        elif op[0] == 'remove':
            qs.append(f"QOp (Remove {lit(op[2], 'nat')})")
        elif op[0] == 'concat':
            qs.append("QOp Concat")
        elif op[0] == 'get':
            qs.append(f"QGet {op[1]}%nat")
        else:
            qs.append(f"QForce {fvec(op[2])} {lit(op[3], 'nat')}")
    pos = "[" + "; ".join(str(optvec(p)) for p in case['init']) + "]"
    return f"go {fvec(case['box'])} {flit(cut)} {pos} [{'; '.join(qs)}]"


def unopt(x):
    if x is None:
        return None
    return [float(v) for v in x[1]]


def compare(case, st0, obs, model):
    (mpos0, mlists0), mobs = model[0:2], model[2] if len(model) > 2 else None
    # Coq prints ((a, b), c) flattened as (a, b, c)
    mpos0, mlists0, mobs = model
    diffs = []
    if [unopt(x) for x in mpos0] != st0['pos'] or [list(l) for l in mlists0] != st0['lists']:
        diffs.append(('init', {'model': ([unopt(x) for x in mpos0], mlists0), 'impl': st0}))
    for i, (o, m) in enumerate(zip(obs, mobs)):
        kind, mp, ml, mc = m
        if o[0] == 'state':
            if kind != 0 or [unopt(x) for x in mp] != o[1]['pos'] or [list(l) for l in ml] != o[1]['lists']:
                diffs.append((i, {'model': ([unopt(x) for x in mp], ml), 'impl': o[1]}))
        elif o[0] == 'get':
            if kind != 1 or unopt(mp[0]) != o[1]:
                diffs.append((i, {'model': unopt(mp[0]) if mp else None, 'impl': o[1]}))
        else:
            mres = 'inf' if kind == 2 else sorted(mc)
            if mres != o[1]:
                diffs.append((i, {'model': mres, 'impl': o[1]}))
    return diffs


def validate_kernels(ctx, n):
    """translator validation: FNum evaluation of lj_force / pbc_min_dist vs the Python functions"""
    import polyply.src.nonbond_engine as nbe
    rng = ctx.rng
    exprs, want = [], []
    for _ in range(n):
        box = [rng.uniform(1, 8) for _ in range(3)]
        a = [rng.uniform(-3, 12) for _ in range(3)]
        b = [rng.uniform(-3, 12) for _ in range(3)]
        sig, eps, d = rng.uniform(0.2, 1.0), rng.uniform(0.5, 2.0), rng.uniform(0.11, 2.0)

        class E:
            boxsize = np.array(box)
        pm = float(nbe.NonBondEngine.pbc_min_dist(E, np.array(a), np.array(b)))
        f = nbe._lennard_jones_force(d, np.array(a), np.array(b), (sig, eps))
        want.append((pm, [float(x) for x in f]))
        exprs.append(f"(pbc_min_norm (pbc_min_vec {fvec(a)} {fvec(b)} {fvec(box)}), "
                     f"lj_force {flit(d)} {fvec(a)} {fvec(b)} ({flit(sig)}, {flit(eps)}))")
    got = core.coq_eval_cases(ctx, 'tv', "From Coq Require Import PrimFloat.\nFrom PV Require Import FNum Gen_engine_F.\n", exprs, chunk=300)
    mism = 0
    for (pm, f), g in zip(want, got):
        gpm, gf = g[0], list(g[1]) if len(g) == 2 else list(g[1:])
        if not (core.close(gpm, pm, 1e-9, 1e-12) and core.close(list(gf), f, 1e-9, 1e-12)):
            mism += 1
            if mism <= 3:
                ctx.note(f"translator validation: model ({gpm},{gf}) != impl ({pm},{f})")
    ctx.extra['translator_validation'] = {'cases': n, 'mismatches': mism, 'comparison': 'relative 1e-9'}
    if mism:
        ctx.broken.append('correspondence:translator-validation lj_force/pbc_min_dist')


def run(ctx):
    ctx.correspondences += ['NonBondEngine histories vs model/Engine.v (state after every operation, get and force results)',
                            'translator validation lj_force / pbc_min_dist (PrimFloat vs numpy, 1e-9)',
                            'implementation state judged directly: four views consistent, queries equal brute force over the rows']
    try:
        validate_kernels(ctx, ctx.n(200, 2000))
    except core.CoqEvalError as exc:
        ctx.note(str(exc)[:600])
        ctx.broken.append('correspondence:translator-validation (evaluation failed)')
    cases = [c for _, c in core.corpus_cases('C16')]
    cases += [gen_case(ctx.rng) for _ in range(ctx.n(250, 3000))]
    exprs, results = [], []
    for case in cases:
        try:
            st0, cut, obs, bad = run_impl(case)
        except Exception as exc:
            ctx.violation('spec', f"engine raised {type(exc).__name__}: {exc} on a guarded history",
                          {'case': case, 'exception': repr(exc)})
            results.append(None)
            continue
        results.append((st0, cut, obs))
        for where, b in bad[:2]:
            ctx.violation('spec', f"C16 fails on the implementation: op {where}: {b}", {'case': case, 'op_index': where, 'failure': b})
        exprs.append(coq_case(case, cut))
        nrem = any(op[0] == 'remove' for op in case['ops'])
        nforce = any(o[0] == 'force' and o[1] not in ('inf', []) for o in obs)
        ntree = max(len(o[1]['lists']) for o in obs if o[0] == 'state') if any(o[0] == 'state' for o in obs) else 1
        ctx.feature('histories_with_second_tree' if ntree > 1 else 'histories_single_tree')
        ctx.feature('force_inf', sum(1 for o in obs if o[0] == 'force' and o[1] == 'inf'))
        ctx.feature('force_sum', sum(1 for o in obs if o[0] == 'force' and o[1] != 'inf'))
        ctx.case(json.dumps([case['init'], case['ops']]), nontrivial=nrem and nforce,
                 sample={'residues': len(case['nodes']), 'box': case['box'], 'ops': [op[0] for op in case['ops']]})
    try:
        res = core.coq_eval_cases(ctx, 'corr', PRELUDE, exprs, chunk=60)
    except core.CoqEvalError as exc:
        ctx.note(str(exc)[:800])
        ctx.broken.append('correspondence:NonBondEngine vs model (evaluation failed)')
        return
    mism = 0
    it = iter(res)
    for case, r in zip(cases, results):
        if r is None:
            continue
        st0, cut, obs = r
        diffs = compare(case, st0, obs, next(it))
        if diffs:
            mism += 1
            if mism <= 3:
                ctx.note(f"correspondence: first difference at op {diffs[0][0]}: {str(diffs[0][1])[:400]}")
                ctx.extra.setdefault('disagreements', []).append({'case': case, 'diff': diffs[0]})
    ctx.extra['correspondence'] = {'histories': len(cases), 'mismatches': mism}
    if mism:
        ctx.broken.append('correspondence:NonBondEngine vs model/Engine.v')


def search(ctx):
    """after a broken obligation: judge the real kernels against the property text on
    boundary-directed samples (the engine histories were already judged in run())"""
    import polyply.src.nonbond_engine as nbe
    rng = ctx.rng
    for _ in range(400):
        sig, eps = rng.uniform(0.2, 1.0), rng.uniform(0.5, 2.0)
        d = sig * rng.choice([0.8, 0.95, 1.0, 2 ** (1 / 6), 1.3, 2.0]) * rng.uniform(0.999, 1.001)
        u = np.array([rng.gauss(0, 1) for _ in range(3)])
        u /= np.linalg.norm(u)
        ref = np.array([rng.uniform(0, 3) for _ in range(3)])
        point = ref + d * u
        f = nbe._lennard_jones_force(d, point, ref, (sig, eps))
        want = 24 * eps / d * (2 * (sig / d) ** 12 - (sig / d) ** 6) * u      # -dV/dr of 4 eps ((s/r)^12-(s/r)^6)
        if not np.allclose(f, want, rtol=1e-9, atol=1e-9):
            ctx.violation('search', f"pair force {f.tolist()} is not minus the gradient of the 12-6 potential {want.tolist()} "
                          f"(sigma={sig}, eps={eps}, r={d})",
                          {'kernel': '_lennard_jones_force', 'sig': sig, 'eps': eps, 'dist': d, 'point': point.tolist(),
                           'ref': ref.tolist(), 'observed': f.tolist(), 'expected': want.tolist(), 'broken': ctx.broken})
            return
    for _ in range(400):
        box = np.array([rng.uniform(1, 8) for _ in range(3)])
        a = np.array([rng.uniform(-3, 12) for _ in range(3)])
        b = np.array([rng.uniform(-3, 12) for _ in range(3)])
        k = np.array([rng.randint(-2, 2) for _ in range(3)])

        class E:
            boxsize = box
        dab = float(nbe.NonBondEngine.pbc_min_dist(E, a, b))
        dba = float(nbe.NonBondEngine.pbc_min_dist(E, b, a))
        dsh = float(nbe.NonBondEngine.pbc_min_dist(E, a + k * box, b))
        direct = float(np.linalg.norm(a - b))
        why = None
        if abs(dab - dba) > 1e-9:
            why = f"not symmetric: d(a,b)={dab} d(b,a)={dba}"
        elif abs(dab - dsh) > 1e-9:
            why = f"not periodic: d(a,b)={dab} d(a+k*L,b)={dsh} for k={k.tolist()}"
        elif dab > direct + 1e-9:
            why = f"exceeds the direct distance: {dab} > {direct}"
        if why:
            ctx.violation('search', f"minimum-image distance is {why}",
                          {'kernel': 'pbc_min_dist', 'a': a.tolist(), 'b': b.tolist(), 'box': box.tolist(), 'k': k.tolist(),
                           'why': why, 'broken': ctx.broken})
            return


def replay(ctx, data):
    print(json.dumps(data, indent=1, default=str)[:3000])
    case = data.get('case')
    if data.get('kernel') == '_lennard_jones_force':
        import polyply.src.nonbond_engine as nbe
        f = nbe._lennard_jones_force(data['dist'], np.array(data['point']), np.array(data['ref']), (data['sig'], data['eps']))
        ok = np.allclose(f, np.array(data['expected']), rtol=1e-9, atol=1e-9)
        print('replay: force', f.tolist(), 'expected', data['expected'])
        return 0 if ok else 1
    if not case:
        return 0
    case['ops'] = [tuple(o) for o in case['ops']]
    case['nodes'] = [tuple(x) for x in case['nodes']]
    try:
        _, _, _, bad = run_impl(case)
    except Exception as exc:
        print('replay: engine raised', repr(exc))
        return 1
    print('replay:', bad or 'specification satisfied on this history')
    return 1 if bad else 0
