"""C06 -- backmapping places rigid, centred, same-handed copies of the residue template.

Proof: Props/C06.v over the translated _rotate_xyz and placement expression (tie T) and the
hand-written lookup model model/Backmap.v (tie D).
Correspondence: (a) translator validation, bit-exact, of rotate_xyz / place_atom on PrimFloat;
(b) real Backmap().run_molecule on generated residues versus the model evaluated in Coq on
the sin/cos of the angles the optimiser (or an oracle) returned; (c) numeric judge of the
three geometric claims on the implementation output (monitor, tolerance 1e-9)."""
import itertools
import math

import numpy as np

from harness import core, systems
from harness.coqio import lit, flit, parse_evals, Raw

META = {
    'level': 'proof',
    'technique': 'Coq proof over translated kernels (_rotate_xyz, placement expression) and a lookup model; bit-exact differential correspondence with Backmap.run_molecule',
    'level_text': ("Theorems in Coq (Props/C06.v) for all angle triples, templates, residue positions and fudge factors: the "
                   "rotation text translated from linalg_functions._rotate_xyz on every run is multiplication by an orthogonal "
                   "matrix of determinant 1; the translated placement expression is cg + fudge*v; hence pair distances scale by "
                   "|fudge|, signed volumes by fudge^3, the centre of a centred template is the residue position, each atom takes "
                   "the vector of its own name in its own residue and only flagged residues are written. The scipy optimiser is "
                   "universally quantified. The model is tied to the code by regeneration (tie T, re-proved each run) and by a "
                   "bit-exact PrimFloat comparison with the real Backmap processor on generated residues (tie D), whose outputs are "
                   "also judged numerically for the three geometric claims."),
    'level_note': ("Trusted: Coq kernel + vm_compute; the ast translator; real-number axioms of the standard library as printed by "
                   "Print Assumptions; theorems are over R (no floating-point rounding analysis; float agreement is checked "
                   "bit-exactly on samples); hypotheses: distinct atom names equal to the template key set, fudge > 0 for handedness."),
    'gen_deps': ['Gen_linalg', 'Gen_backmap'],
    'eval_deps': ['theories/gen/Gen_linalg_F.vo', 'theories/gen/Gen_backmap_F.vo', 'theories/model/Backmap.vo'],
    'rule': ("cases = generated residue sets (1-5 residues, templates of 1-6 atoms incl. planar and chiral, "
             "0-3 bonded neighbours built or not, backmap flags, fudge factors) run through the real "
             "Backmap processor with scipy's optimiser and with an arbitrary-angle oracle; a case is "
             "non-trivial when at least one residue with >= 2 atoms is backmapped; distinct by the "
             "(template shapes, flags, angles) fingerprint"
             "; directed / added families (waves 10-12): complete gen_coords runs with polyply-generated templates, virtual sites, [ volumes ] directives, a residue whose template never converges in three molecules"),
    'assumptions': [
        "float results of the implementation are compared with the PrimFloat evaluation of the model bit-exactly; "
        "the theorems are over R (no rounding-error analysis)",
        "scipy L-BFGS is an oracle: theorems quantify over all sin/cos pairs on the unit circle",
        "distinct atom names per residue equal to the template's key set (hypothesis of C06_residue_centred)",
    ],
}


# ------------------------------------------------------------------ generators
def gen_template(rng, k):
    """k named points; returns dict name -> np.array, centred with polyply's own map_from_CoG"""
    from polyply.src.generate_templates import map_from_CoG
    names = [f"A{j}" for j in range(k)]
    rng.shuffle(names)
    shape = rng.choice(['random', 'planar', 'chiral', 'line'])
    pts = {}
    for j, nm in enumerate(names):
        if shape == 'planar':
            p = np.array([rng.uniform(-1, 1), rng.uniform(-1, 1), 0.0])
        elif shape == 'line':
            p = np.array([0.3 * j, 0.0, 0.0])
        else:
            p = np.array([rng.uniform(-1, 1), rng.uniform(-1, 1), rng.uniform(-1, 1)])
        pts[nm] = p
    return map_from_CoG(pts), shape


def gen_case(rng):
    import networkx as nx
    import vermouth
    from vermouth.graph_utils import make_residue_graph
    from polyply import MetaMolecule
    nres = rng.randint(1, 5)
    ntypes = rng.randint(1, 2)
    templates, shapes = {}, {}
    # template keys are graph hashes in real runs; residue names are independent of them, two
    # residue types may share one name, and the table may hold further entries (decoys) under
    # keys that look like residue names
    resname_of = {}
    for t in range(ntypes):
        k = rng.choice([1, 2, 3, 4, 4, 5, 6])
        templates[f"T{t}"], shapes[f"T{t}"] = gen_template(rng, k)
        resname_of[f"T{t}"] = rng.choice(['RA', 'RB', f"T{t}"])
    for tname, rn in list(resname_of.items()):
        if rn != tname and rn not in templates and rng.random() < 0.6:
            decoy, _ = gen_template(rng, len(templates[tname]))
            templates[rn] = dict(zip(templates[tname].keys(), decoy.values()))
    molecule = vermouth.molecule.Molecule()
    res_atoms = []
    idx = 1
    restype = []
    for r in range(nres):
        tname = rng.choice(sorted(resname_of))
        restype.append(tname)
        names = list(templates[tname].keys())
        rng.shuffle(names)
        atoms = []
        for nm in names:
            molecule.add_node(idx, resname=resname_of[tname], resid=r + 1, atomname=nm)
            if atoms:
                molecule.add_edge(rng.choice(atoms), idx)
            atoms.append(idx)
            idx += 1
        res_atoms.append(atoms)
        # the molecule's own virtual-site definitions (as a topology carries them): the site is one of the residue's atoms;
        # the placed copy is a rigid image of the TEMPLATE, whatever the topology says about constructions
        if len(atoms) >= 4 and rng.random() < 0.4:
            sec, prm = rng.choice([('virtual_sites3', ['2', '0.5', '0.1']), ('virtual_sites3', ['3', '120', '0.15']),
                                   ('virtual_sites3', ['4', '0.2', '0.3', '1.5']), ('virtual_sites3', ['1', '0.3', '0.3']),
                                   ('virtual_sitesn', ['1'])])
            molecule.add_interaction(sec, atoms=atoms[:4], parameters=prm)
    # residue graph: random tree, optionally one extra edge
    res_edges = []
    for r in range(1, nres):
        res_edges.append((rng.randrange(r), r))
    if nres >= 3 and rng.random() < 0.3:
        a, b = rng.sample(range(nres), 2)
        if (min(a, b), max(a, b)) not in [(min(x, y), max(x, y)) for x, y in res_edges]:
            res_edges.append((a, b))
    for a, b in res_edges:
        for _ in range(rng.choice([1, 1, 2])):
            molecule.add_edge(rng.choice(res_atoms[a]), rng.choice(res_atoms[b]))
    graph = make_residue_graph(molecule)
    meta = MetaMolecule(graph)
    meta.molecule = molecule
    flags = []
    for node in meta.nodes:
        r = meta.nodes[node]['resid'] - 1
        bm = rng.random() < 0.75
        flags.append(bm)
        meta.nodes[node]['template'] = restype[r]
        meta.nodes[node]['backmap'] = bm
        meta.nodes[node]['position'] = np.array([rng.uniform(0, 5), rng.uniform(0, 5), rng.uniform(0, 5)])
        if not bm:
            for a in res_atoms[r]:
                molecule.nodes[a]['position'] = meta.nodes[node]['position'] + \
                    np.array([rng.uniform(-.3, .3), rng.uniform(-.3, .3), rng.uniform(-.3, .3)])
    meta.templates = templates
    fudge = rng.choice([0.4, 1.0, 0.17, 2.5, 0.4])
    return meta, fudge, shapes


def run_impl(meta, fudge, rng, oracle):
    """run the real processor; returns (angles per residue index, positions per atom)"""
    import scipy.optimize
    import polyply.src.backmap as bm
    angles = []
    real_min = scipy.optimize.minimize

    def wrapper(fun, x0, *a, **k):
        if oracle:
            x = np.array([rng.uniform(-7, 7) for _ in range(3)])
            fun(x)  # the target function must stay callable
            res = {'x': x}
        else:
            res = real_min(fun, x0, *a, **k)
        angles.append([float(v) for v in res['x']])
        return res
    scipy.optimize.minimize = wrapper
    before = {a: (None if 'position' not in meta.molecule.nodes[a] else
                  [float(v) for v in meta.molecule.nodes[a]['position']]) for a in meta.molecule.nodes}
    try:
        bm.Backmap(fudge_coords=fudge).run_molecule(meta)
    finally:
        scipy.optimize.minimize = real_min
    after = {a: (None if 'position' not in meta.molecule.nodes[a] else
                 [float(v) for v in meta.molecule.nodes[a]['position']]) for a in meta.molecule.nodes}
    return angles, before, after


def model_input(meta, fudge, angles):
    """abstract input of model/Backmap.v for this case"""
    residues, trig = [], []
    it = iter(angles)
    for node in meta.nodes:
        nd = meta.nodes[node]
        bmflag = bool(nd['backmap'])
        ang = next(it) if bmflag else [0.0, 0.0, 0.0]
        trig.append([float(np.sin(ang[0])), float(np.cos(ang[0])), float(np.sin(ang[1])), float(np.cos(ang[1])),
                     float(np.sin(ang[2])), float(np.cos(ang[2]))])
        templ = [(k, tuple(float(x) for x in v)) for k, v in meta.templates[nd['template']].items()]
        atoms = [(int(a), meta.molecule.nodes[a]['atomname']) for a in nd['graph'].nodes]
        residues.append({'backmap': bmflag, 'cg': tuple(float(x) for x in nd['position']),
                         'template': templ, 'atoms': atoms})
    return {'residues': residues, 'trig': trig, 'fudge': float(fudge)}


def coq_case(mi):
    def vec(v):
        return Raw("(" + ", ".join(flit(x) for x in v) + ")")
    rs = []
    for r in mi['residues']:
        templ = "[" + "; ".join(f"({lit(k)}, {vec(v)})" for k, v in r['template']) + "]"
        atoms = "[" + "; ".join(f"({lit(a)}, {lit(n)})" for a, n in r['atoms']) + "]"
        rs.append(f"(@Build_residue vec {lit(r['backmap'])} {vec(r['cg'])} {templ} {atoms})")
    trig = "[" + "; ".join("(" + ", ".join(flit(x) for x in t) + ")" for t in mi['trig']) + "]"
    return f"(run_case {flit(mi['fudge'])} {trig} [{'; '.join(rs)}])"


COQ_PRELUDE = """From Coq Require Import PrimFloat.
From PV Require Import FNum Backmap Gen_linalg_F Gen_backmap_F.
Definition trig6 := (float * float * float * float * float * float)%type.
Definition rot_of (ts : list trig6) (i : nat) (v : vec) : vec :=
  match nth_error ts i with
  | Some (sx, cx, sy, cy, sz, cz) => hd v (rotate_xyz [v] sx cx sy cy sz cz)
  | None => v
  end.
Definition run_case (f : float) (ts : list trig6) (rs : list (residue vec)) :=
  backmap (fun cg v => place_atom cg v f) (rot_of ts) rs.
"""


# ------------------------------------------------------------------ judge on implementation output
def judge(meta, fudge, before, after, tol=1e-9):
    """C06 claims on the real output; returns list of (claim, detail)"""
    bad = []
    for node in meta.nodes:
        nd = meta.nodes[node]
        atoms = list(nd['graph'].nodes)
        if not nd['backmap']:
            for a in atoms:
                if before[a] != after[a]:
                    bad.append(('frame', f"atom {a} of unflagged residue {nd['resid']} was written"))
            continue
        templ = meta.templates[nd['template']]
        names = [meta.molecule.nodes[a]['atomname'] for a in atoms]
        if sorted(names) != sorted(templ.keys()) or len(set(names)) != len(names):
            continue
        pos = np.array([after[a] for a in atoms])
        tv = np.array([templ[n] for n in names])
        cg = np.array(nd['position'], dtype=float)
        if np.linalg.norm(pos.mean(axis=0) - cg) > tol * (1 + np.linalg.norm(cg)):
            bad.append(('centred', f"residue {nd['resid']}: centre {pos.mean(axis=0).tolist()} != {cg.tolist()}"))
        for i, j in itertools.combinations(range(len(atoms)), 2):
            d1 = np.linalg.norm(pos[i] - pos[j])
            d0 = abs(fudge) * np.linalg.norm(tv[i] - tv[j])
            if abs(d1 - d0) > tol * (1 + d0):
                bad.append(('congruent', f"residue {nd['resid']}: |p{i}-p{j}|={d1} expected {d0}"))
                break
        if len(atoms) >= 4:
            for q in itertools.islice(itertools.combinations(range(len(atoms)), 4), 5):
                a, b, c, d = q
                v1 = np.dot(pos[b] - pos[a], np.cross(pos[c] - pos[a], pos[d] - pos[a]))
                v0 = fudge ** 3 * np.dot(tv[b] - tv[a], np.cross(tv[c] - tv[a], tv[d] - tv[a]))
                if abs(v1 - v0) > 1e-8 * (1 + abs(v0)):
                    bad.append(('handed', f"residue {nd['resid']}: signed volume {v1} expected {v0}"))
                    break
    return bad


# ------------------------------------------------------------------ translator validation
def validate_translation(ctx, n):
    from polyply.src.linalg_functions import _rotate_xyz, pbc_complete, _u_vect
    rng = ctx.rng
    cases, exp = [], []
    for _ in range(n):
        ang = [rng.uniform(-10, 10) if rng.random() < 0.8 else rng.choice([0.0, math.pi / 2, math.pi, -math.pi / 2])
               for _ in range(3)]
        ncol = rng.randint(1, 4)
        cols = [[rng.uniform(-3, 3) for _ in range(3)] for _ in range(ncol)]
        arr = np.array(cols, dtype=np.float64).T.copy()
        out = _rotate_xyz(arr, ang[0], ang[1], ang[2])
        exp.append([[float(out[0, j]), float(out[1, j]), float(out[2, j])] for j in range(ncol)])
        tr = [float(np.sin(ang[0])), float(np.cos(ang[0])), float(np.sin(ang[1])), float(np.cos(ang[1])),
              float(np.sin(ang[2])), float(np.cos(ang[2]))]
        colsl = "[" + "; ".join("(" + ", ".join(flit(x) for x in c) + ")" for c in cols) + "]"
        cases.append(f"(rotate_xyz {colsl} {' '.join(flit(x) for x in tr)})")
    body = COQ_PRELUDE + "Eval vm_compute in [" + ";\n ".join(cases) + "].\n"
    got = parse_evals(core.coq_eval(ctx, 'tv_rotate', body))[0]
    mism = 0
    for i, (g, e) in enumerate(zip(got, exp)):
        g = [list(v) for v in g]
        if g != e:
            mism += 1
            if mism <= 3:
                ctx.note(f"translator validation: rotate_xyz case {i}: model {g} != impl {e}")
    ctx.extra['translator_validation'] = {'rotate_xyz_cases': n, 'mismatches': mism, 'comparison': 'bit-exact'}
    if mism:
        ctx.broken.append('correspondence:translator-validation rotate_xyz')
    return mism == 0


# ------------------------------------------------------------------ run
# ------------------------------------------------------------------ complete gen_coords runs: templates polyply generates itself
def pipeline_top(rng, strained=False):
    """a copolymer of residue kinds with / without a virtual site; returns topology text and the residue names.  strained: a
    residue kind whose bond lengths contradict one another (its template optimisation never converges and the last
    geometry is used) in several molecules -- all its copies are congruent all the same"""
    kinds = {'RA': (['A', 'B', 'C'], True), 'RB': (['A', 'B', 'C', 'D'], False), 'RC': (['A', 'B'], True), 'RD': (['A', 'B', 'C', 'D'], False)}
    seq = [rng.choice(['RA', 'RB', 'RC']) for _ in range(rng.randint(3, 6))]
    if strained:
        seq = ['RD', rng.choice(['RA', 'RB']), 'RD']
    atoms, bonds, angles, vsites = [], [], [], []
    idx, prev = 0, None
    for r, rn in enumerate(seq):
        names, vs = kinds[rn]
        ids = []
        for nm in names:
            idx += 1
            ids.append(idx)
            atoms.append((idx, 'P1', r + 1, rn, nm))
        for a, b in zip(ids, ids[1:]):
            bonds.append((a, b, rng.choice([0.28, 0.30, 0.33])))
        if rn == 'RD':
            bonds.append((ids[0], ids[2], 0.95))        # A-C far longer than A-B + B-C
        for a, b, c in zip(ids, ids[1:], ids[2:]):
            angles.append((a, b, c, rng.choice([90, 100, 120])))
        if vs:
            idx += 1
            atoms.append((idx, 'VS', r + 1, rn, 'V'))
            vsites.append((idx, ids[0], ids[1]))
        if prev is not None:
            bonds.append((prev, ids[0], 0.35))
        prev = ids[-1]
    lines = ['[ defaults ]', '1 1 no 1.0 1.0', '[ atomtypes ]', 'P1 72.0 0.0 A 0.47 4.5', 'VS 0.0 0.0 A 0.47 4.5',
             '[ nonbond_params ]', 'P1 P1 1 0.47 4.5', 'VS VS 1 0.47 4.5', 'P1 VS 1 0.47 4.5', '[ moleculetype ]', 'pol 1', '[ atoms ]']
    for i, t, resid, rn, nm in atoms:
        lines.append(f"{i} {t} {resid} {rn} {nm} {i} 0 {0 if t == 'VS' else 72}")
    lines.append('[ bonds ]')
    lines += [f'{i} {j} 1 {l} 1000' for i, j, l in bonds]
    if angles:
        lines.append('[ angles ]')
        lines += [f'{i} {j} {k} 1 {t} 50' for i, j, k, t in angles]
    if vsites:
        lines.append('[ virtual_sitesn ]')
        lines += [f'{v} 1 {i} {j}' for v, i, j in vsites]
    lines += ['[ system ]', 'x', '[ molecules ]', f'pol {3 if strained else rng.randint(1, 2)}']
    return '\n'.join(lines) + '\n', seq


def pipeline_cases(ctx, n, extra=()):
    """the statement on complete runs, whichever options shaped the random walk: residue volumes given by name in a build
    file concern the walk only"""
    rng = ctx.rng
    todo = list(extra)
    for k in range(n):
        top, seq = pipeline_top(rng, strained=(k == 0))
        vol = rng.sample(sorted(set(seq)), rng.randint(0, len(set(seq)))) if k else []
        todo.append({'top': top, 'seq': seq, 'vol': vol, 'seed': rng.randrange(10 ** 6),
                     'build': ''.join(f'[ volumes ]\n{rn} {rng.choice([0.4, 0.45, 0.5])}\n' for rn in vol)})
    for item in todo:
        top, seq, vol, build = item['top'], item['seq'], item['vol'], item['build']
        seen = []

        def wrap(real):
            def run_molecule(self, meta_molecule):
                out = real(self, meta_molecule)
                for node in meta_molecule.nodes:
                    d = meta_molecule.nodes[node]
                    if d.get('backmap', True):
                        seen.append((str(d['resname']), [float(x) for x in d['position']],
                                     [(str(meta_molecule.molecule.nodes[a]['atomname']), [float(x) for x in meta_molecule.molecule.nodes[a]['position']])
                                      for a in sorted(d['graph'].nodes)]))
                return out
            return run_molecule
        with systems.Workdir() as wd:
            kw = dict(box=np.array([7.0, 7.0, 7.0]), seed=item['seed'], timeout=90, hooks={'polyply.src.backmap:Backmap.run_molecule': wrap})
            if build:
                kw.update(build=['v.bld'], files={'v.bld': build})
            res = systems.run_gen_coords(wd, top, **kw)
        ctx.case(('pipeline', top, build), nontrivial=res['ok'] and bool(seen), sample={'residues': seq, 'volumes': vol})
        ctx.feature('gen_coords_run_with_volumes' if vol else 'gen_coords_run_plain')
        if 'RD' in seq:
            ctx.feature('gen_coords_run_with_a_residue_whose_template_does_not_converge_in_several_molecules')
        if not res['ok']:
            ctx.note(f"gen_coords did not finish on a generated copolymer: {res['exc_type']}: {str(res.get('exception'))[:150]}")
            continue
        bad = None
        shapes = {}
        for rn, pos, ats in seen:
            xyz = np.array([p for _, p in ats])
            cog = xyz.mean(axis=0)
            if np.linalg.norm(cog - np.array(pos)) > 1e-6 and bad is None:
                bad = ('centre', f"residue {rn}: centre of geometry of its atoms {[round(float(x), 5) for x in cog]} is "
                                 f"{np.linalg.norm(cog - np.array(pos)):.4f} nm from the residue position {[round(float(x), 5) for x in pos]}"
                                 + (f" (run with [ volumes ] for {vol})" if vol else ''))
            dm = np.linalg.norm(xyz[:, None, :] - xyz[None, :, :], axis=2)
            key = (rn, tuple(nm for nm, _ in ats))
            if key in shapes and np.abs(shapes[key] - dm).max() > 1e-6 and bad is None:
                bad = ('congruent', f"two copies of residue {rn} differ in an interatomic distance by {np.abs(shapes[key] - dm).max():.5f} nm")
            shapes.setdefault(key, dm)
        if bad:
            ctx.violation('spec', f"C06 {bad[0]} fails on the implementation output: {bad[1]}",
                          {'claim': bad[0], 'detail': bad[1], 'pipeline': item})


def run(ctx):
    gen_ok = not any(e['out'] in ('Gen_linalg', 'Gen_backmap') for e in ctx.gen['errors'])
    ctx.correspondences += ['translator-validation rotate_xyz (bit-exact, PrimFloat)',
                            'Backmap.run_molecule vs model/Backmap.v (bit-exact, PrimFloat)']
    if gen_ok:
        try:
            validate_translation(ctx, ctx.n(200, 2000))
        except core.CoqEvalError as exc:
            ctx.note(str(exc)[:500])
            ctx.broken.append('correspondence:translator-validation rotate_xyz (evaluation failed)')
            gen_ok = False
    pipeline_cases(ctx, ctx.n(10, 100))
    n = ctx.n(150, 1500)
    cases = []
    for i in range(n):
        meta, fudge, shapes = gen_case(ctx.rng)
        oracle = (i % 2 == 1)
        try:
            angles, before, after = run_impl(meta, fudge, ctx.rng, oracle)
        except Exception as exc:
            ctx.violation('impl-exception', f"Backmap raised {type(exc).__name__}: {exc}",
                          {'input': 'generated case', 'index': i})
            continue
        try:
            mi = model_input(meta, fudge, angles)
        except StopIteration:
            # a flagged residue was oriented without the optimiser: the model (rotation by the optimiser's angles)
            # does not cover it; the claims are still judged on the output
            if 'correspondence:Backmap orients a residue without calling the optimiser' not in ctx.broken:
                ctx.broken.append('correspondence:Backmap orients a residue without calling the optimiser')
            for claim, detail in judge(meta, fudge, before, after):
                ctx.violation('spec', f"C06 {claim} fails on the implementation output: {detail}",
                              {'claim': claim, 'detail': detail, 'impl_positions': after})
            ctx.case(('uncovered', i), nontrivial=False)
            continue
        nb = sum(1 for r in mi['residues'] if r['backmap'] and len(r['atoms']) >= 2)
        ctx.feature('oracle_angles' if oracle else 'scipy_angles')
        ctx.feature(f'residues_{len(mi["residues"])}')
        for r in mi['residues']:
            if r['backmap']:
                ctx.feature(f'template_atoms_{len(r["template"])}')
        fp = (tuple((r['backmap'], len(r['atoms'])) for r in mi['residues']), tuple(map(tuple, angles)), fudge)
        ctx.case(fp, nontrivial=nb > 0,
                 sample={'residues': [{'backmap': r['backmap'], 'natoms': len(r['atoms']), 'cg': r['cg']}
                                      for r in mi['residues']], 'fudge': fudge, 'angles': angles[:2]})
        for claim, detail in judge(meta, fudge, before, after):
            ctx.violation('spec', f"C06 {claim} fails on the implementation output: {detail}",
                          {'claim': claim, 'detail': detail, 'model_input': mi, 'impl_positions': after})
        expected = []
        for node in meta.nodes:
            if meta.nodes[node]['backmap']:
                for a in meta.nodes[node]['graph'].nodes:
                    expected.append((int(a), after[a]))
        cases.append((mi, expected))
    if gen_ok and cases:
        jobs = []
        chunk = 100
        for c in range(0, len(cases), chunk):
            body = COQ_PRELUDE + "Eval vm_compute in [" + ";\n ".join(coq_case(mi) for mi, _ in cases[c:c + chunk]) + "].\n"
            jobs.append((f'corr_{c // chunk}', body))
        try:
            outs = core.coq_eval_many(ctx, jobs)
        except core.CoqEvalError as exc:
            ctx.note(str(exc)[:500])
            ctx.broken.append('correspondence:Backmap vs model (evaluation failed)')
            return
        mism = 0
        for c in range(0, len(cases), chunk):
            got = parse_evals(outs[f'corr_{c // chunk}'])[0]
            for (mi, expected), g in zip(cases[c:c + chunk], got):
                if g is None:
                    model_out = None
                else:
                    model_out = [(a, list(v)) for a, v in g[1]] if isinstance(g, tuple) and g[0] == 'Some' else g
                exp = [(a, list(p)) for a, p in expected]
                if model_out != exp:
                    mism += 1
                    if mism <= 3:
                        ctx.note(f"correspondence: model {str(model_out)[:200]} != impl {str(exp)[:200]}")
                        ctx.extra.setdefault('disagreements', []).append({'model_input': mi, 'model': model_out, 'impl': exp})
        ctx.extra['correspondence'] = {'cases': len(cases), 'mismatches': mism, 'comparison': 'bit-exact'}
        if mism:
            ctx.broken.append('correspondence:Backmap.run_molecule vs model/Backmap.v')


# ------------------------------------------------------------------ search (after a broken obligation)
def search(ctx):
    """look for a concrete failing input: the real _rotate_xyz on an angle grid with a chiral
    4-point set, judged for orthogonality / determinant; then whole Backmap runs."""
    from polyply.src.linalg_functions import _rotate_xyz
    pts = np.array([[0.0, 0, 0], [1.0, 0, 0], [0, 1.0, 0], [0, 0, 1.0]]).T
    grid = [k * math.pi / 6 for k in range(12)]
    for ax in grid:
        for ay in grid:
            for az in grid:
                out = _rotate_xyz(pts.copy(), ax, ay, az)
                M = (out[:, 1:] - out[:, :1])
                det = float(np.linalg.det(M))
                orth = float(np.abs(M.T @ M - np.eye(3)).max())
                if abs(det - 1) > 1e-9 or orth > 1e-9:
                    ctx.violation('search', f"_rotate_xyz is not a proper rotation for angles {(ax, ay, az)}: det={det}, |MtM-I|={orth}",
                                  {'function': 'polyply.src.linalg_functions._rotate_xyz', 'angles': [ax, ay, az],
                                   'det': det, 'orth_defect': orth, 'broken': ctx.broken})
                    return
    for i in range(300):
        meta, fudge, _ = gen_case(ctx.rng)
        angles, before, after = run_impl(meta, fudge, ctx.rng, True)
        bad = judge(meta, fudge, before, after)
        if bad:
            ctx.violation('search', f"C06 {bad[0][0]} fails: {bad[0][1]}",
                          {'claim': bad[0][0], 'detail': bad[0][1], 'model_input': model_input(meta, fudge, angles),
                           'impl_positions': after, 'broken': ctx.broken})
            return


def replay(ctx, data):
    print(json_dumps(data)[:3000])
    if data.get('pipeline'):
        before = len(ctx.violations)
        pipeline_cases(ctx, 0, extra=[data['pipeline']])
        print('replay:', ctx.violations[-1]['what'] if len(ctx.violations) > before else 'statement satisfied on this run')
        return 1 if len(ctx.violations) > before else 0
    if 'angles' in data and 'function' in data:
        from polyply.src.linalg_functions import _rotate_xyz
        pts = np.array([[0.0, 0, 0], [1.0, 0, 0], [0, 1.0, 0], [0, 0, 1.0]]).T
        out = _rotate_xyz(pts.copy(), *data['angles'])
        M = (out[:, 1:] - out[:, :1])
        det = float(np.linalg.det(M))
        orth = float(np.abs(M.T @ M - np.eye(3)).max())
        print(f"replay: det={det} orth_defect={orth}")
        return 1 if abs(det - 1) > 1e-9 or orth > 1e-9 else 0
    return 0


def json_dumps(d):
    import json
    return json.dumps(d, indent=1, default=str)[:3000]
