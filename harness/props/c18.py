"""C18 -- build options select exactly the molecules and residues they name.

Proof: Props/C18.v over model/Select.v: a residue carries exactly the directives of the blocks
naming its molecule (name + index in the half-open range) that name the residue (name + id in
the half-open range), in file order, everything else unchanged; residue specifications are
read back as written; node lookup / start node = first match; splitting loses and duplicates
no atom and moves exactly the named atoms; ligand nodes are fresh keys, all removed again.
Correspondence (tie D): the real load_build_files on generated topologies / build files
(overlapping and adjacent ranges, repeated molecule names, several directives per block) vs
model apply_build; parse_residue_spec / find_starting_node_from_spec vs model; split_residue
vs model split_atoms; complete gen_coords -lig runs judged from the statement (molecule list
unchanged, ligand one step from its residue, handed back to its own molecule)."""
import contextlib
import io
import json
import math
import pathlib

import numpy as np

from harness import core, systems
from harness.coqio import lit

META = {
    'level': 'proof',
    'technique': 'Coq proofs over the selection model (blocks, directives, residue specs, split, ligand attach/detach); differential correspondence with load_build_files, parse_residue_spec, find_starting_node_from_spec, split_residue; end-to-end -lig runs judged',
    'gen_deps': [],
    'eval_deps': ['theories/model/Select.vo'],
    'level_text': ("Theorems in Coq (Props/C18.v): a block applies to molecule (name, index) iff the names are equal and lo <= index < hi; "
                   "a directive hits a residue iff names are equal and start <= resid < stop; after reading any list of blocks every "
                   "residue carries exactly the ids of the directives that apply to its molecule and hit it, per keyword in file order, "
                   "with residue id/name unchanged and molecules that no block names left identical; a rendered residue specification "
                   "parses back to exactly the written fields (omitted ones absent); node lookup returns exactly the nodes whose given "
                   "fields are equal and the start node is the first of them; splitting keeps the atom list (ids, names) and relabels "
                   "exactly the atoms named for the residue name; ligand nodes get fresh keys and detaching restores the node list. "
                   "Tied to the code by differential runs of the real readers / processors and judged -lig runs."),
    'level_note': ("Trusted: Coq kernel, harness. No axioms. numpy arange membership (float ranges) and vermouth make_residue_graph "
                   "regrouping are modelled by contract and validated by the runs."),
    'rule': ("cases = topologies with repeated molecule names (2-5 [ molecules ] entries) x build files of 1-3 [ molecule ] blocks "
             "(overlapping / adjacent / empty index ranges) x 1-3 directives each (sphere / cylinder / rectangle / rw_restriction; "
             "overlapping and adjacent resid ranges); residue specs with every subset of fields; -split strings over multi-atom "
             "residues; -lig runs; non-trivial = at least one residue tagged and one left untagged; distinct by input text"
             "; directed / added families (waves 10-12): to-the-end directives on split molecules; molecules with restarting residue numbers"),
}

PRELUDE = """From Coq Require Import ZArith String Ascii List Bool.
From PV Require Import Select.
Import ListNotations.
Open Scope string_scope.
Definition mk_dir (d : bool * string * Z * Z * nat) : directive :=
  let '(rw, rn, a, b, i) := d in {| o_kw := if rw then RwOption else Restraint; o_resname := rn; o_start := a; o_stop := b; o_id := i |}.
Definition mk_block (b : string * Z * Z * list (bool * string * Z * Z * nat)) : block :=
  let '(n, lo, hi, ds) := b in {| b_name := n; b_lo := lo; b_hi := hi; b_opts := map mk_dir ds |}.
Definition mk_node (r : Z * string) : rnode := {| n_resid := fst r; n_resname := snd r; n_restraints := []; n_rw := [] |}.
Definition build_case (blocks : list (string * Z * Z * list (bool * string * Z * Z * nat))) (mols : list (string * list (Z * string))) :=
  map (fun m => map (fun r => (n_restraints r, n_rw r)) (snd m))
      (apply_build (map mk_block blocks) (map (fun m => (fst m, map mk_node (snd m))) mols)).
Definition spec_case (s : string) := let p := parse_spec s in (s_molname p, s_molidx p, s_resname p, s_resid p).
Definition start_case (resname : option string) (resid : option Z) (nodes : list (Z * string)) :=
  start_node resname resid (combine (seq 0 (List.length nodes)) (map mk_node nodes)).
Definition split_case (maxr : Z) (resname : string) (news : list (string * list string)) (atoms : list (nat * Z * string * string)) :=
  map (fun a => (a_id a, a_resid a, a_resname a))
      (split_atoms maxr resname news (map (fun a => let '(i, r, rn, n) := a in {| a_id := i; a_resid := r; a_resname := rn; a_name := n |}) atoms)).
"""


def quiet(fn, *a, **kw):
    sink = io.StringIO()
    with contextlib.redirect_stderr(sink), contextlib.redirect_stdout(sink):
        return fn(*a, **kw)


def resid_of(mt, r):
    """the residue number of the r-th residue of a molecule type (numbers may start again inside the molecule)"""
    return next(a['resid'] for a in mt['atoms'] if a['res'] == r)


def gen_system(rng, multi=False, restart=False):
    ntypes = rng.randint(1, 3)
    # also molecules whose residue numbering starts again inside the molecule (blocks numbered separately, then merged):
    # a residue is named by (residue name, number), and numbers need not grow along the molecule
    moltypes = [systems.gen_moltype(rng, f'M{"ABC"[i]}', nres=rng.randint(1, 6), multi_atom=multi, shape='path', restart=restart and rng.random() < 0.35)
                for i in range(ntypes)]
    molecules = [(rng.choice(moltypes)['name'], rng.randint(1, 2)) for _ in range(rng.randint(2, 5))]
    return moltypes, molecules


def load_topology(wd, moltypes, molecules):
    from polyply.src.topology import Topology
    p = pathlib.Path(wd) / 's.top'
    p.write_text(systems.top_text(moltypes, molecules))
    top = quiet(Topology.from_gmx_topfile, p, name='x')
    quiet(top.preprocess)
    return top


# ------------------------------------------------------------------ build files
def gen_build(rng, moltypes, molecules, resnames=('RA', 'RB')):
    inst = [n for n, c in molecules for _ in range(c)]
    blocks, nid = [], 0
    for _ in range(rng.randint(1, 3)):
        name = rng.choice(sorted(set(inst)))
        lo = rng.randint(0, len(inst))
        hi = rng.choice([lo, lo + 1, rng.randint(lo, len(inst) + 1), len(inst)])
        ds = []
        for _ in range(rng.randint(1, 3)):
            rw = rng.random() < 0.35
            rn = rng.choice(list(resnames))
            a = rng.randint(0, 6)
            b = rng.choice([a, a + 1, rng.randint(a, 8)])
            nid += 1
            ds.append((rw, rn, a, b, nid, rng.choice(['sphere', 'cylinder', 'rectangle'])))
        blocks.append((name, lo, hi, ds))
    return blocks


def build_text(blocks):
    out = []
    for name, lo, hi, ds in blocks:
        out += ['[ molecule ]', f'{name} {lo} {hi}']
        for rw, rn, a, b, nid, shape in ds:
            if rw:
                out += ['[ rw_restriction ]', f'{rn} {a} {b} 0.0 0.0 1.0 {nid}.0']
            elif shape == 'sphere':
                out += ['[ sphere ]', f'{rn} {a} {b} in 1.0 1.0 1.0 {nid}.5']
            elif shape == 'cylinder':
                out += ['[ cylinder ]', f'{rn} {a} {b} out 1.0 1.0 1.0 {nid}.5 2.0']
            else:
                out += ['[ rectangle ]', f'{rn} {a} {b} in 1.0 1.0 1.0 {nid}.5 2.0 3.0']
    return '\n'.join(out) + '\n'


def build_impl(wd, moltypes, molecules, blocks):
    from polyply.src.load_library import load_build_files
    top = load_topology(wd, moltypes, molecules)
    p = pathlib.Path(wd) / 'o.bld'
    p.write_text(build_text(blocks))
    quiet(load_build_files, top, None, [p])
    out = []
    for mol in top.molecules:
        rows = []
        for node in mol.nodes:
            d = mol.nodes[node]
            restr = [int(float(x[2])) for x in d.get('restraints', [])]          # parameters: [in/out, point, radius(id+.5), ...]
            rws = [int(float(x[1])) for x in d.get('rw_options', [])]            # parameters: [normal, angle(id)]
            rows.append((restr, rws))
        out.append(rows)
    return out


def build_expected(moltypes, molecules, blocks):
    by = {mt['name']: mt for mt in moltypes}
    inst = [n for n, c in molecules for _ in range(c)]
    out = []
    for idx, name in enumerate(inst):
        rows = []
        for r in range(by[name]['nres']):
            resid, rn = resid_of(by[name], r), by[name]['resnames'][r]
            restr, rws = [], []
            for bname, lo, hi, ds in blocks:
                if bname == name and lo <= idx < hi:
                    for rw, drn, a, b, nid, _ in ds:
                        if drn == rn and a <= resid < b:
                            (rws if rw else restr).append(nid)
            rows.append((restr, rws))
        out.append(rows)
    return out


# ------------------------------------------------------------------ residue specs / start
def renumber(moltypes, r0):
    """residues numbered from r0 instead of 1 (after -split polyply itself numbers from 0)"""
    for mt in moltypes:
        for a in mt['atoms']:
            a['resid'] += r0 - 1
        mt['r0'] = r0
    return moltypes


def gen_spec(rng, moltypes, molecules):
    by = {mt['name']: mt for mt in moltypes}
    inst = [n for n, c in molecules for _ in range(c)]
    idx = rng.randrange(len(inst))
    name = inst[idx]
    mt = by[name]
    r = rng.randrange(mt['nres'])
    use_name, use_idx = rng.choice([(True, True), (True, False), (False, True)])
    use_res = rng.random() < 0.8
    use_resid = use_res and rng.random() < 0.7
    r0 = mt.get('r0', 1)
    spec = (name if use_name else '') + (f'#{idx}' if use_idx else '')
    if use_res:
        spec += '-' + mt['resnames'][r] + (f'#{r + r0}' if use_resid else '')
    return {'spec': spec, 'molname': name if use_name else None, 'molidx': idx if use_idx else None,
            'resname': mt['resnames'][r] if use_res else None, 'resid': r + r0 if use_resid else None}


def spec_cases(ctx, wd, n):
    from polyply.src.annotate_ligands import parse_residue_spec
    from polyply.src.gen_coords import find_starting_node_from_spec
    rng = ctx.rng
    exprs, keep = [], []
    from polyply.src.annotate_ligands import _find_nodes
    for _ in range(n):
        moltypes, molecules = gen_system(rng)
        renumber(moltypes, rng.choice([1, 1, 0, 3]))
        sp = gen_spec(rng, moltypes, molecules)
        top = load_topology(wd, moltypes, molecules)
        parsed = parse_residue_spec(sp['spec'])
        want = {k: v for k, v in (('molname', sp['molname']), ('mol_idx', sp['molidx']), ('resname', sp['resname']),
                                  ('resid', None if sp['resid'] is None else float(sp['resid']))) if v is not None}
        ctx.case(('spec', sp['spec'], json.dumps(molecules)), nontrivial=len(want) >= 2, sample={'spec': sp['spec'], 'parsed': {k: str(v) for k, v in parsed.items()}})
        ctx.feature('spec_fields_%d' % len(want))
        if parsed != want:
            ctx.violation('spec', f"residue specification {sp['spec']!r} is read as {parsed}, written fields are {want}", {'spec_case': sp})
        # start node: first matching residue in the molecule(s) named
        by = {mt['name']: mt for mt in moltypes}
        inst = [nm for nm, c in molecules for _ in range(c)]
        try:
            start = quiet(find_starting_node_from_spec, top, [sp['spec']])
        except Exception as exc:  # noqa
            start = f'{type(exc).__name__}'
        sel = [i for i, nm in enumerate(inst) if (sp['molidx'] is None or i == sp['molidx']) and (sp['molname'] is None or nm == sp['molname'])]
        exp = {i: None for i in range(len(inst))}
        ok = True
        for i in sel:
            mt = by[inst[i]]
            match = [k for k in range(mt['nres']) if (sp['resname'] is None or mt['resnames'][k] == sp['resname']) and (sp['resid'] is None or k + mt['r0'] == sp['resid'])]
            # the selector behind -lig and -start: every residue whose written fields are equal, no other
            found = sorted(int(x) for x in _find_nodes(top.molecules[i], parsed))
            if found != match:
                ctx.violation('spec', f"specification {sp['spec']!r} selects residues {found} of molecule {i}, the written fields name {match}",
                              {'spec_case': sp, 'moltypes': moltypes, 'molecules': molecules})
            if not match:
                ok = False
            else:
                exp[i] = match[0]
        if ok:
            if start != exp:
                ctx.violation('spec', f"-start {sp['spec']!r} selects {start}, the specification names {exp}", {'spec_case': sp, 'moltypes': moltypes, 'molecules': molecules})
            i0 = sel[0]
            mt = by[inst[i0]]
            exprs.append(f"(spec_case {lit(sp['spec'])}, start_case {lit_opt(sp['resname'])} {lit_optz(sp['resid'])} "
                         f"[{'; '.join(f'({k + mt['r0']}%Z, {lit(mt['resnames'][k])})' for k in range(mt['nres']))}])")
            keep.append((sp, exp[i0]))
    res = core.coq_eval_cases(ctx, 'spec', PRELUDE, exprs, chunk=100)
    mism = 0
    for (sp, first), r in zip(keep, res):
        mn, mi, rn, ri, st = r
        model = (unsome(mn), unsome(mi), unsome(rn), unsome(ri), unsome(st))
        impl = (sp['molname'], None if sp['molidx'] is None else str(sp['molidx']), sp['resname'], None if sp['resid'] is None else str(sp['resid']), first)
        if model != impl:
            mism += 1
            if mism <= 2:
                ctx.note(f"correspondence spec: model {model} impl {impl}")
    ctx.extra['spec'] = {'cases': len(keep), 'mismatches': mism}
    if mism:
        ctx.broken.append('correspondence:parse_residue_spec / start node vs model/Select.v')


def unsome(x):
    return None if x is None else x[1]


def lit_opt(s):
    return 'None' if s is None else f'(Some {lit(s)})'


def lit_optz(z):
    return 'None' if z is None else f'(Some {int(z)}%Z)'


# ------------------------------------------------------------------ split
def split_cases(ctx, wd, n):
    rng = ctx.rng
    exprs, keep = [], []
    for _ in range(n):
        mt = systems.gen_moltype(rng, 'MA', nres=rng.randint(1, 4), multi_atom=True, shape='path')
        # make atom names unique per position and give every residue 3 atoms at least sometimes
        top = None
        resname = rng.choice(sorted(set(mt['resnames'])))
        names = sorted({a['name'][0] for a in mt['atoms'] if a['resname'] == resname})
        # atom names in gen_moltype are '<letter><resid%9>': rename to the bare letter so that a split string can name them
        for a in mt['atoms']:
            a['name'] = a['name'][0]
        rng.shuffle(names)
        k = rng.randint(1, max(1, len(names)))
        chosen = names[:k]
        cut = rng.randint(1, len(chosen)) if len(chosen) > 1 else 1
        news = [('NA', chosen[:cut])] + ([('NB', chosen[cut:])] if chosen[cut:] else [])
        split = resname + ''.join(f":{nn}-{','.join(ats)}" for nn, ats in news)
        top = load_topology(wd, [mt], [('MA', 1)])
        mol = top.molecules[0]
        before = {n: (mol.molecule.nodes[n]['resid'], mol.molecule.nodes[n]['resname'], mol.molecule.nodes[n]['atomname']) for n in mol.molecule.nodes}
        maxr = mol.max_resid
        try:
            quiet(mol.split_residue, [split])
        except Exception as exc:  # noqa
            ctx.violation('spec', f"-split {split!r} fails: {type(exc).__name__}: {exc}", {'split': split, 'moltype': mt})
            continue
        after = {n: (mol.molecule.nodes[n]['resid'], mol.molecule.nodes[n]['resname'], mol.molecule.nodes[n]['atomname']) for n in mol.molecule.nodes}
        ctx.case(('split', split, json.dumps(mt['resnames'])), nontrivial=len(mt['atoms']) >= 3, sample={'split': split, 'atoms': len(before)})
        ctx.feature('split')
        # judge from the statement
        if sorted(after) != sorted(before) or any(after[n][2] != before[n][2] for n in before):
            ctx.violation('spec', f"-split {split!r}: atoms lost or duplicated", {'split': split, 'moltype': mt})
            continue
        want_name = {}
        for n, (rid, rn, an) in before.items():
            tgt = next((nn for nn, ats in news if an in ats), None) if rn == resname else None
            want_name[n] = tgt or rn
        if any(after[n][1] != want_name[n] for n in before):
            bad = next(n for n in before if after[n][1] != want_name[n])
            ctx.violation('spec', f"-split {split!r}: atom {before[bad]} ends in residue {after[bad][1]}, the specification states {want_name[bad]}",
                          {'split': split, 'moltype': mt})
        # same old residue + same new name <-> same new residue
        groups = {}
        for n in before:
            groups.setdefault((before[n][0], want_name[n]), set()).add(after[n][0])
        if any(len(v) != 1 for v in groups.values()) or len({next(iter(v)) for v in groups.values()}) != len(groups):
            ctx.violation('spec', f"-split {split!r}: new residues do not partition the old ones: {groups}", {'split': split, 'moltype': mt})
        meta_atoms = sorted(a for nd in mol.nodes for a in mol.nodes[nd]['graph'].nodes)
        if meta_atoms != sorted(before):
            ctx.violation('spec', f"-split {split!r}: the residue graph holds atoms {meta_atoms}, the molecule {sorted(before)}", {'split': split, 'moltype': mt})
        atoms_txt = '[' + '; '.join(f"({n}%nat, {before[n][0]}%Z, {lit(before[n][1])}, {lit(before[n][2])})" for n in sorted(before)) + ']'
        news_txt = '[' + '; '.join(f"({lit(nn)}, {lit(ats)})" for nn, ats in news) + ']'
        exprs.append(f"split_case {maxr}%Z {lit(resname)} {news_txt} {atoms_txt}")
        keep.append((split, before, after, want_name, maxr))
    res = core.coq_eval_cases(ctx, 'split', PRELUDE, exprs, chunk=100)
    mism = 0
    for (split, before, after, want_name, maxr), r in zip(keep, res):
        model = {int(i): (int(rid), rn) for i, rid, rn in r}
        # the model gives resname and the intermediate resid (old + max) of moved atoms; the final numbering is vermouth's regrouping
        for n in before:
            if model[n][1] != after[n][1]:
                mism += 1
                break
            moved = want_name[n] != before[n][1]
            if model[n][0] != before[n][0] + (maxr if moved else 0):
                mism += 1
                break
    ctx.extra['split'] = {'cases': len(keep), 'mismatches': mism}
    if mism:
        ctx.broken.append('correspondence:split_residue vs model/Select.v')


# ------------------------------------------------------------------ ligands end to end
def ligand_run(rng, timeout=90, by_name=False):
    if by_name:
        return ligand_run_by_name(rng, timeout)
    chain = systems.gen_moltype(rng, 'MA', nres=rng.randint(3, 6), shape='path')
    lig = systems.gen_moltype(rng, 'LIG', nres=1, resnames=['LG'])
    other = systems.gen_moltype(rng, 'MB', nres=rng.randint(1, 3), shape='path')
    nlig = rng.randint(1, 2)
    molecules = [('MA', 1), ('MB', 1), ('LIG', nlig)] if rng.random() < 0.5 else [('LIG', nlig), ('MA', 1), ('MB', 1)]
    inst = [n for n, c in molecules for _ in range(c)]
    ma = inst.index('MA')
    ligs = [i for i, n in enumerate(inst) if n == 'LIG']
    resids = rng.sample(range(1, chain['nres'] + 1), nlig)
    specs = [(f"MA#{ma}-{chain['resnames'][r - 1]}#{r}", f"LIG#{li}") for r, li in zip(resids, ligs)]
    rec = {'steps': []}

    def wrap_run_system(real):
        def run_system(self, mols):
            out = real(self, mols)
            for mi, mol in enumerate(self.topology.molecules):
                for node in mol.nodes:
                    if 'ligated' in mol.nodes[node]:
                        parent = next(iter(mol.neighbors(node)))
                        p, q = np.array(mol.nodes[node]['position']), np.array(mol.nodes[parent]['position'])
                        box = np.array(self.box, dtype=float)
                        dvec = p - q
                        dvec -= box * np.round(dvec / box)
                        step = float(self.nonbond_matrix.get_interaction(mi, mi, parent, node)[0])
                        rec['steps'].append({'mol': mi, 'parent_resid': int(mol.nodes[parent]['resid']), 'ligated': [int(x) for x in mol.nodes[node]['ligated']],
                                             'dist': float(np.linalg.norm(dvec)), 'step': step, 'pos': [float(x) for x in p]})
            return out
        return run_system
    with systems.Workdir() as wd:
        res = systems.run_gen_coords(wd, systems.top_text([chain, lig, other], molecules), seed=rng.randrange(10 ** 6), timeout=timeout, maxiter=200,
                                     box=np.array([6.0, 6.0, 6.0]), ligands=[list(s) for s in specs],
                                     hooks={'polyply.src.build_system:BuildSystem.run_system': wrap_run_system})
    return {'moltypes': [chain, lig, other], 'molecules': molecules, 'specs': specs, 'resids': resids, 'ligs': ligs}, res, rec


def ligand_run_by_name(rng, timeout=90):
    """several -lig options, one per host molecule, each naming the ligand by molecule name only"""
    chain = systems.gen_moltype(rng, 'MA', nres=rng.randint(3, 5), shape='path')
    lig = systems.gen_moltype(rng, 'LIG', nres=1, resnames=['LG'])
    nhost = rng.randint(2, 3)
    molecules = [('MA', nhost), ('LIG', rng.randint(1, 2))] if rng.random() < 0.5 else [('LIG', rng.randint(1, 2)), ('MA', nhost)]
    inst = [n for n, c in molecules for _ in range(c)]
    hosts = [i for i, n in enumerate(inst) if n == 'MA']
    resids = [rng.randint(1, chain['nres']) for _ in hosts]
    specs = [(f"MA#{h}-{chain['resnames'][r - 1]}#{r}", "LIG") for h, r in zip(hosts, resids)]
    rec = {'steps': [], 'left': None}

    def wrap_run_system(real):
        def run_system(self, mols):
            out = real(self, mols)
            for mi, mol in enumerate(self.topology.molecules):
                for node in mol.nodes:
                    if 'ligated' in mol.nodes[node]:
                        parent = next(iter(mol.neighbors(node)))
                        p, q = np.array(mol.nodes[node]['position']), np.array(mol.nodes[parent]['position'])
                        box = np.array(self.box, dtype=float)
                        dvec = p - q
                        dvec -= box * np.round(dvec / box)
                        step = float(self.nonbond_matrix.get_interaction(mi, mi, parent, node)[0])
                        rec['steps'].append({'mol': mi, 'parent_resid': int(mol.nodes[parent]['resid']), 'ligated': [int(x) for x in mol.nodes[node]['ligated']],
                                             'dist': float(np.linalg.norm(dvec)), 'step': step, 'pos': [float(x) for x in p]})
            return out
        return run_system

    def wrap_split(real):
        def split_ligands(self):
            out = real(self)
            rec['left'] = [(mi, n) for mi, mol in enumerate(self.topology.molecules) for n in mol.nodes if 'ligated' in mol.nodes[n]]
            rec['nres'] = [len(mol.nodes) for mol in self.topology.molecules]
            return out
        return split_ligands
    with systems.Workdir() as wd:
        res = systems.run_gen_coords(wd, systems.top_text([chain, lig], molecules), seed=rng.randrange(10 ** 6), timeout=timeout, maxiter=200,
                                     box=np.array([6.0, 6.0, 6.0]), ligands=[list(s) for s in specs],
                                     hooks={'polyply.src.build_system:BuildSystem.run_system': wrap_run_system,
                                            'polyply.src.annotate_ligands:AnnotateLigands.split_ligands': wrap_split})
    return {'moltypes': [chain, lig], 'molecules': molecules, 'specs': specs, 'resids': resids, 'hosts': hosts, 'by_name': True}, res, rec


def ligand_judge_by_name(case, res, rec):
    bad = []
    by = {mt['name']: mt for mt in case['moltypes']}
    inst = [n for n, c in case['molecules'] for _ in range(c)]
    if rec.get('left'):
        bad.append(f"after the ligands were handed back the molecules still hold ligand nodes {rec['left']}")
    if rec.get('nres') and rec['nres'] != [by[n]['nres'] for n in inst]:
        bad.append(f"after the ligands were handed back the molecules have {rec['nres']} residues, the topology {[by[n]['nres'] for n in inst]}")
    if bad:
        return bad
    if not res['ok']:
        return [] if res['exc_type'] == 'RunTimeout' else [f"gen_coords -lig fails: {res['exc_type']}: {str(res.get('exception'))[:150]}"]
    want = systems.expanded_atoms(case['moltypes'], case['molecules'])
    if [(r['resid'], r['resname'], r['name']) for r in res['rows']] != want:
        return ["with -lig the output does not list the atoms of the [ molecules ] section in order (molecule list changed)"]
    if sorted((st['mol'], st['parent_resid']) for st in rec['steps']) != sorted(zip(case['hosts'], case['resids'])):
        bad.append(f"ligands attached at {sorted((st['mol'], st['parent_resid']) for st in rec['steps'])}, the options name {sorted(zip(case['hosts'], case['resids']))}")
    for st in rec['steps']:
        if inst[st['ligated'][0]] != 'LIG':
            bad.append(f"molecule {st['ligated'][0]} attached as a ligand is not a LIG molecule")
        if abs(st['dist'] - st['step']) > 1e-6:
            bad.append(f"ligand placed {st['dist']:.4f} nm from its residue, one step is {st['step']:.4f} nm")
    return bad


def ligand_judge(case, res, rec):
    if case.get('by_name'):
        return ligand_judge_by_name(case, res, rec)
    bad = []
    if not res['ok']:
        if res['exc_type'] == 'RunTimeout':
            return bad
        return [f"gen_coords -lig fails: {res['exc_type']}: {str(res.get('exception'))[:150]}"]
    want = systems.expanded_atoms(case['moltypes'], case['molecules'])
    rows = res['rows']
    if [(r['resid'], r['resname'], r['name']) for r in rows] != want:
        return ["with -lig the output does not list the atoms of the [ molecules ] section in order (molecule list changed)"]
    if len(rec['steps']) != len(case['specs']):
        bad.append(f"{len(case['specs'])} ligand specifications, {len(rec['steps'])} ligands attached")
    off, start = 0, {}
    by = {mt['name']: mt for mt in case['moltypes']}
    inst = [n for n, c in case['molecules'] for _ in range(c)]
    for i, n in enumerate(inst):
        start[i] = off
        off += len(by[n]['atoms'])
    for st, (rid, li) in zip(sorted(rec['steps'], key=lambda s: s['ligated'][0]), sorted(zip(case['resids'], case['ligs']), key=lambda x: x[1])):
        if st['parent_resid'] != rid or st['ligated'][0] != li:
            bad.append(f"ligand molecule {st['ligated'][0]} attached to residue {st['parent_resid']}, specification names residue {rid} and ligand {li}")
        if abs(st['dist'] - st['step']) > 1e-6:
            bad.append(f"ligand placed {st['dist']:.4f} nm from its residue, one step is {st['step']:.4f} nm")
        out = rows[start[st['ligated'][0]]]
        if any(abs(a - b) > 1e-3 for a, b in zip(out['xyz'], st['pos'])):
            bad.append(f"ligand molecule {st['ligated'][0]} is written at {out['xyz']}, it was placed at {[round(x, 3) for x in st['pos']]}")
    return bad


# ------------------------------------------------------------------ gen_coords: -split together with a build file
class Probe(Exception):
    pass


def directives_of(d):
    return ([int(float(x[2])) for x in d.get('restraints', [])], [int(float(x[1])) for x in d.get('rw_options', [])])


def pipeline_run(case):
    """the options as gen_coords itself combines them: the residue graphs are observed where the next
    stage (find_starting_node_from_spec) receives them, then the run is stopped"""
    snap = {}

    def stop(real):
        def find_start(topology, start):
            snap['mols'] = [[(str(mol.nodes[n]['resname']), int(mol.nodes[n]['resid'])) + directives_of(mol.nodes[n]) for n in mol.nodes]
                            for mol in topology.molecules]
            raise Probe()
        return find_start
    with systems.Workdir() as wd:
        kw = dict(build=['o.bld'], files={'o.bld': build_text(case['blocks'])}, box=np.array([8.0, 8.0, 8.0]), timeout=60,
                  hooks={'polyply.src.gen_coords:find_starting_node_from_spec': stop})
        if case['split']:
            kw['split'] = [case['split']]
        res = systems.run_gen_coords(wd, systems.top_text(case['moltypes'], case['molecules']), **kw)
    return snap.get('mols'), res


def pipeline_judge(case, mols, res):
    if mols is None:
        return [f"gen_coords stops before the build options are in place: {res.get('exc_type')}: {str(res.get('exception'))[:150]}"]
    inst = [n for n, c in case['molecules'] for _ in range(c)]
    if len(mols) != len(inst):
        return [f"{len(mols)} molecules, the topology lists {len(inst)}"]
    bad = []
    present = set()
    if case['split']:
        head, *parts = case['split'].split(':')
        named = {a for part in parts for a in part.split('-')[1].split(',')}
        present = {mt['name'] for mt in case['moltypes'] if any(a['resname'] == head and a['name'] in named for a in mt['atoms'])}
    if present & set(inst) and not any(rn in ('NA', 'NB') for rows in mols for rn, *_ in rows):
        bad.append(f"-split {case['split']!r} created no residue")
    for idx, (name, rows) in enumerate(zip(inst, mols)):
        for rn, resid, restr, rws in rows:
            wr, ww = [], []
            for bname, lo, hi, ds in case['blocks']:
                if bname == name and lo <= idx < hi:
                    for rw, drn, a, b, nid, _ in ds:
                        if drn == rn and a <= resid < b:
                            (ww if rw else wr).append(nid)
            if (restr, rws) != (wr, ww):
                bad.append(f"molecule {idx} ({name}) residue {rn}{resid} carries restraints {restr} / rw_restrictions {rws}, "
                           f"the build file names {wr} / {ww} for it" + (f" (run with -split {case['split']})" if case['split'] else ''))
                return bad
    return bad


def gen_pipeline_case(rng):
    moltypes, molecules = gen_system(rng, multi=True)
    for mt in moltypes:
        for a in mt['atoms']:
            a['name'] = a['name'][0]
    split = None
    if rng.random() < 0.75:
        resname = rng.choice(sorted({rn for m in moltypes for rn in m['resnames']}))
        names = sorted({a['name'] for m in moltypes for a in m['atoms'] if a['resname'] == resname})
        rng.shuffle(names)
        chosen = names[:rng.randint(1, len(names))]
        cut = rng.randint(1, len(chosen)) if len(chosen) > 1 else 1
        news = [('NA', chosen[:cut])] + ([('NB', chosen[cut:])] if chosen[cut:] else [])
        split = resname + ''.join(f":{nn}-{','.join(ats)}" for nn, ats in news)
    blocks = gen_build(rng, moltypes, molecules, resnames=('RA', 'RB', 'NA', 'NA', 'NB') if split else ('RA', 'RB'))
    if rng.random() < 0.6:
        # a directive that runs "to the end of the molecule" (a stop value beyond every residue number, also beyond the
        # ones the residues get after -split), for all molecules of one type
        inst = [n for n, c in molecules for _ in range(c)]
        nid = 1 + max(d[4] for b in blocks for d in b[3])
        ds = [(rng.random() < 0.35, rn, rng.randint(0, 2), 1000, nid + k, rng.choice(['sphere', 'cylinder', 'rectangle']))
              for k, rn in enumerate(['RA', 'RB', 'NA', 'NB'] if split else ['RA', 'RB'])]
        cand = sorted({m['name'] for m in moltypes if split and split.split(':')[0] in m['resnames']} & set(inst)) or sorted(set(inst))
        blocks.append((rng.choice(cand), 0, len(inst), ds))
    return {'moltypes': moltypes, 'molecules': molecules, 'blocks': blocks, 'split': split}


def split_e2e(ctx, n):
    """complete gen_coords runs with one or two -split options on systems in which some residues are split and others are
    not (F33): the structure is written, lists every atom once in topology order, the named atoms under their new residue
    names and all other atoms under their old ones, and two atoms share a residue exactly if they stem from the same
    original residue and got the same new name (also when two options use the same new names)"""
    rng = ctx.rng
    queue = []
    for _ in range(n):
        case = gen_pipeline_case(rng)
        if case['split']:
            queue.append((case, None))
    while queue:
        case, forced = queue.pop(0)
        splits = [case['split']]
        head = case['split'].split(':')[0]
        others = sorted({rn for m in case['moltypes'] for rn in m['resnames']} - {head})
        if forced is not None:
            splits = list(forced)
        elif others and rng.random() < 0.7:
            # a second option for another residue name, re-using the names of the new residues
            rn2 = rng.choice(others)
            names2 = sorted({a['name'] for m in case['moltypes'] for a in m['atoms'] if a['resname'] == rn2})
            rng.shuffle(names2)
            cut = rng.randint(1, len(names2))
            news2 = [('NA', names2[:cut])] + ([('NB', names2[cut:])] if names2[cut:] else [])
            splits.append(rn2 + ''.join(f":{nn}-{','.join(ats)}" for nn, ats in news2))
            queue.insert(0, (case, list(reversed(splits))))       # the same two options in the other order as well
            ctx.feature('two_split_options_sharing_new_names')
        newname = {}
        for sp in splits:
            h, *parts = sp.split(':')
            for part in parts:
                for a in part.split('-')[1].split(','):
                    newname[(h, a)] = part.split('-')[0]
        with systems.Workdir() as wd:
            res = systems.run_gen_coords(wd, systems.top_text(case['moltypes'], case['molecules']), split=list(splits),
                                         box=np.array([8.0, 8.0, 8.0]), timeout=60, maxiter=200, seed=rng.randrange(10 ** 6))
        by = {mt['name']: mt for mt in case['moltypes']}
        inst = [nm for nm, c in case['molecules'] for _ in range(c)]
        want, groups = [], []
        for mi, nm in enumerate(inst):
            for a in by[nm]['atoms']:
                nn = newname.get((a['resname'], a['name']))
                want.append((nn or a['resname'], a['name']))
                groups.append((mi, a.get('res', a['resid']), nn))
        unsplit = any(g[2] is None for g in groups)
        ctx.case(('split_e2e', tuple(splits), json.dumps(case['molecules']), systems.top_text(case['moltypes'], case['molecules'])),
                 nontrivial=res['ok'] and unsplit, sample={'split': splits, 'molecules': case['molecules'], 'ok': res['ok']})
        ctx.feature('gen_coords_split_run_ok' if res['ok'] else 'gen_coords_split_run_failed')
        rep = {'split_e2e': {'moltypes': case['moltypes'], 'molecules': case['molecules'], 'split': splits}}
        if not res['ok']:
            if res['exc_type'] != 'RunTimeout':
                ctx.violation('spec', f"gen_coords -split {splits} fails ({res['exc_type']}: {str(res.get('exception'))[:120]}) on a system in which "
                              f"{'some residues are' if unsplit else 'no residue is'} left unsplit", rep)
            continue
        rows = res.get('rows') or []
        got = [(r['resname'], r['name']) for r in rows]
        if got != want:
            k = next((i for i, (a, b) in enumerate(zip(got, want)) if a != b), min(len(got), len(want)))
            ctx.violation('spec', f"gen_coords -split {splits}: row {k + 1} is {got[k] if k < len(got) else None}, the split assigns "
                          f"{want[k] if k < len(want) else None} ({len(got)} rows written, {len(want)} atoms)", rep)
            continue
        if not all(math.isfinite(x) for r in rows for x in r['xyz']):
            ctx.violation('spec', f"gen_coords -split {splits}: a written coordinate is not finite", rep)
            continue
        # the partition into residues: same written residue (molecule, number, name) <=> same original residue and same new name
        for i in range(len(rows)):
            for j in range(i + 1, len(rows)):
                if groups[i][0] != groups[j][0]:
                    continue
                same_written = (rows[i]['resid'], rows[i]['resname']) == (rows[j]['resid'], rows[j]['resname'])
                if same_written != (groups[i] == groups[j]):
                    ctx.violation('spec', f"gen_coords -split {splits}: atoms {i + 1} ({rows[i]['resid']}{rows[i]['resname']}:{rows[i]['name']}) and {j + 1} "
                                  f"({rows[j]['resid']}{rows[j]['resname']}:{rows[j]['name']}) of molecule {groups[i][0]} are written in "
                                  f"{'one residue' if same_written else 'different residues'}; they stem from original residues "
                                  f"{groups[i][1]} / {groups[j][1]} with new names {groups[i][2]} / {groups[j][2]}", rep)
                    break
            else:
                continue
            break


def pipeline_cases(ctx, n):
    rng = ctx.rng
    for _ in range(n):
        case = gen_pipeline_case(rng)
        mols, res = pipeline_run(case)
        hit = bool(mols) and any(r or w for rows in mols for _, _, r, w in rows)
        ctx.case(('pipeline', case['split'], build_text(case['blocks']), json.dumps(case['molecules'])), nontrivial=hit,
                 sample={'split': case['split'], 'build': build_text(case['blocks'])[:200], 'molecules': case['molecules']})
        ctx.feature('gen_coords_build_with_split' if case['split'] else 'gen_coords_build_without_split')
        if case['split'] and hit and any(rn in ('NA', 'NB') and (r or w) for rows in mols for rn, _, r, w in rows):
            ctx.feature('directive_on_a_residue_created_by_split')
        for b in pipeline_judge(case, mols, res)[:1]:
            ctx.violation('spec', f"C18 fails on the implementation: {b}", {'pipeline_case': case, 'failure': b})


def name_and_index_findings(ctx):
    """selection by molecule name AND index where the two disagree (known findings F41, F42): a [ molecule ] block whose
    index range holds a molecule of another name, with pair restraints / a persistence length; -start naming a molecule
    index that belongs to another name"""
    import polyply.src.gen_coords as gc
    from polyply.src.load_library import load_build_files
    chain = systems.gen_moltype(ctx.rng, 'MA', nres=4, shape='path', resnames=['RA'] * 4)
    other = dict(chain, name='MB')
    molecules = [('MA', 1), ('MB', 1)]
    with systems.Workdir() as wd:
        for what, text in (('distance_restraints', '[ molecule ]\nMA 0 2\n[ distance_restraints ]\n0 3 1.0 0.1\n'),
                           ('persistence_length', '[ molecule ]\nMA 0 2\n[ persistence_length ]\nWCM 1.0 0 3\n')):
            top = load_topology(wd, [chain, other], molecules)
            p = pathlib.Path(wd) / 'f41.bld'
            p.write_text(text)
            quiet(load_build_files, top, None, [p])
            hit = [k for k in top.distance_restraints if k[1] == 1 and top.distance_restraints[k]] if what == 'distance_restraints' else \
                [list(sp.mol_idxs) for sp in top.persistences if 1 in list(sp.mol_idxs)]
            ctx.case(('finding', 'F41', what), nontrivial=True)
            if hit:
                ctx.violation('spec', f"build file: the block '[ molecule ] MA 0 2' with [ {what} ] is applied to molecule 1, which is named MB "
                              f"(the index range is used without the name)", {'finding_probe': 'F41', 'directive': what}, finding='F41')
        top = load_topology(wd, [chain, other], molecules)
        try:
            start = quiet(gc.find_starting_node_from_spec, top, ['MA#1-RA#3'])
            accepted = start.get(1) is not None
        except Exception:  # noqa
            accepted = False
        # the ligand side of -lig: 'MB#2' while molecule 2 is of another type
        lig_t = systems.gen_moltype(ctx.rng, 'MB', nres=1, resnames=['LG'])
        lig_u = systems.gen_moltype(ctx.rng, 'MC', nres=1, resnames=['LG'])
        try:
            from polyply.src.annotate_ligands import AnnotateLigands
            top2 = load_topology(wd, [chain, lig_t, lig_u], [('MA', 1), ('MB', 1), ('MC', 1)])
            quiet(AnnotateLigands(top2, [('MA#0-RA#2', 'MB#2')]).run_system, top2)
            taken = [top2.molecules[0].nodes[n]['ligated'][0] for n in top2.molecules[0].nodes if 'ligated' in top2.molecules[0].nodes[n]]
        except Exception:  # noqa
            taken = []
        ctx.case(('finding', 'F42', 'lig'), nontrivial=True)
        if taken and top2.molecules[taken[0]].mol_name != 'MB':
            ctx.violation('spec', f"-lig MA#0-RA#2:MB#2: molecule 2 is named {top2.molecules[taken[0]].mol_name}, yet it is attached as the ligand "
                          f"(the name on the ligand side is not compared with the molecule at the index)", {'finding_probe': 'F42', 'side': 'ligand'}, finding='F42')
        ctx.case(('finding', 'F42', 'start'), nontrivial=True)
        if accepted:
            ctx.violation('spec', "-start MA#1-RA#3: molecule 1 is named MB, yet its residue 3 is made the start residue (the name is ignored when an index is given)",
                          {'finding_probe': 'F42'}, finding='F42')


def run(ctx):
    ctx.correspondences += ['load_build_files (restraints / rw_options per residue) vs model apply_build',
                            'parse_residue_spec, find_starting_node_from_spec vs model parse_spec / start_node',
                            'split_residue vs model split_atoms; partition judged from the statement',
                            'gen_coords -lig runs: molecule list unchanged, ligand one step from its residue, handed back',
                            'gen_coords with -split and a build file together: directives per residue observed where the next stage receives the residue graphs, judged from the statement']
    rng = ctx.rng
    exprs, keep = [], []
    with systems.Workdir() as wd:
        for _ in range(ctx.n(120, 1200)):
            moltypes, molecules = gen_system(rng, restart=True)
            blocks = gen_build(rng, moltypes, molecules)
            if len(keep) < 4:
                # directed: two separately numbered blocks; the directive names the first residues of the SECOND block, which
                # come after residues with higher numbers
                mt = systems.gen_moltype(rng, 'MA', nres=rng.randint(4, 6), shape='path', restart=True)
                while resid_of(mt, mt['nres'] - 1) == mt['nres'] or max(a['resid'] for a in mt['atoms'] if a['resname'] == 'RA') < 2:
                    mt = systems.gen_moltype(rng, 'MA', nres=rng.randint(4, 6), shape='path', restart=True)
                moltypes, molecules = [mt], [('MA', rng.randint(1, 2))]
                blocks = [('MA', 0, 2, [(rng.random() < 0.3, 'RB', 1, 2, 1, 'sphere'), (False, 'RA', 1, 2, 2, 'cylinder')])]
            if any(len({a['resid'] for a in mt['atoms']}) < mt['nres'] for mt in moltypes):
                ctx.feature('build_file_on_molecules_with_restarting_residue_numbers')
            try:
                impl = build_impl(wd, moltypes, molecules, blocks)
            except Exception as exc:  # noqa
                ctx.violation('spec', f"load_build_files fails on a valid build file: {type(exc).__name__}: {exc}", {'build': blocks, 'moltypes': moltypes, 'molecules': molecules})
                continue
            exp = build_expected(moltypes, molecules, blocks)
            flat = [t for m in exp for t in m]
            ctx.case(('build', build_text(blocks), json.dumps(molecules)), nontrivial=any(a or b for a, b in flat) and any(not a and not b for a, b in flat),
                     sample={'molecules': molecules, 'build': build_text(blocks)[:300]})
            ctx.feature('build_file')
            if any(len(b) > 1 for a, b in flat):
                ctx.feature('several_rw_restrictions_on_a_residue')
            if impl != exp:
                mi = next(i for i, (a, b) in enumerate(zip(impl, exp)) if a != b)
                ctx.violation('spec', f"build file: molecule {mi} ({[n for n, c in molecules for _ in range(c)][mi]}) carries (restraints, rw_options) per residue "
                              f"{impl[mi]}, the file names {exp[mi]}", {'build': blocks, 'moltypes': moltypes, 'molecules': molecules})
            by = {mt['name']: mt for mt in moltypes}
            inst = [n for n, c in molecules for _ in range(c)]
            blocks_txt = '[' + '; '.join(f"({lit(n)}, {lo}%Z, {hi}%Z, [" + '; '.join(f"({lit(bool(rw))}, {lit(rn)}, {a}%Z, {b}%Z, {nid}%nat)" for rw, rn, a, b, nid, _ in ds) + "])"
                                         for n, lo, hi, ds in blocks) + ']'
            mols_txt = '[' + '; '.join(f"({lit(n)}, [" + '; '.join(f"({resid_of(by[n], r)}%Z, {lit(by[n]['resnames'][r])})" for r in range(by[n]['nres'])) + "])" for n in inst) + ']'
            exprs.append(f"build_case {blocks_txt} {mols_txt}")
            keep.append(impl)
        try:
            res = core.coq_eval_cases(ctx, 'build', PRELUDE, exprs, chunk=60)
            mism = sum(1 for impl, r in zip(keep, res) if [[(list(a), list(b)) for a, b in m] for m in r] != [[(list(a), list(b)) for a, b in m] for m in impl])
            ctx.extra['build'] = {'cases': len(keep), 'mismatches': mism}
            if mism:
                ctx.broken.append('correspondence:load_build_files vs model/Select.v')
            spec_cases(ctx, wd, ctx.n(80, 800))
            split_cases(ctx, wd, ctx.n(60, 600))
        except core.CoqEvalError as exc:
            ctx.note(str(exc)[:800])
            ctx.broken.append('correspondence:selection vs model (evaluation failed)')
    pipeline_cases(ctx, ctx.n(40, 400))
    name_and_index_findings(ctx)
    split_e2e(ctx, ctx.n(16, 90))
    for _lig_k in range(ctx.n(9, 80)):
        case, res, rec = ligand_run(rng, by_name=(_lig_k % 3 == 2))
        if case.get('by_name'):
            ctx.feature('several_lig_options_by_name')
        ctx.case(('lig', json.dumps(case['specs']), json.dumps(case['molecules'])), nontrivial=res['ok'], sample={'specs': case['specs'], 'molecules': case['molecules'], 'steps': rec['steps'][:2]})
        ctx.feature('ligand_run_ok' if res['ok'] else 'ligand_run_failed')
        for b in ligand_judge(case, res, rec)[:2]:
            ctx.violation('spec', f"C18 fails on the implementation: {b}", {'ligand_case': case, 'failure': b})


def search(ctx):
    return


def replay(ctx, data):
    print(json.dumps(data, indent=1, default=str)[:2500])
    if 'split_e2e' in data:
        c = data['split_e2e']
        for mt in c['moltypes']:
            mt['bonds'] = [tuple(b) for b in mt['bonds']]
        with systems.Workdir() as wd:
            res = systems.run_gen_coords(wd, systems.top_text(c['moltypes'], [tuple(m) for m in c['molecules']]), split=list(c['split']),
                                         box=np.array([8.0, 8.0, 8.0]), timeout=60, maxiter=200, seed=1)
        print('replay: gen_coords -split', c['split'], '->', 'ok' if res['ok'] else f"{res['exc_type']}: {res.get('exception')}")
        for r in (res.get('rows') or []):
            print('replay:', r['resid'], r['resname'], r['name'])
        return 0 if res['ok'] else 1
    if 'pipeline_case' in data:
        case = data['pipeline_case']
        case['blocks'] = [(n, lo, hi, [tuple(d) for d in ds]) for n, lo, hi, ds in case['blocks']]
        case['molecules'] = [tuple(m) for m in case['molecules']]
        for mt in case['moltypes']:
            mt['bonds'] = [tuple(b) for b in mt['bonds']]
        mols, res = pipeline_run(case)
        bad = pipeline_judge(case, mols, res)
        print('replay:', ('statement violated: ' + bad[0]) if bad else 'statement satisfied')
        return 1 if bad else 0
    if 'build' in data:
        blocks = [(n, lo, hi, [tuple(d) for d in ds]) for n, lo, hi, ds in data['build']]
        molecules = [tuple(m) for m in data['molecules']]
        for mt in data['moltypes']:
            mt['bonds'] = [tuple(b) for b in mt['bonds']]
        with systems.Workdir() as wd:
            impl = build_impl(wd, data['moltypes'], molecules, blocks)
        exp = build_expected(data['moltypes'], molecules, blocks)
        print('replay:', 'statement violated' if impl != exp else 'statement satisfied')
        return 1 if impl != exp else 0
    return 0
