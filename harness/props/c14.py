"""C14 -- mixed exclusion distances are honoured atom by atom.

Proof: Props/C14.v over lib/Graph.v (ball = bounded bond distance) and model/Excl.v
(tag_exclusions + expand_excl + neighborhood).
Correspondence (tie D): generated force fields whose blocks prescribe exclusion distances 0-4,
link-made bonds, paths / trees / rings of residues, through the real MapToMolecule + ApplyLinks:
molecule-wide nrexcl and the set of generated exclusion pairs compared with the model evaluated
on the implementation's bond graph; the effective exclusion relation is judged independently."""
import itertools
import json

from harness import core, ffgen
from harness.coqio import lit

META = {
    'level': 'proof',
    'technique': 'Coq proof over a bond-graph ball lemma and a model of tag_exclusions/expand_excl; differential correspondence with MapToMolecule+ApplyLinks on generated force fields with mixed nrexcl',
    'gen_deps': [],
    'eval_deps': ['theories/model/Excl.vo'],
    'level_text': ("Theorems in Coq (Props/C14.v), for every bond graph and every assignment of block exclusion distances: the bounded "
                   "neighbour search visits exactly the atoms within k bonds; with the molecule-wide distance at the minimum, two "
                   "different atoms are excluded (within the molecule-wide distance or a generated explicit pair) exactly if their "
                   "bond distance is within the distance prescribed by the block of at least one of them; no unordered pair is "
                   "generated twice; with a uniform distance the molecule keeps it and nothing is generated. Tied to the code by "
                   "comparing nrexcl and the generated pairs with the real pipeline on generated force fields (blocks with distances "
                   "0-4, link-made bonds, branched and cyclic residue graphs)."),
    'level_note': ("Trusted: Coq kernel, harness, networkx single_source_shortest_path (modelled by the ball, validated by the runs). "
                   "No axioms. Explicit exclusion lines of blocks (also with more than two atoms, read as GROMACS reads them: first atom "
                   "against each of the others) are generated and judged on the implementation (kept as written, pairs excluded exactly "
                   "per statement); links in the C14 generator define no exclusions of their own."),
    'rule': ("cases = force fields with 2-3 blocks (nrexcl drawn from 0-4, equal or mixed), 1-3 bond-making links and (30%) a bond made by a by_atom_id link x residue "
             "graphs of 2-6 residues; plus all ordered pairs of distances 0..4 on a two-block chain; non-trivial = mixed distances "
             "with at least one generated pair; distinct by (force-field text, graph)"
             "; directed / added families (waves 10-12): exclusion lines declared by links"),
}

PRELUDE = """From PV Require Import Graph Excl.
Open Scope Z_scope.
"""


def gen_case(rng, pair=None):
    nb = 2 if pair else rng.randint(2, 3)
    blocks = []
    for i in range(nb):
        nrexcl = pair[i] if pair else rng.choice([0, 1, 1, 2, 3, 4])
        explicit = (not pair) and rng.random() < 0.35
        shortcut = (not pair) and rng.random() < 0.3
        blocks.append(ffgen.gen_block(rng, f'R{"ABC"[i]}', natoms=rng.randint(4, 5) if shortcut else rng.randint(3, 5) if explicit else rng.randint(1, 3),
                                      nrexcl=nrexcl))
        blocks[-1]['inters'].pop('exclusions', None)
        if explicit:
            # explicit exclusion lines of the block, also with more than two atoms (GROMACS: the first atom
            # of a line is excluded from each of the others, the others not from one another)
            rows = []
            for _ in range(rng.randint(1, 2)):
                idx = rng.sample(range(len(blocks[-1]['atoms'])), rng.randint(2, min(4, len(blocks[-1]['atoms']))))
                rows.append({'atoms': idx, 'params': [], 'meta': {}})
            blocks[-1]['inters']['exclusions'] = rows
    # bond-making links between every pair of residue names, first atoms
    links = []
    names = [b['name'] for b in blocks]
    first = {b['name']: b['atoms'][0]['name'] for b in blocks}
    last = {b['name']: b['atoms'][-1]['name'] for b in blocks}
    for a in names:
        for b in names:
            if first[a] == first[b] or a == b:
                links.append({'resnames': sorted({a, b}), 'atoms_attr': [], 'edges': [], 'meta': {},
                              'inters': {'bonds': [{'atoms': [('', last[a]), ('+', first[b])], 'params': ['1', '0.350', '1250.000'], 'meta': {}}]}})
    # generic link through atom names shared by all blocks would be ambiguous; instead name-specific links above
    seen = set()
    uniq = []
    for l in links:
        key = json.dumps(l, sort_keys=True)
        if key not in seen:
            seen.add(key)
            uniq.append(l)
    # a link that, besides joining the residues, bonds two atoms of ONE residue which the block itself leaves unbonded
    # (the bond graph the exclusion distances are measured on includes it)
    if not pair and rng.random() < 0.5 and uniq:
        l = rng.choice(uniq)
        nxt = [b for b in blocks if b['name'] in l['resnames'] and first[b['name']] == l['inters']['bonds'][0]['atoms'][1][1]]
        if nxt and len(nxt[0]['atoms']) >= 3:
            b = nxt[0]
            bonded = {frozenset(r['atoms']) for sec in ('bonds', 'constraints') for r in b['inters'].get(sec, [])}
            free = [(i, j) for i in range(len(b['atoms'])) for j in range(i + 1, len(b['atoms'])) if frozenset((i, j)) not in bonded]
            if free:
                # prefer the pair that is farthest apart inside the block: the link bond is a real shortcut
                d = bfs_dist([tuple(x) for x in bonded if len(x) == 2], range(len(b['atoms'])))
                free.sort(key=lambda ij: -d[ij[0]].get(ij[1], 99))
                i, j = free[0] if rng.random() < 0.7 else rng.choice(free)
                l['inters']['bonds'].append({'atoms': [('+', b['atoms'][i]['name']), ('+', b['atoms'][j]['name'])], 'params': ['1', '0.280', '900.000'], 'meta': {}})
    ff = {'blocks': blocks, 'links': uniq}
    g = ffgen.gen_resgraph(rng, ff, nres=rng.randint(2, 6))
    if pair:
        g = ffgen.gen_resgraph(rng, ff, nres=rng.randint(2, 4), shape='path')
        g['resnames'] = [names[i % 2] for i in range(g['nres'])]
    elif rng.random() < 0.3:
        # a bond made by a link that addresses atoms of the finished molecule by id (ring closure, cross link)
        by = {b['name']: b for b in blocks}
        natoms = sum(len(by[n]['atoms']) for n in g['resnames'])
        if natoms >= 3:
            a, b = sorted(rng.sample(range(1, natoms + 1), 2))
            ff['explicit_links'] = [{'bonds': [{'atoms': [a, b], 'params': ['1', '0.400', '3000.000']}]}]
    return ff, g


def bfs_dist(edges, n):
    adj = {}
    for a, b in edges:
        adj.setdefault(a, set()).add(b)
        adj.setdefault(b, set()).add(a)
    dist = {}
    for s in n:
        d = {s: 0}
        frontier = [s]
        while frontier:
            nxt = []
            for u in frontier:
                for v in adj.get(u, ()):
                    if v not in d:
                        d[v] = d[u] + 1
                        nxt.append(v)
            frontier = nxt
        dist[s] = d
    return dist


def link_exclusion_cases(ctx, n, extra=()):
    """exclusions a LINK declares (lines with several atoms: the first against each of the others; the same atoms may stand
    on several lines in another order): every declared pair is excluded at every junction the link applies to"""
    rng = ctx.rng
    todo = list(extra)
    for _ in range(n):
        seq = ['A'] + [rng.choice('AB') for _ in range(rng.randint(2, 5))]
        lines_ = [['SC2', '+BB', '+SC1'], ['+SC1', 'SC2', '+BB'], ['+BB', 'SC2', '+SC1']]
        rng.shuffle(lines_)
        todo.append({'seq': seq, 'lines': lines_[:rng.randint(2, 3)]})
    for case in todo:
        text = '\n'.join(['[ moleculetype ]', 'A 1', '[ atoms ]', '1 P1 1 A BB 1 0.0 72', '2 P1 1 A SC1 1 0.0 72', '3 P1 1 A SC2 1 0.0 72',
                          '[ bonds ]', 'BB SC1 1 0.30 1000', 'SC1 SC2 1 0.30 1000',
                          '[ moleculetype ]', 'B 2', '[ atoms ]', '1 P2 1 B BB 1 0.0 72', '2 P2 1 B SC1 1 0.0 72', '[ bonds ]', 'BB SC1 1 0.30 1000',
                          '[ link ]', 'resname "A|B"', '[ bonds ]', 'BB +BB 1 0.35 1200',
                          '[ link ]', '[ atoms ]', 'BB {"resname": "A"}', 'SC2 {"resname": "A"}', '+BB {"resname": "B"}', '+SC1 {"resname": "B"}',
                          '[ exclusions ]', '#meta {"edge": false}'] + [' '.join(l) for l in case['lines']] + ['[ edges ]', 'BB +BB']) + '\n'
        n_ = len(case['seq'])
        g = {'nres': n_, 'shape': 'path', 'resnames': list(case['seq']), 'edges': [(i, i + 1) for i in range(n_ - 1)], 'r0': 1,
             'keys': list(range(n_)), 'order': list(range(n_)), 'edge_order': list(range(n_ - 1)), 'flip': [False] * (n_ - 1)}
        out = ffgen.run_pipeline(text, g)
        ctx.case(('link_exclusions', json.dumps(case, sort_keys=True)), nontrivial='error' not in out, sample=case)
        ctx.feature('exclusion_lines_declared_by_a_link')
        if 'error' in out:
            ctx.violation('spec', f"the pipeline failed on a link that declares exclusions: {out['error']}", {'link_exclusions': case})
            continue
        atom = {(a['resid'], a['name']): a['key'] for a in out['links']['atoms']}
        want = set()
        for r in range(1, n_):
            if case['seq'][r - 1] == 'A' and case['seq'][r] == 'B':
                for ln in case['lines']:
                    ks = [atom[(r + 1, x[1:])] if x.startswith('+') else atom[(r, x)] for x in ln]
                    want |= {tuple(sorted((ks[0], k))) for k in ks[1:]}
        rows = [tuple(r['atoms']) for r in out['links']['inters'].get('exclusions', [])]
        have = {tuple(sorted((r[0], x))) for r in rows for x in r[1:]}
        if not want <= have:
            ident = {v: k for k, v in atom.items()}
            miss = sorted(want - have)[:3]
            ctx.violation('spec', f"C14 fails on the implementation: a link declares the exclusion lines {case['lines']} for every A->B junction of {case['seq']}; "
                          f"the pairs {[(ident[a], ident[b]) for a, b in miss]} are not excluded in the generated molecule", {'link_exclusions': case})


def run(ctx):
    ctx.correspondences += ['MapToMolecule + ApplyLinks vs model/Excl.v: molecule nrexcl and generated exclusion pairs',
                            'effective exclusion relation judged independently (bond distances by BFS)']
    rng = ctx.rng
    link_exclusion_cases(ctx, ctx.n(8, 60))
    cases = [(c['ff'], c['graph']) for _, c in core.corpus_cases('C14')]
    for p in itertools.product(range(5), repeat=2):
        cases.append(gen_case(rng, pair=p))
    cases += [gen_case(rng) for _ in range(ctx.n(120, 1200))]
    exprs, keep = [], []
    for ff, g in cases:
        text = ffgen.render_ff(ff)
        out = ffgen.run_pipeline(text, g)
        by = {b['name']: b for b in ff['blocks']}
        vals = sorted({by[n]['nrexcl'] for n in g['resnames']})
        ctx.feature('mixed' if len(vals) > 1 else 'uniform')
        if ff.get('explicit_links'):
            ctx.feature('bond_made_by_atom_id_link')
        if 'error' in out:
            ctx.violation('spec', f"the pipeline failed on a generated input: {out['error']}", {'ff': ff, 'graph': g, 'error': out['error']})
            ctx.case(json.dumps([text, g], sort_keys=True), nontrivial=False)
            continue
        atoms = out['links']['atoms']
        e_of = {a['key']: by[a['resname']]['nrexcl'] for a in atoms}
        edges = out['links']['edges']
        before_rows = [tuple(r['atoms']) for r in out['map']['inters'].get('exclusions', [])]
        after_rows = [tuple(r['atoms']) for r in out['links']['inters'].get('exclusions', [])]
        gen_rows = list(after_rows)
        for p in before_rows:
            if p in gen_rows:
                gen_rows.remove(p)
            else:
                ctx.violation('spec', f"C14 fails on the implementation: the explicit exclusion line {p} of a block is lost or altered by link application",
                              {'ff': ff, 'graph': g, 'failure': f'explicit exclusion {p} lost'})
        if before_rows:
            ctx.feature('explicit_block_exclusions')
            if any(len(p) > 2 for p in before_rows):
                ctx.feature('exclusion_line_with_3_or_more_atoms')

        def pairs_of(rows):
            # GROMACS [ exclusions ]: the first atom of a line against each of the others
            return {tuple(sorted((r[0], x))) for r in rows for x in r[1:]}
        before = pairs_of(before_rows)
        after = pairs_of(after_rows)
        gen_impl = [tuple(sorted(p)) for p in gen_rows]
        if any(len(p) != 2 for p in gen_rows):
            ctx.violation('spec', f"C14 fails on the implementation: generated exclusion lines are not pairs: {gen_rows[:4]}",
                          {'ff': ff, 'graph': g, 'failure': 'generated line is not a pair'})
        m_impl = out['links']['nrexcl']
        keys = [a['key'] for a in atoms]
        # the bond graph of the generated molecule: every bond and constraint it carries (block edges included)
        bond_edges = {tuple(sorted(r['atoms'][:2])) for sec in ('bonds', 'constraints') for r in out['links']['inters'].get(sec, [])}
        lacking = sorted(bond_edges - {tuple(sorted(e)) for e in edges})
        if lacking:
            ctx.feature('bond_without_edge')
        dist = bfs_dist(sorted(bond_edges | {tuple(sorted(e)) for e in out['map']['edges']}), keys)
        # independent judge of the statement
        bad = []
        m_want = min(vals)
        if m_impl != m_want:
            bad.append(f"molecule nrexcl {m_impl}, minimum of the block values is {m_want}")
        if len(vals) == 1 and gen_impl:
            bad.append(f"uniform exclusion distance {vals[0]} but exclusions were generated: {gen_impl}")
        if len(set(gen_impl)) != len(gen_impl):
            bad.append(f"an exclusion pair was generated twice: {gen_impl}")
        explicit = set(after)
        for a, b in itertools.combinations(keys, 2):
            d = dist[a].get(b, 10 ** 6)
            excluded = d <= m_impl or (a, b) in explicit
            want = d <= e_of[a] or d <= e_of[b] or (a, b) in before
            if excluded != want:
                bad.append(f"atoms {a},{b} at bond distance {d} with block distances {e_of[a]},{e_of[b]}: excluded={excluded}")
                break
        for b in bad[:1]:
            ctx.violation('spec', f"C14 fails on the implementation: {b}", {'ff': ff, 'graph': g, 'failure': b})
        ctx.case(json.dumps([text, g], sort_keys=True), nontrivial=len(vals) > 1 and bool(gen_impl),
                 sample={'block_nrexcl': {n: by[n]['nrexcl'] for n in by}, 'resnames': g['resnames'], 'nrexcl': m_impl, 'generated': gen_impl[:6]})
        exprs.append(f"generated {lit([tuple(e) for e in edges])} {'[' + '; '.join(f'({lit(k)}, {e_of[k]}%nat)' for k in keys) + ']'}")
        keep.append((ff, g, m_impl, sorted(set(gen_impl))))
    try:
        res = core.coq_eval_cases(ctx, 'excl', PRELUDE, exprs, chunk=150)
    except core.CoqEvalError as exc:
        ctx.note(str(exc)[:800])
        ctx.broken.append('correspondence:expand_excl vs model (evaluation failed)')
        return
    mism = 0
    for (ff, g, m_impl, gen_impl), r in zip(keep, res):
        m, pairs = r
        model = sorted({tuple(sorted(p)) for p in pairs})
        if m != m_impl or model != gen_impl:
            mism += 1
            if mism <= 3:
                ctx.note(f"correspondence: model (nrexcl {m}, pairs {model[:8]}) != impl (nrexcl {m_impl}, pairs {gen_impl[:8]})")
                ctx.extra.setdefault('disagreements', []).append({'ff': ff, 'graph': g})
    ctx.extra['correspondence'] = {'cases': len(keep), 'mismatches': mism, 'all_pairs_of_distances_0_4': True}
    if mism:
        ctx.broken.append('correspondence:tag_exclusions/expand_excl vs model/Excl.v')


def search(ctx):
    return


def replay(ctx, data):
    print(json.dumps(data, indent=1, default=str)[:3000])
    if 'link_exclusions' in data:
        before = len(ctx.violations)
        link_exclusion_cases(ctx, 0, extra=[data['link_exclusions']])
        print('replay:', ctx.violations[-1]['what'][:400] if len(ctx.violations) > before else 'every declared pair is excluded')
        return 1 if len(ctx.violations) > before else 0
    if 'ff' in data:
        out = ffgen.run_pipeline(ffgen.render_ff(data['ff']), data['graph'])
        print('replay: nrexcl', out.get('links', {}).get('nrexcl'), 'exclusions', out.get('links', {}).get('inters', {}).get('exclusions'))
        return 1
    return 0
