"""C08 -- a topology is read as its preprocessed, flattened equivalent.

Proof: Props/C08.v over model/TopPre.v (line cleaning, pragma state machine, section stack,
include recursion with a fresh director per file, finalisation): include / #error decision rule,
decoration invariance of cleaning and tokenisation, [molecules] expansion, section stack.
Correspondence (tie D), three-way: generated include trees (nested directories, repeated
includes, conditionals around includes and #error, #define placements, section orders,
[molecules] lists with repeated names, random comments / blank lines / whitespace / star lines)
are read by Topology.from_gmx_topfile as a tree, as the single file obtained by the harness's
textual flattening, and by the model; observables: defaults, defines, atom types, type tables,
nonbond_params, molecule-type blocks handed to the itp reader, molecule list, mol_idx_by_name,
error class.  Instance independence is checked by mutating one instance."""
import json
import os
import random

from harness import core, systems
from harness.coqio import lit

META = {
    'level': 'proof',
    'technique': 'Coq model of the TOPDirector line machine with proved decision rules (include / #error activity, decoration invariance, molecule expansion) and a proved inlining theorem for includes of files without molecule types (simulation argument); three-way differential correspondence (include tree, flattened file, model) on generated include trees',
    'gen_deps': ['Gen_top'],
    'eval_deps': ['theories/model/TopPre.vo', 'theories/gen/Gen_top.vo', 'theories/proofs/C08_inline_base.vo'],
    'level_text': ("Theorems in Coq (Props/C08.v) about the executable model of the topology reader: an #include is read and an #error "
                   "aborts exactly when no conditional is open or the open #ifdef/#ifndef (after #else inversion) holds for the macros "
                   "defined so far; cleaning removes comments and surrounding whitespace and tokenisation ignores the amount of inner "
                   "whitespace, so decorated files read identically; blank, comment-only and star lines are skipped; the molecule list "
                   "is the [molecules] entries of the whole include tree, in textual order, expanded. Textual inlining is a theorem for files without molecule types "
                   "(C08_include_is_textual_inlining, by a simulation between the fresh director the reader starts for an included file and "
                   "the including director run over the same lines, over the section table regenerated from the source): an unconditional "
                   "#include of a file holding only top-level sections (defaults, atom types, type tables, [ system ] / [ molecules ] lists, "
                   "with defines, conditionals and nested includes) is read exactly as its lines in place of the #include line, nested includes relative to the included "
                   "file, and leaves only the current-section register behind, which the next header overwrites. For molecule types, "
                   "conditional includes and the remaining shapes the equivalence with the flattened file is established by "
                   "correspondence: every generated include tree is read by the real parser as a tree and as the "
                   "flattened single file and by the model, and all three must agree on every observable and on the error class. "
                   "Instance independence (a heap property) is checked by mutation on the implementation only."),
    'level_note': ("Trusted: Coq kernel, the section-table extractor, harness (generator, flattener, observers), vermouth's itp reader "
                   "for the content of molecule-type blocks. No axioms. Inputs with an #include inside a [ moleculetype ] block or an "
                   "included file without its own section header are known findings F7a/F7b and are generated separately."),
    'rule': ("cases = include trees of depth <= 3 over 2-6 files in nested directories x placements of #define / #ifdef / #ifndef / "
             "#else / #endif around includes and #error x [molecules] lists with repeated names x random decorations; plus a malformed "
             "stream (unbalanced conditionals, missing files, unknown sections, unknown molecule names); non-trivial = at least one "
             "conditional include or #error and two files; distinct by the file tree text"
             "; directed / added families (waves 10-12): [ molecules ] entries anywhere in the include tree (own file, split, conditional); macro-definition files included inside molecule definitions"),
}


# ------------------------------------------------------------------ generator
def decorate(rng, line):
    toks = line.split()
    if line.startswith('#include') or not toks:
        body = line
    else:
        body = rng.choice([' ', '  ', '\t', ' \t ']).join(toks) if not line.startswith('[') else line
    pre = rng.choice(['', '', ' ', '\t', '   '])
    post = rng.choice(['', '', ' ', ' ; comment', '; c [ x ] #include "y"', '\t'])
    return pre + body + post


def moltype_lines(rng, name):
    n = rng.randint(1, 3)
    out = ['[ moleculetype ]', f'{name} 1', '[ atoms ]']
    for i in range(n):
        out.append(f'{i + 1} {rng.choice(["TA", "TB"])} 1 {name[:3]} A{i} {i + 1} 0.0 12.0')
    if n > 1:
        out.append('[ bonds ]')
        for i in range(n - 1):
            out.append(f'{i + 1} {i + 2} 1 0.3 1000')
        if rng.random() < 0.4:
            out += ['#ifdef FLEX', f'1 {n} 1 0.5 10', '#endif']
    return out


def gen_tree(rng, malformed=False):
    """returns dict path -> list of logical lines (undecorated), root path, description"""
    files = {}
    root = ['[ defaults ]', '1 2 no 1.0 1.0']
    macros = ['FLEX', 'POSRES', 'HEAVY', 'M1']
    defined = []
    for m in macros:
        if rng.random() < 0.4:
            root.append(f'#define {m}' + (' 1.0 2.0' if rng.random() < 0.3 else ''))
            defined.append(m)
    # force-field include (own directory), optionally nested
    ffdir = rng.choice(['ff', 'lib/ff', 'ff'])
    ff = ['[ atomtypes ]', 'TA 12.0 0.0 A 0.3 1.0', 'TB 14.0 0.0 A 0.35 0.8']
    if rng.random() < 0.6:
        bonded = ['[ bondtypes ]', 'TA TB 1 0.15 1000', '[ angletypes ]', 'TA TB TA 2 109.5 500']
        if rng.random() < 0.5:
            bonded += ['[ dihedraltypes ]', 'X TA TB X 9 0.0 1.0 1', 'X TA TB X 9 180.0 2.0 2']
        files[f'{ffdir}/bonded.itp'] = bonded
        if rng.random() < 0.5:
            # files of the same name in the directories of the outer files of the include chain, included by nobody:
            # an #include is resolved relative to the including file only
            decoy = ['[ bondtypes ]', 'TA TB 1 0.99 9999', '#define DECOY_READ']
            files['bonded.itp'] = decoy
            if '/' in ffdir:
                files[ffdir.split('/')[0] + '/bonded.itp'] = decoy
        inc = '#include "bonded.itp"'
        if rng.random() < 0.4:
            m = rng.choice(macros)
            ff += [rng.choice([f'#ifdef {m}', f'#ifndef {m}']), inc, '#endif']
        else:
            ff.append(inc)
    if rng.random() < 0.3:
        ff += ['[ nonbond_params ]', 'TA TB 1 0.33 0.9']
    if rng.random() < 0.4:
        # type entries in both branches of one conditional: each entry is stored with the branch it stands in
        m = rng.choice(macros)
        ff += [rng.choice([f'#ifdef {m}', f'#ifndef {m}']), '[ constrainttypes ]', 'TA TB 1 0.21', '[ bondtypes ]', 'TB TB 1 0.17 2000',
               '#else', '[ bondtypes ]', 'TB TB 1 0.19 1500', '[ constrainttypes ]', 'TA TA 1 0.25', '#endif']
    files[f'{ffdir}/ff.itp'] = ff
    root.append(f'#include "{ffdir}/ff.itp"')
    # the same file included more than once: a type table read twice (directly after the nested include: a
    # diamond), and a selector file whose content depends on a macro defined between its two inclusions
    if f'{ffdir}/bonded.itp' in files and rng.random() < 0.3:
        root.append(f'#include "{ffdir}/bonded.itp"')
    if rng.random() < 0.25:
        files['common/sel.itp'] = ['#ifdef LATE', '[ atomtypes ]', 'TC 16.0 0.0 A 0.4 1.0', '#else', '[ atomtypes ]', 'TD 18.0 0.0 A 0.45 1.2', '#endif']
        root += ['#include "common/sel.itp"', '#define LATE', '#include "common/sel.itp"']
    # optional late define + conditional error
    if rng.random() < 0.4:
        m = rng.choice(macros)
        kind = rng.choice(['#ifdef', '#ifndef'])
        blk = [f'{kind} {m}', f'#error this combination is not supported {m}']
        if rng.random() < 0.4:
            blk += ['#else', '#define ELSEBRANCH']
        blk.append('#endif')
        root += blk
    # molecule types: in the root or in included files, some conditional with #else alternatives
    names = []
    nmt = rng.randint(1, 3)
    for k in range(nmt):
        name = f'MOL{k}'
        names.append(name)
        lines = moltype_lines(rng, name)
        where = rng.choice(['root', 'file', 'file', 'file', 'file', 'cond'])
        pdir = rng.choice(['', 'mols/', 'mols/deep/'])
        if where in ('root', 'file') and rng.random() < 0.3:
            # a file of macro definitions (no section header of its own) included from within the molecule definition
            k = lines.index('[ bonds ]') if '[ bonds ]' in lines else len(lines)
            lines[k:k] = [f'#include "par_{name.lower()}.itp"']
            files[('' if where == 'root' else pdir) + f'par_{name.lower()}.itp'] = [f'#define PAR_{name} 0.3 1000', f'#define HAS_{name}']
        if where == 'root':
            root += lines
        elif where == 'file':
            p = pdir + f'{name.lower()}.itp'
            files[p] = lines
            root.append(f'#include "{p}"')
            if rng.random() < 0.2:
                root.append(f'#include "{p}"')      # repeated include
        else:
            m = rng.choice(macros)
            alt = moltype_lines(rng, name)
            files[f'mols/{name.lower()}_a.itp'] = lines
            files[f'mols/{name.lower()}_b.itp'] = alt
            root += [f'#ifdef {m}', f'#include "mols/{name.lower()}_a.itp"', '#else', f'#include "mols/{name.lower()}_b.itp"', '#endif']
    # the composition: in the root, in an included file of its own, or split over the root and included files (the
    # [ molecules ] entries of the whole tree form one list in textual order, whichever file defines the molecule types)
    composition = [(rng.choice(names), rng.randint(1, 3)) for _ in range(rng.randint(1, 4))]
    kind = 'wf'
    if malformed:
        kind = rng.choice(['unbalanced', 'missing_file', 'unknown_section', 'unknown_molecule', 'nested_ifdef', 'stray_else', 'bad_pragma'])
    entries = [f'{n} {c}' for n, c in composition] + (['GHOST 2'] if kind == 'unknown_molecule' else [])
    where = rng.choice(['root', 'root', 'file', 'split', 'cond'])
    if where == 'cond' and any(l.startswith('[ moleculetype') for l in root):
        # a conditional after a molecule type began in the same file is swallowed by the molecule block (finding F7a)
        where = 'split'
    if where == 'root':
        root += ['[ system ]', 'generated system', '[ molecules ]'] + entries
    elif where == 'file':
        files['setup/composition.inc'] = ['[ system ]', 'generated system', '[ molecules ]'] + entries
        root.append('#include "setup/composition.inc"')
    elif where == 'split':
        k = rng.randint(0, len(entries))
        j = rng.randint(k, len(entries))
        files['setup/part.inc'] = ['[ molecules ]'] + entries[k:j]
        root += ['[ system ]', 'generated system', '[ molecules ]'] + entries[:k] + ['#include "setup/part.inc"'] + entries[j:]
    else:
        m = rng.choice(macros)
        other = [(rng.choice(names), rng.randint(1, 3)) for _ in range(rng.randint(1, 3))]
        files['setup/small.inc'] = ['[ molecules ]'] + entries
        files['setup/large.inc'] = ['[ molecules ]'] + [f'{n} {c}' for n, c in other]
        root += ['[ system ]', 'generated system', f'#ifdef {m}', '#include "setup/large.inc"', '#else', '#include "setup/small.inc"', '#endif']
        if m in defined:
            composition = other
    if malformed:
        if kind == 'unbalanced':
            root.insert(rng.randint(2, len(root) - 3), '#ifdef NEVERCLOSED')
        elif kind == 'missing_file':
            root.insert(2, '#include "does/not/exist.itp"')
        elif kind == 'unknown_section':
            root[2:2] = ['[ nosuchsection ]', 'a b c']
        elif kind == 'unknown_molecule':
            pass
        elif kind == 'nested_ifdef':
            root[2:2] = ['#ifdef A', '#ifdef B', '#endif', '#endif']
        elif kind == 'stray_else':
            root.insert(2, rng.choice(['#else', '#endif']))
        else:
            root.insert(2, '#pragma once')
    files['system.top'] = root
    return {'files': files, 'root': 'system.top', 'kind': kind, 'defined': defined, 'composition': composition}


def write_tree(wd, tree, rng=None):
    for p, lines in tree['files'].items():
        full = os.path.join(wd, p)
        os.makedirs(os.path.dirname(full), exist_ok=True)
        out = []
        for ln in lines:
            if rng is not None:
                if rng.random() < 0.15:
                    out.append(rng.choice(['', '   ', '; a comment line', '* star comment [ x ]', '\t; x']))
                out.append(decorate(rng, ln))
            else:
                out.append(ln)
        with open(full, 'w') as fh:
            fh.write('\n'.join(out) + '\n')


def read_files(wd, tree):
    out = {}
    for p in tree['files']:
        with open(os.path.join(wd, p)) as fh:
            out[p] = fh.read().split('\n')
    return out


def flatten(files, path, defines, depth=0):
    """textual inlining of every #include whose enclosing condition holds for the macros defined
    before that point (outside conditionals); paths relative to the including file"""
    out = []
    meta = None
    d = os.path.dirname(path)
    for raw in files[path]:
        line = raw.split(';', 1)[0].strip()
        toks = line.split()
        if line.startswith('#ifdef') or line.startswith('#ifndef'):
            meta = (toks[1], line.startswith('#ifdef')) if len(toks) == 2 else meta
            out.append(raw)
        elif line.startswith('#else'):
            meta = (meta[0], not meta[1]) if meta else meta
            out.append(raw)
        elif line == '#endif':
            meta = None
            out.append(raw)
        elif toks and toks[0] == '#define' and len(toks) > 1:
            defines.add(toks[1])
            out.append(raw)
        elif toks and toks[0] == '#include' and len(toks) > 1:
            act = meta is None or ((meta[0] in defines) == meta[1])
            if act:
                sub = os.path.normpath(os.path.join(d, toks[1].strip('"')))
                if sub not in files:
                    raise FileNotFoundError(sub)
                out += flatten(files, sub, defines, depth + 1)
        else:
            out.append(raw)
    return out


# ------------------------------------------------------------------ implementation observer
def observe(wd, rootpath):
    import pathlib
    import polyply.src.top_parser as tp
    from polyply.src.topology import Topology
    blocks = []
    real = tp.read_itp

    def rec(lines, ff):
        blocks.append([str(x) for x in lines])
        return real(lines, ff)
    tp.read_itp = rec
    cwd = os.getcwd()
    os.chdir(wd)
    try:
        try:
            top = Topology.from_gmx_topfile(name='x', path=rootpath)
        except NotImplementedError:
            return {'error': 'ErrNotImpl'}
        except KeyError:
            return {'error': 'ErrKey'}
        except (IOError, OSError, ValueError, IndexError):
            return {'error': 'ErrIO'}
    finally:
        tp.read_itp = real
        os.chdir(cwd)
    types = {}
    for inter, tbl in top.types.items():
        types[inter] = [(list(k), [[str(x) for x in p] + [meta_txt(m)] for p, m in v]) for k, v in tbl.items()]
    return {'defaults': {k: (v if isinstance(v, str) else float(v)) for k, v in top.defaults.items()},
            'defines': {k: ([] if v is True else list(v)) for k, v in top.defines.items()},
            'atom_types': [(k, float(v['nb1']), float(v['nb2'])) for k, v in top.atom_types.items()],
            'types': types,
            'nonbond': sorted((sorted(k), float(v['nb1']), float(v['nb2'])) for k, v in top.nonbond_params.items()),
            'blocks': [[' '.join(l.split()) for l in b] for b in blocks],
            'molecules': [m.mol_name for m in top.molecules],
            'mol_idx_by_name': {k: list(v) for k, v in top.mol_idx_by_name.items()},
            'natoms': [len(m.molecule.nodes) for m in top.molecules]}


def meta_txt(m):
    """the conditional a table entry was read under, as text"""
    return 'always' if not m else f"{m['condition']} {m['tag']}"


NATOMS = {'bondtypes': 2, 'angletypes': 3, 'dihedraltypes': 4, 'constrainttypes': 2, 'pairtypes': 2}


def model_obs(res):
    """convert the model's shared record into the implementation's observables"""
    if res[0] != 0:
        return {'error': {1: 'ErrIO', 2: 'ErrNotImpl', 3: 'ErrKey', 4: 'ErrFuel'}[res[0]]}
    _, defaults, defines, content, blocks, mols = res
    out = {}
    names = ["nbfunc", "comb-rule", "gen-pairs", "fudgeLJ", "fudgeQQ"]
    dd = {}
    if defaults:
        toks = list(defaults[-1])
        dd = dict(zip(names[:len(toks)], toks))
        for k in ("nbfunc", "comb-rule", "fudgeLJ", "fudgeQQ"):
            if k in dd:
                dd[k] = float(dd[k])
        dd.setdefault('gen-pairs', 'no')
    out['defaults'] = dd
    out['defines'] = {k: list(v) for k, v in defines}
    at, types, nb = {}, {}, {}
    for sec, toks, meta in content:
        toks = list(toks)
        from harness.coqio import unsome
        m = unsome(meta)
        mtxt = 'always' if m is None else f"{'ifdef' if m[1] else 'ifndef'} {m[0]}"
        if sec == 'atomtypes':
            at[toks[0]] = (toks[0], float(toks[-2]), float(toks[-1]))
        elif sec in NATOMS:
            n = NATOMS[sec]
            inter = sec[:-5] + 's'
            types.setdefault(inter, [])
            key = toks[:n]
            hit = [e for e in types[inter] if e[0] == key]
            if hit:
                hit[0][1].append(toks[n:] + [mtxt])
            else:
                types[inter].append((key, [toks[n:] + [mtxt]]))
        elif sec == 'nonbond_params':
            nb[frozenset(toks[:2])] = (sorted(toks[:2]) if toks[0] != toks[1] else [toks[0]], float(toks[3]), float(toks[4]))
    out['atom_types'] = list(at.values())
    out['types'] = types
    out['nonbond'] = sorted(nb.values())
    out['blocks'] = [[' '.join(l.split()) for l in b] for b in blocks]
    mol = []
    for n, c in mols:
        mol += [n] * int(c)
    out['molecules'] = mol
    idx = {}
    for i, n in enumerate(mol):
        idx.setdefault(n, []).append(i)
    out['mol_idx_by_name'] = idx
    return out


PRELUDE = """From PV Require Import TopPre Gen_top.
Open Scope string_scope.
Definition show (r : result shared) :=
  match r with
  | Ok s => (0%nat, sh_defaults s, sh_defines s, sh_content s, sh_blocks s, sh_mols s)
  | Err ErrIO => (1%nat, [], [], [], [], []) | Err ErrNotImpl => (2%nat, [], [], [], [], [])
  | Err ErrKey => (3%nat, [], [], [], [], []) | Err ErrFuel => (4%nat, [], [], [], [], [])
  end.
Fixpoint fsget (f : list (string * list string)) (p : string) : option (list string) :=
  match f with [] => None | (k, v) :: r => if String.eqb k p then Some v else fsget r p end.
Definition go (files : list (string * list string)) (root : string) :=
  match fsget files root with
  | Some ls => show (read_top top_known_sections (fsget files) 10 (dirname root) ls sh_empty)
  | None => show (Err ErrIO)
  end.
"""


def printable(s):
    return ''.join(c if 32 <= ord(c) < 127 else ' ' for c in s)


def coq_tree(files, root):
    # tabs are whitespace for both sides; they are mapped to spaces only to keep the literal printable
    items = "; ".join(f"({lit(p)}, {lit([printable(l) for l in lines])})" for p, lines in files.items())
    return f"go [{items}] {lit(root)}"


def expected_type_guards(lines):
    """walk over the lines of a single (flattened) file: every bonded-type entry with the conditional open at that line"""
    out, sec, meta = {}, None, None
    for raw in lines:
        line = raw.split(';', 1)[0].strip()
        if not line:
            continue
        toks = line.split()
        if line.startswith('#ifdef') or line.startswith('#ifndef'):
            meta = (toks[0][1:], toks[1])
        elif line.startswith('#else'):
            meta = ({'ifdef': 'ifndef', 'ifndef': 'ifdef'}[meta[0]], meta[1]) if meta else None
        elif line == '#endif':
            meta = None
        elif line.startswith('#') or line.startswith('*'):
            continue
        elif line.startswith('['):
            sec = line.strip('[ ]').lower()
        elif sec in NATOMS:
            n = NATOMS[sec]
            out.setdefault(sec[:-5] + 's', []).append((tuple(toks[:n]), tuple(toks[n:]) + ('always' if meta is None else f'{meta[0]} {meta[1]}',)))
    return {k: sorted(v) for k, v in out.items()}


def strip_type_meta(obs):
    out = dict(obs)
    out['types'] = {k: [(key, [p[:-1] for p in ps]) for key, ps in v] for k, v in obs.get('types', {}).items()}
    return out


def only_always_vs_guard(tree_obs, flat_obs):
    """every differing type entry is unconditional in the tree reading and guarded in the flattened reading"""
    for k, v in tree_obs.get('types', {}).items():
        fv = dict((tuple(key), ps) for key, ps in flat_obs['types'].get(k, []))
        for key, ps in v:
            for a, b in zip(ps, fv.get(tuple(key), [])):
                if a[-1] != b[-1] and a[-1] != 'always':
                    return False
    return True


def same(a, b, skip=()):
    if 'error' in a or 'error' in b:
        return a.get('error') == b.get('error')
    return all(a[k] == b[k] for k in a if k in b and k not in skip)


def first_diff(a, b):
    if 'error' in a or 'error' in b:
        return f"{a.get('error', 'ok')} vs {b.get('error', 'ok')}"
    for k in a:
        if k in b and a[k] != b[k]:
            return f"{k}: {str(a[k])[:200]} vs {str(b[k])[:200]}"
    return None


def cond_moltype_include(tree):
    """signature of F7c: an #include of a file holding a [ moleculetype ] sits inside a conditional"""
    for p, lines in tree['files'].items():
        depth = 0
        for l in lines:
            if l.startswith('#if'):
                depth += 1
            elif l.startswith('#endif'):
                depth -= 1
            elif l.startswith('#include') and depth > 0:
                sub = os.path.normpath(os.path.join(os.path.dirname(p), l.split()[1].strip('"')))
                if any(x.startswith('[ moleculetype') for x in tree['files'].get(sub, [])):
                    return True
    return False


def independence(ctx, wd, rootpath):
    """each instance an independent copy: mutate node data of one instance, the others stay"""
    import pathlib
    from polyply.src.topology import Topology
    cwd = os.getcwd()
    os.chdir(wd)
    try:
        top = Topology.from_gmx_topfile(name='x', path=rootpath)
    except Exception:
        return
    finally:
        os.chdir(cwd)
    by = {}
    for i, m in enumerate(top.molecules):
        by.setdefault(m.mol_name, []).append(i)
    for name, idxs in by.items():
        if len(idxs) < 2:
            continue
        a, b = top.molecules[idxs[0]], top.molecules[idxs[1]]
        n0 = next(iter(a.molecule.nodes))
        a.molecule.nodes[n0]['atomname'] = 'MUTATED'
        a.molecule.add_node(9999, atomname='EXTRA', resid=77, resname='ZZZ')
        r0 = next(iter(a.nodes))
        a.nodes[r0]['resname'] = 'MUTRES'
        ctx.case(('independence', name), nontrivial=True)
        if b.molecule.nodes[n0]['atomname'] == 'MUTATED' or 9999 in b.molecule.nodes or b.nodes[r0]['resname'] == 'MUTRES':
            ctx.violation('spec', f"instances of molecule type {name} share node data: a change to one instance shows in another",
                          {'independence': True, 'molecule': name})
        return


def run(ctx):
    ctx.correspondences += ['Topology.from_gmx_topfile on include trees vs model/TopPre.v (all observables, error class)',
                            'include tree vs textually flattened single file (both read by the real parser)',
                            'decorated vs plain text (comments, blank lines, whitespace, star lines)',
                            'instance independence by mutation (implementation only)']
    rng = ctx.rng
    trees = [t for _, t in core.corpus_cases('C08')]
    n = ctx.n(120, 1200)
    trees += [gen_tree(rng, malformed=(i % 6 == 5)) for i in range(n)]
    exprs, impls, flats, plains = [], [], [], []
    for tree in trees:
        seed = rng.randrange(10 ** 9)
        with systems.Workdir() as wd:
            write_tree(wd, tree, random.Random(seed))
            files = read_files(wd, tree)
            impl = observe(wd, tree['root'])
            exprs.append(coq_tree(files, tree['root']))
            # flattened single file, read by the real parser
            flat = None
            try:
                flat_lines = flatten(files, tree['root'], set())
                with open(os.path.join(wd, 'flat.top'), 'w') as fh:
                    fh.write('\n'.join(flat_lines) + '\n')
                flat = observe(wd, 'flat.top')
                # the conditional every type entry of the flattened file stands under, from the text alone
                if 'error' not in flat:
                    want = expected_type_guards(flat_lines)
                    got = {k: sorted((tuple(key), tuple(p)) for key, ps in v for p in ps) for k, v in flat['types'].items()}
                    if got != want:
                        inter = next(k for k in set(got) | set(want) if got.get(k) != want.get(k))
                        ctx.violation('spec', f"type entries are stored under other conditionals than the ones they stand in: {inter} read as "
                                      f"{got.get(inter)}, the (flattened) text states {want.get(inter)}",
                                      {'tree': tree, 'kind': 'type_guards', 'flat_lines': flat_lines})
            except FileNotFoundError:
                flat = {'error': 'ErrIO'}
            if rng.random() < 0.3:
                independence(ctx, wd, tree['root'])
        with systems.Workdir() as wd2:
            write_tree(wd2, tree, None)
            plain = observe(wd2, tree['root'])
        impls.append(impl)
        flats.append(flat)
        plains.append(plain)
        nfiles = len(tree['files'])
        cond = sum(1 for ls in tree['files'].values() for l in ls if l.startswith('#if'))
        ctx.feature('kind_' + tree['kind'])
        ctx.feature('result_' + impl.get('error', 'ok'))
        ctx.case(json.dumps(tree['files'], sort_keys=True), nontrivial=nfiles >= 2 and cond >= 1,
                 sample={'files': {p: ls[:12] for p, ls in list(tree['files'].items())[:3]}, 'result': impl.get('error', 'ok'),
                         'molecules': impl.get('molecules')})
    try:
        res = core.coq_eval_cases(ctx, 'top', PRELUDE, exprs, chunk=40)
    except core.CoqEvalError as exc:
        ctx.note(str(exc)[:800])
        ctx.broken.append('correspondence:TOPDirector vs model (evaluation failed)')
        return
    # how many of the generated included files lie in the class of the inlining theorem (C08_include_is_textual_inlining)
    incl = [(p, ls) for tree in trees[:60] for p, ls in tree['files'].items() if p != tree['root']]
    try:
        cls = core.coq_eval_cases(ctx, 'inl', "From PV Require Import TopPre Gen_top C08_inline_base.\nOpen Scope string_scope.\n",
                                  [f"tbl_lines false {lit([printable(l) for l in ls])}" for _, ls in incl], chunk=200)
        ctx.extra['inlining_theorem_class'] = {'included_files_examined': len(incl), 'table_only_files_in_class': sum(1 for c in cls if c)}
        ctx.feature('included_files_in_inlining_theorem_class', sum(1 for c in cls if c))
    except core.CoqEvalError as exc:
        ctx.note(str(exc)[:400])
    mism = 0
    for tree, impl, flat, plain, r in zip(trees, impls, flats, plains, res):
        model = model_obs(r)
        if not same(model, impl, skip=('natoms',)):
            mism += 1
            if mism <= 3:
                ctx.note(f"correspondence (model vs tree): {first_diff(model, impl)}")
                ctx.extra.setdefault('disagreements', []).append({'tree': tree, 'diff': first_diff(model, impl)})
        # the statement itself, on the implementation
        if not same(impl, flat, skip=('blocks',)):
            fid = 'F7c' if cond_moltype_include(tree) and impl.get('error') != 'ErrIO' and flat.get('error') == 'ErrIO' else None
            if fid is None and 'error' not in impl and 'error' not in flat and same(strip_type_meta(impl), strip_type_meta(flat), skip=('blocks',)) \
                    and only_always_vs_guard(impl, flat):
                fid = 'F7d'     # the only difference: the conditional stored with type entries read through a conditional include
            ctx.violation('spec', f"reading the include tree differs from reading the flattened file: {first_diff(impl, flat)}",
                          {'tree': tree, 'kind': 'tree_vs_flat', 'diff': first_diff(impl, flat)}, finding=fid)
        elif 'error' not in impl and [l for b in impl['blocks'] for l in b if not l.startswith('[ system') and not l.startswith('[ molecules')] != \
                [l for b in flat['blocks'] for l in b if not l.startswith('[ system') and not l.startswith('[ molecules')]:
            pass   # block boundaries may differ between tree and flat; their content is compared through natoms below
        if 'error' not in impl and 'error' not in flat and impl['natoms'] != flat['natoms']:
            ctx.violation('spec', "molecule instances differ between include tree and flattened file",
                          {'tree': tree, 'kind': 'tree_vs_flat', 'natoms': [impl['natoms'], flat['natoms']]})
        if not same(impl, plain, skip=('blocks',)):
            ctx.violation('spec', f"comments / blank lines / whitespace change the result: {first_diff(impl, plain)}",
                          {'tree': tree, 'kind': 'decoration', 'diff': first_diff(impl, plain)})
        if 'error' not in impl and tree.get('kind') in ('wf', None):
            exp = []
            if 'composition' in tree:
                for nm, c in tree['composition']:
                    exp += [nm] * int(c)
            else:
                for raw in tree['files'][tree['root']][tree['files'][tree['root']].index('[ molecules ]') + 1:]:
                    nm, c = raw.split()
                    exp += [nm] * int(c)
            if impl['molecules'] != exp or any(impl['mol_idx_by_name'][k] != [i for i, x in enumerate(exp) if x == k] for k in set(exp)):
                ctx.violation('spec', f"molecule list {impl['molecules']} is not the expanded [molecules] section {exp}",
                              {'tree': tree, 'kind': 'molecules'})
    ctx.extra['correspondence'] = {'trees': len(trees), 'mismatches': mism}
    if mism:
        ctx.broken.append('correspondence:TOPDirector vs model/TopPre.v')
    findings(ctx)


def findings(ctx):
    """inputs outside the well-formedness conditions: known findings F7a / F7b"""
    base = ['[ defaults ]', '1 2 no 1.0 1.0', '[ atomtypes ]', 'TA 12.0 0.0 A 0.3 1.0']
    # F7a: conditional include inside a molecule type whose condition does not hold
    t1 = {'files': {'system.top': base + ['[ moleculetype ]', 'MOL0 1', '[ atoms ]', '1 TA 1 MOL A0 1 0.0 12.0',
                                         '#ifdef POSRES', '#include "posre.itp"', '#endif',
                                         '[ system ]', 's', '[ molecules ]', 'MOL0 1'],
                    'posre.itp': ['[ position_restraints ]', '1 1 1000 1000 1000']}, 'root': 'system.top', 'kind': 'f7a'}
    # F7b: included file without its own section header
    t2 = {'files': {'system.top': base[:2] + ['[ atomtypes ]', '#include "types.itp"', '[ moleculetype ]', 'MOL0 1', '[ atoms ]',
                                             '1 TA 1 MOL A0 1 0.0 12.0', '[ system ]', 's', '[ molecules ]', 'MOL0 1'],
                    'types.itp': ['TA 12.0 0.0 A 0.3 1.0']}, 'root': 'system.top', 'kind': 'f7b'}
    for tree, fid in ((t1, 'F7a'), (t2, 'F7b')):
        with systems.Workdir() as wd:
            write_tree(wd, tree, None)
            files = read_files(wd, tree)
            impl = observe(wd, tree['root'])
            flat_lines = flatten(files, tree['root'], set())
            with open(os.path.join(wd, 'flat.top'), 'w') as fh:
                fh.write('\n'.join(flat_lines) + '\n')
            flat = observe(wd, 'flat.top')
        ctx.case(('finding', fid), nontrivial=True)
        if not same(impl, flat, skip=('blocks',)):
            ctx.violation('spec', f"{fid}: include tree reads as {impl.get('error', 'ok')}, its flattened equivalent as {flat.get('error', 'ok')}",
                          {'tree': tree, 'kind': fid}, finding=fid)


def search(ctx):
    return


def replay(ctx, data):
    print(json.dumps(data, indent=1, default=str)[:3000])
    tree = data.get('tree')
    if not tree:
        return 0
    with systems.Workdir() as wd:
        write_tree(wd, tree, None)
        files = read_files(wd, tree)
        impl = observe(wd, tree['root'])
        try:
            with open(os.path.join(wd, 'flat.top'), 'w') as fh:
                fh.write('\n'.join(flatten(files, tree['root'], set())) + '\n')
            flat = observe(wd, 'flat.top')
        except FileNotFoundError:
            flat = {'error': 'ErrIO'}
    d = first_diff(impl, flat) if not same(impl, flat, skip=('blocks',)) else None
    print('replay: tree vs flattened:', d or 'identical')
    return 1 if d else 0
