"""C01 -- every residue is a verbatim, re-indexed copy of its force-field block.

Proof: Props/C01.v over model/Blocks.v (add_blocks = fold of merge_molecule): the built molecule
is the declarative layout (atoms re-indexed 0..N-1 in residue order, residue ids r0+k, charge
groups offset, names/types/charges/masses verbatim, every block interaction once per instance).
Correspondence (tie D): generated force fields (.ff text read by vermouth) x generated residue
graphs (paths, trees, rings; any first residue id; permuted node keys / insertion order / edge
order) through the real MapToMolecule: atoms and interactions compared exactly with the model;
after ApplyLinks and ApplyModifications the frame part of the statement is judged on the
implementation (only atoms / interactions targeted by a link or modification differ)."""
import json

from harness import core, ffgen
from harness.coqio import lit

META = {
    'level': 'proof',
    'technique': 'Coq proof that the fold of block merges equals a declarative layout, for all block lists and first residue ids; Coq proof of the frame of apply_mod with the applicability guard translated from the source; exact differential correspondence with MapToMolecule and ApplyModifications on generated force fields and residue graphs; frame conditions judged after ApplyLinks / ApplyModifications',
    'gen_deps': ['Gen_mods'],
    'eval_deps': ['theories/model/Blocks.vo', 'theories/model/Mods.vo', 'theories/gen/Gen_mods.vo'],
    'level_text': ("Theorem in Coq (Props/C01.v), by induction over the residue list with the fold invariant (contiguous indices, "
                   "residue id and charge group of the highest-index atom): for every first residue id and every list of non-empty "
                   "single-residue blocks the model of add_blocks/merge_molecule yields exactly the declarative layout; corollaries: "
                   "atom names, types, residue names, charges and masses are verbatim copies in residue order, indices are 0..N-1, "
                   "residue k is numbered r0+k, every block interaction appears once per instance with unchanged parameters and "
                   "guards. The model is tied to the code by exact comparison with the real MapToMolecule on generated .ff force "
                   "fields and residue graphs (including permuted node keys and insertion orders); the frame clauses (links and "
                   "modifications change only what they target) are judged on the implementation after the real ApplyLinks / "
                   "ApplyModifications. Terminal modifications: a model of apply_mod (model/Mods.v) with the applicability guard "
                   "translated from the source on every run (tie T, Gen_mods); theorems: keys and order kept, an atom is unchanged "
                   "unless an applicable target's residue contains it and the modification lists its name, an attribute is unchanged "
                   "unless such a modification lists it, interactions are only appended on atoms of an applicable target, "
                   "non-applicable targets are the identity, listed values are set; the model is compared with the real "
                   "ApplyModifications on the implementation's own pre-state. Multi-residue (from_itp) blocks: the same fold with the "
                   "first block shifted to the first residue id (add_blocks_m); theorems: layout = shifted copies, residue ids "
                   "contiguous from the first id for blocks numbered 1..k, unlabelled multi-residue blocks rejected; compared with "
                   "the real MapToMolecule on sequences of multi- and single-residue block instances."),
    'level_note': ("Trusted: Coq kernel, harness, vermouth's .ff reader and merge_molecule (modelled by hand, validated by the runs). "
                   "No axioms. Hypotheses: contiguous residue ids, non-empty single-residue blocks (the quantifier's domain)."),
    'rule': ("cases = generated force fields (1-3 blocks of 1-4 atoms with bonds/angles/constraints/dihedrals/pairs/exclusions, "
             "guards, nrexcl 0-4, 0-4 links) x residue graphs of 1-7 residues (path/tree/ring, first residue id 1/2/17) x "
             "relabellings; non-trivial = at least two residues and one block interaction; distinct by (force-field text, graph)"
             "; directed / added families (waves 10-12): links with replace statements and [ patterns ]; residue nodes with attributes named like atom attributes"),
}

PRELUDE = """From PV Require Import Blocks.
Open Scope string_scope.
Open Scope Z_scope.
Definition show (m : option mol) :=
  match m with
  | Some m => (map (fun ka => (fst ka, a_name (snd ka), a_type (snd ka), a_resid (snd ka), a_resname (snd ka), a_cg (snd ka), a_charge (snd ka), a_mass (snd ka))) (m_atoms m),
               map (fun i => (i_sec i, i_atoms i, i_params i, i_meta i)) (m_inters m))
  | None => ([], [])
  end.
"""


def coq_block(b):
    atoms = "[" + "; ".join(f"Build_atom {lit(a['name'])} {lit(a['atype'])} 1 {lit(b['name'])} {lit(a['cg'])} {lit(a['charge'])} {lit(a['mass'])}"
                            for a in b['atoms']) + "]"
    inters = []
    for sec, rows in b['inters'].items():
        for r in rows:
            meta = sorted((str(k), str(v)) for k, v in r['meta'].items())
            inters.append(f"Build_inter {lit(sec)} {lit(r['atoms'])} {lit(r['params'])} {lit(meta)}")
    return f"(Build_block {atoms} [{'; '.join(inters)}] {lit(b['nrexcl'])})"


def coq_case(ff, g):
    by = {b['name']: b for b in ff['blocks']}
    blocks = "[" + "; ".join(coq_block(by[n]) for n in g['resnames']) + "]"
    return f"show (add_blocks {lit(g['r0'])} {blocks})"


def norm_impl(snap):
    atoms = [(a['key'], a['name'], a['atype'], a['resid'], a['resname'], a['cg'], a['charge'], a['mass']) for a in snap['atoms']]
    inters = {}
    for sec, rows in snap['inters'].items():
        inters[sec] = [(r['atoms'], r['params'], sorted((str(k), str(v)) for k, v in r['meta'].items())) for r in rows]
    return atoms, inters


def norm_model(res):
    atoms = [(k, n, t, r, rn, cg, float(ch), float(ms)) for k, n, t, r, rn, cg, ch, ms in res[0]]
    inters = {}
    for sec, ats, prm, meta in res[1]:
        inters.setdefault(sec, []).append((list(ats), list(prm), sorted(tuple(x) for x in meta)))
    return atoms, inters


def judge_map(ff, g, snap, residue_atoms):
    """the statement on the implementation's molecule, recomputed independently"""
    bad = []
    by = {b['name']: b for b in ff['blocks']}
    idx = 0
    cgoff = 0
    exp_inters = {}
    for k, rn in enumerate(g['resnames']):
        b = by[rn]
        resid = g['r0'] + k
        mine = [a for a in snap['atoms'] if a['resid'] == resid]
        if [a['name'] for a in mine] != [a['name'] for a in b['atoms']]:
            bad.append(f"residue {resid} ({rn}) has atoms {[a['name'] for a in mine]}, its block has {[a['name'] for a in b['atoms']]}")
            return bad
        for j, (a, ba) in enumerate(zip(mine, b['atoms'])):
            want = (idx + j, ba['atype'], rn, float(ba['charge']), float(ba['mass']), ba['cg'] + cgoff)
            got = (a['key'], a['atype'], a['resname'], a['charge'], a['mass'], a['cg'])
            if got != want:
                bad.append(f"atom {a['name']} of residue {resid}: (index, type, resname, charge, mass, charge group) = {got}, expected {want}")
                return bad
        if residue_atoms.get(resid) != [idx + j for j in range(len(b['atoms']))]:
            bad.append(f"residue {resid}: fragment graph holds atoms {residue_atoms.get(resid)}")
        for sec, rows in b['inters'].items():
            for r in rows:
                exp_inters.setdefault(sec, []).append(([idx + i for i in r['atoms']], r['params']))
        cgoff = b['atoms'][-1]['cg'] + cgoff
        idx += len(b['atoms'])
    if len(snap['atoms']) != idx:
        bad.append(f"{len(snap['atoms'])} atoms, blocks have {idx}")
    got = {sec: sorted((r['atoms'], r['params']) for r in rows) for sec, rows in snap['inters'].items()}
    if got != {sec: sorted(v) for sec, v in exp_inters.items()}:
        bad.append(f"interactions {got} differ from one copy per instance {exp_inters}")
    return bad


def judge_links_frame(ff, g, before, after):
    """only atoms / interactions targeted by an applicable link may differ"""
    bad = []
    replaced_names = {pn[1] for l in ff['links'] for pn, _ in l['atoms_attr']}
    for a, b in zip(before['atoms'], after['atoms']):
        for k in ('key', 'name', 'resid', 'resname', 'cg', 'charge'):
            if a[k] != b[k]:
                bad.append(f"atom {a['key']} ({a['name']}): {k} changed from {a[k]} to {b[k]} during link application")
        if (a['atype'], a['mass']) != (b['atype'], b['mass']) and a['name'] not in replaced_names:
            bad.append(f"atom {a['key']} ({a['name']}): type/mass changed although no link replaces attributes of an atom of that name")
    if len(before['atoms']) != len(after['atoms']):
        bad.append("number of atoms changed during link application")
    link_secs = {sec for l in ff['links'] for sec in l['inters']}
    import collections
    for sec, rows in before['inters'].items():
        arows = after['inters'].get(sec, [])
        # every interaction of a block reappears once (several terms on the same atoms are several interactions)
        have = collections.Counter((tuple(x['atoms']), tuple(x['params'])) for x in arows)
        per_atoms = collections.Counter(tuple(x['atoms']) for x in arows)
        need_atoms = collections.Counter(tuple(r['atoms']) for r in rows)
        for r in rows:
            key = (tuple(r['atoms']), tuple(r['params']))
            if per_atoms[tuple(r['atoms'])] < need_atoms[tuple(r['atoms'])]:
                bad.append(f"block interaction {sec} {r['atoms']} {r['params']} disappeared during link application "
                           f"({need_atoms[tuple(r['atoms'])]} terms on these atoms in the blocks, {per_atoms[tuple(r['atoms'])]} afterwards)")
            elif have[key] < 1 and sec not in link_secs:
                bad.append(f"block interaction {sec} {r['atoms']} changed parameters although no link defines {sec}")
    return bad


MOD_FF = """[ moleculetype ]
GLY 1
[ atoms ]
1 P5 1 GLY BB 1 0.0 72.0
[ moleculetype ]
ALA 1
[ atoms ]
1 P4 1 ALA BB 1 0.0 72.0
2 C3 1 ALA SC1 2 0.0 36.0
[ bonds ]
BB SC1 1 0.27 1000
[ moleculetype ]
LYS 1
[ atoms ]
1 P5 1 LYS BB 1 0.0 72.0
2 C3 1 LYS SC1 2 0.0 36.0
3 Qd 1 LYS SC2 3 1.0 36.0
[ bonds ]
BB SC1 1 0.33 5000
SC1 SC2 1 0.28 5000
[ moleculetype ]
GLYC 1
[ atoms ]
1 P3 1 GLYC BB 1 0.0 72.0
2 C1 1 GLYC SC1 2 0.0 36.0
[ bonds ]
BB SC1 1 0.29 2000
[ moleculetype ]
LYSN 1
[ atoms ]
1 P2 1 LYSN BB 1 0.0 72.0
2 C3 1 LYSN SC1 2 0.0 36.0
3 Nd 1 LYSN SC2 3 0.0 36.0
[ bonds ]
BB SC1 1 0.33 5000
SC1 SC2 1 0.28 5000
[ moleculetype ]
PEO 1
[ atoms ]
1 N0 1 PEO BB 1 0.0 45.0
[ link ]
resname "GLY|ALA|LYS|GLYC|LYSN|PEO"
[ bonds ]
BB +BB 1 0.35 1250
[ link ]
resname "ALA"
[ atoms ]
SC1 {"replace": {"atomname": "SCA"}}
[ modification ]
N-ter
[ atoms ]
BB {"replace": {"atype": "Qd", "charge": 1}}
SC1 {"replace": {"atype": "X1"}}
[ modification ]
MID
[ atoms ]
SC2 {"replace": {"atype": "X2", "charge": 0}}
[ modification ]
C-ter
[ atoms ]
BB {"replace": {"atype": "Qa", "charge": -1}}
[ modification ]
SCL
[ atoms ]
SC1 { }
SC2 {"replace": {"atype": "X3"}}
[ bonds ]
SC1 SC2 1 0.5 777
"""
# the residue names polyply regards as protein residues (apply_modifications.protein_resnames); a
# modification is applicable to those only -- PEO, and GLYC / LYSN which merely start like one, stay as they are
def protein_names():
    """the exact names in the table of the current source (the table defines what is applicable)"""
    from polyply.src import apply_modifications
    return apply_modifications.protein_resnames.split('|')


MOD_RESNAMES = ['GLY', 'ALA', 'LYS', 'GLY', 'ALA', 'LYS', 'GLYC', 'LYSN', 'PEO']
MODS = {'N-ter': {'BB': {'atype': 'Qd', 'charge': 1.0}, 'SC1': {'atype': 'X1'}},
        'MID': {'SC2': {'atype': 'X2', 'charge': 0.0}},
        'C-ter': {'BB': {'atype': 'Qa', 'charge': -1.0}},
        'SCL': {'SC1': {}, 'SC2': {'atype': 'X3'}}}
MOD_INTERS = {'SCL': [('bonds', 'SC1', 'SC2', ['1', '0.5', '777'])]}


MODS_PRELUDE = """From PV Require Import Mods Gen_mods.
Open Scope string_scope.
Open Scope Z_scope.
Definition show_mods (m : option mol) :=
  match m with
  | None => None
  | Some m => Some (map (fun a => (at_key a, at_attrs a)) (ml_atoms m), map (fun i => (in_sec i, in_atoms i, in_params i)) (ml_inters m))
  end.
"""


def attr_text(v):
    return repr(float(v)) if isinstance(v, (int, float)) else str(v)


def coq_mod_case(g, plain, residue_atoms, mods):
    """the model's apply_mod on the implementation's own state before the modifications"""
    atoms = '[' + '; '.join(f"{{| at_key := {a['key']}; at_attrs := [(\"atomname\", {lit(a['name'])}); (\"atype\", {lit(a['atype'])}); "
                            f"(\"charge\", {lit(attr_text(a['charge']))})] |}}" for a in plain['atoms']) + ']'
    inters = '[' + '; '.join(f"{{| in_sec := {lit(sec)}; in_atoms := {lit(list(r['atoms']))}; in_params := {lit(list(r['params']))} |}}"
                             for sec, rows in plain['inters'].items() for r in rows) + ']'
    rname = {g['r0'] + i: n for i, n in enumerate(g['resnames'])}
    residues = '[' + '; '.join(f"{{| rs_resid := {rid}; rs_resname := {lit(rname[rid])}; rs_from_itp := true; rs_atoms := {lit(list(keys))} |}}"
                               for rid, keys in sorted(residue_atoms.items())) + ']'
    table = '[' + '; '.join(
        f"{{| md_name := {lit(name)}; md_atoms := [" + '; '.join(f"({lit(an)}, [" + '; '.join(f"({lit(k)}, {lit(attr_text(v))})" for k, v in rep.items()) + "])"
                                                                   for an, rep in ats.items()) +
        "]; md_inters := [" + '; '.join(f"{{| mi_sec := {lit(sec)}; mi_a := {lit(x)}; mi_b := {lit(y)}; mi_params := {lit(list(ps))} |}}"
                                         for sec, x, y, ps in MOD_INTERS.get(name, [])) + "] |}" for name, ats in MODS.items()) + ']'
    import re
    targets = '[' + '; '.join(f"({int(re.search(r'(\d+)$', spec).group(1))}%Z, {lit(mod)})" for spec, mod in mods) + ']'
    return f"show_mods (apply_mod mod_applicable {table} {residues} {{| ml_atoms := {atoms}; ml_inters := {inters} |}} {targets})"


def mod_interaction_probe(ctx):
    """a terminal modification that carries an interaction over three of the atoms it names: the interaction is written on
    exactly those atoms of the target residue"""
    text = MOD_FF + '\n'.join(['[ modification ]', 'ANG', '[ atoms ]', 'BB {"replace": {"charge": 0.5}}', 'SC1 {}', 'SC2 {}',
                                '[ angles ]', 'BB SC1 SC2 2 120 50', '[ bonds ]', 'BB SC2 1 0.41 900']) + '\n'
    for resid_pos in (0, 2):
        g = {'nres': 3, 'shape': 'path', 'resnames': ['LYS', 'GLY', 'LYS'], 'edges': [(0, 1), (1, 2)], 'r0': 1, 'keys': [0, 1, 2],
             'order': [0, 1, 2], 'edge_order': [0, 1], 'flip': [False, False]}
        mods = [(f'LYS{resid_pos + 1}', 'ANG')]
        out = ffgen.run_pipeline(text, g, mods=mods)
        ctx.case(('mod_interaction', resid_pos), nontrivial=True)
        ctx.feature('modification_with_a_three_atom_interaction')
        if 'error' in out:
            ctx.violation('spec', f"modification with an angle failed: {out['error']}", {'mod_interaction': resid_pos})
            continue
        key = {(a['resid'], a['name']): a['key'] for a in out['mods']['atoms']}
        want = [key[(resid_pos + 1, n)] for n in ('BB', 'SC1', 'SC2')]
        got = [r['atoms'] for r in out['mods']['inters'].get('angles', []) if r['params'][:2] == ['2', '120']]
        if got != [want]:
            ctx.violation('spec', f"modification ANG on LYS{resid_pos + 1} defines the angle BB-SC1-SC2 (atoms {want}); the molecule carries {got}",
                          {'mod_interaction': resid_pos})


def block_resid_probe(ctx):
    """a single-residue block whose definition is written with another residue number than 1 (an .itp cut out of a larger
    molecule): every residue of the generated molecule is numbered by its residue id, and the chain link applies"""
    text = '\n'.join(['[ moleculetype ]', 'AAA 1', '[ atoms ]', '1 P1 2 AAA A1 1 0.0 72', '2 P1 2 AAA A2 2 0.0 72', '[ bonds ]', 'A1 A2 1 0.3 1000',
                      '[ link ]', 'resname "AAA"', '[ bonds ]', 'A2 +A1 1 0.35 1250']) + '\n'
    for r0 in (1, 4):
        g = {'nres': 3, 'shape': 'path', 'resnames': ['AAA'] * 3, 'edges': [(0, 1), (1, 2)], 'r0': r0, 'keys': [0, 1, 2],
             'order': [0, 1, 2], 'edge_order': [0, 1], 'flip': [False, False]}
        out = ffgen.run_pipeline(text, g)
        ctx.case(('block_resid', r0), nontrivial=True)
        ctx.feature('block_written_with_a_residue_number_other_than_1')
        if 'error' in out:
            ctx.violation('spec', f"a block written with residue number 2 fails for residues {r0}..{r0 + 2}: {out['error']}", {'block_resid': r0})
            continue
        got = [(a['resid'], a['name']) for a in out['links']['atoms']]
        want = [(r0 + i, n) for i in range(3) for n in ('A1', 'A2')]
        nb = len(out['links']['inters'].get('bonds', []))
        if got != want or nb != 5:
            ctx.violation('spec', f"a block written with residue number 2, sequence AAA:3 numbered from {r0}: atoms {got} (expected {want}), "
                          f"{nb} bonds (3 of the blocks + 2 of the chain link expected)", {'block_resid': r0})


def mod_cases(ctx):
    """a modification changes nothing but the atoms it names in its target residue, whatever the
    node keys, the residue numbering and the other modifications of the same run"""
    rng = ctx.rng
    exprs, keep = [], []
    for _ in range(ctx.n(40, 400)):
        n = rng.randint(2, 6)
        g = {'nres': n, 'shape': 'path', 'resnames': [rng.choice(MOD_RESNAMES) for _ in range(n)], 'edges': [(i, i + 1) for i in range(n - 1)],
             'r0': rng.choice([1, 1, 5]), 'keys': list(range(n)), 'order': list(range(n)), 'edge_order': list(range(n - 1)), 'flip': [False] * (n - 1)}
        if rng.random() < 0.7:
            g = ffgen.permute_graph(rng, g)
        targets = rng.sample(range(n), rng.randint(1, min(3, n)))
        mods = []
        per_res = {}
        for t in targets:
            # SCL names SC1 and SC2 and bonds them: only residues that have both can be its target
            mod = 'SCL' if g['resnames'][t] in ('LYS', 'LYSN') and rng.random() < 0.5 else rng.choice(sorted(set(MODS) - {'SCL'}))
            resid = g['r0'] + t
            mods.append((f"{g['resnames'][t]}{resid}", mod))
            if g['resnames'][t] in protein_names():
                per_res[resid] = mod
            else:
                ctx.feature('mod_on_non_protein_residue')
        plain = ffgen.run_pipeline(MOD_FF, g)
        out = ffgen.run_pipeline(MOD_FF, g, mods=mods)
        ctx.case(('mod', json.dumps(g, sort_keys=True), json.dumps(mods)), nontrivial=len(mods) >= 2,
                 sample={'resnames': g['resnames'], 'keys': g['keys'], 'mods': mods})
        ctx.feature(f'mod_cases_{len(mods)}')
        if 'error' in out or 'error' in plain:
            ctx.violation('spec', f"modifications {mods} failed: {out.get('error') or plain.get('error')}",
                          {'mod_case': True, 'graph': g, 'mods': mods})
            continue
        for a, b in zip(plain['links']['atoms'], out['mods']['atoms']):
            want = dict(atype=a['atype'], charge=a['charge'], mass=a['mass'])
            want.update(MODS.get(per_res.get(a['resid']), {}).get(a['name'], {}))
            got = dict(atype=b['atype'], charge=None if b['charge'] is None else float(b['charge']), mass=b['mass'])
            if got != want or (a['name'], a['resid'], a['resname'], a['cg']) != (b['name'], b['resid'], b['resname'], b['cg']):
                ctx.violation('spec', f"modifications {mods}: atom {a['name']} of residue {a['resid']} is {got}, expected {want} "
                              f"(only atoms named by the modification of their own residue may change)",
                              {'mod_case': True, 'graph': g, 'mods': mods})
                break
        # interactions: the old ones unchanged and in place; new ones only those the modification of an applicable target
        # defines, on that residue's atoms
        want_inters = {sec: [dict(r) for r in rows] for sec, rows in plain['links']['inters'].items()}
        for spec, mod in mods:
            resid = int(''.join(ch for ch in spec if ch.isdigit()))
            if per_res.get(resid) is None or mod not in MOD_INTERS:
                continue
            key_of = {a['name']: a['key'] for a in plain['links']['atoms'] if a['resid'] == resid}
            for sec, x, y, ps in MOD_INTERS[mod]:
                want_inters.setdefault(sec, []).append({'atoms': [key_of[x], key_of[y]], 'params': list(ps), 'meta': {}})
                ctx.feature('modification_adds_interaction')
        if want_inters != out['mods']['inters']:
            ctx.violation('spec', f"modifications {mods}: interactions differ from the blocks' and links' plus those the applicable modifications define",
                          {'mod_case': True, 'graph': g, 'mods': mods})
        exprs.append(coq_mod_case(g, plain['links'], plain['residue_atoms'], mods))
        keep.append((g, mods, out['mods']))
    try:
        res = core.coq_eval_cases(ctx, 'mods', MODS_PRELUDE, exprs, chunk=40)
    except core.CoqEvalError as exc:
        ctx.note(str(exc)[:800])
        ctx.broken.append('correspondence:apply_mod vs model (evaluation failed)')
        return
    mism = 0
    for (g, mods, impl), r in zip(keep, res):
        im = ([(a['key'], a['name'], a['atype'], attr_text(a['charge'])) for a in impl['atoms']],
              [(sec, list(x['atoms']), list(x['params'])) for sec, rows in impl['inters'].items() for x in rows])
        if r is None:
            model = None
        else:
            atoms, inters = r[1]
            model = ([(int(k), dict(at).get('atomname'), dict(at).get('atype'), dict(at).get('charge')) for k, at in atoms],
                     [(sec, [int(x) for x in ats], list(ps)) for sec, ats, ps in inters])
        if model is None or model[0] != im[0] or sorted(model[1]) != sorted(im[1]):
            mism += 1
            if mism <= 3:
                ctx.note(f"correspondence (modifications {mods} on {g['resnames']}): model {str(model)[:300]} != impl {str(im)[:300]}")
                ctx.extra.setdefault('disagreements', []).append({'mod_case': True, 'graph': g, 'mods': mods})
    ctx.extra['mods_correspondence'] = {'cases': len(keep), 'mismatches': mism}
    if mism:
        ctx.broken.append('correspondence:apply_mod vs model/Mods.v')


def run(ctx):
    ctx.correspondences += ['MapToMolecule.run_molecule vs model/Blocks.v add_blocks (atoms and interactions, exact)',
                            'statement judged on the implementation after MapToMolecule (independent recomputation)',
                            'frame clauses judged after ApplyLinks and ApplyModifications',
                            'multi-residue (from_itp) blocks with any first residue id, node keys, leading / trailing single-residue blocks: judged from the statement']
    rng = ctx.rng
    cases = []
    for _, c in core.corpus_cases('C01'):
        cases.append((c['ff'], c['graph']))
    for _ in range(ctx.n(150, 1500)):
        ff = ffgen.gen_ff(rng, uniform_nrexcl=rng.choice([1, 1, 2, 3]))
        g = ffgen.gen_resgraph(rng, ff)
        if rng.random() < 0.5:
            g = ffgen.permute_graph(rng, g)
        if rng.random() < 0.25:
            # residue-graph nodes may carry any extra attributes (json input, gen_seq -label) -- also ones named like an atom
            # attribute; they describe the residue, the atoms stay those of the block
            g = dict(g, rattrs={str(i): {rng.choice(['charge', 'mass', 'charge_group']): rng.choice([5.0, 7, 3.5])}
                                for i in range(g['nres']) if rng.random() < 0.6})
        cases.append((ff, g))
    exprs, outs = [], []
    for ff, g in cases:
        text = ffgen.render_ff(ff)
        out = ffgen.run_pipeline(text, g)
        outs.append(out)
        exprs.append(coq_case(ff, g))
        nint = sum(len(r) for b in ff['blocks'] for r in b['inters'].values())
        ctx.case(json.dumps([text, g], sort_keys=True), nontrivial=g['nres'] >= 2 and nint >= 1,
                 sample={'ff': text[:400], 'resnames': g['resnames'], 'r0': g['r0'], 'keys': g['keys']})
        ctx.feature('shape_' + g['shape'])
        if g.get('rattrs'):
            ctx.feature('residue_nodes_with_attributes_named_like_atom_attributes')
        if 'error' in out:
            ctx.violation('spec', f"the pipeline failed on a generated input: {out['error']}", {'ff': ff, 'graph': g, 'error': out['error']})
            continue
        for b in judge_map(ff, g, out['map'], out['residue_atoms'])[:1]:
            ctx.violation('spec', f"C01 fails on the implementation: {b}", {'ff': ff, 'graph': g, 'failure': b})
        for b in judge_links_frame(ff, g, out['map'], out['links'])[:1]:
            ctx.violation('spec', f"C01 fails on the implementation: {b}", {'ff': ff, 'graph': g, 'failure': b, 'stage': 'links'})
    try:
        res = core.coq_eval_cases(ctx, 'blocks', PRELUDE, exprs, chunk=100)
    except core.CoqEvalError as exc:
        ctx.note(str(exc)[:800])
        ctx.broken.append('correspondence:MapToMolecule vs model (evaluation failed)')
        return
    mism = 0
    for (ff, g), out, r in zip(cases, outs, res):
        if 'error' in out:
            continue
        if norm_model(r) != norm_impl(out['map']):
            mism += 1
            if mism <= 3:
                ctx.note(f"correspondence: model {str(norm_model(r))[:300]} != impl {str(norm_impl(out['map']))[:300]}")
                ctx.extra.setdefault('disagreements', []).append({'ff': ff, 'graph': g})
    ctx.extra['correspondence'] = {'cases': len(cases), 'mismatches': mism}
    if mism:
        ctx.broken.append('correspondence:MapToMolecule vs model/Blocks.v')
    mod_cases(ctx)
    mod_interaction_probe(ctx)
    block_resid_probe(ctx)
    multi_residue_cases(ctx)
    removal_cases(ctx)
    pattern_replace_cases(ctx, ctx.n(12, 120))


def pattern_replace_cases(ctx, n, extra=()):
    """a link that carries replace statements (also an atom removal) and [ patterns ]: where no pattern line holds the link
    does not apply, and the residues stay the copies of their blocks that MapToMolecule made"""
    rng = ctx.rng
    todo = list(extra)
    for _ in range(n):
        nres = rng.randint(3, 6)
        todo.append({'resnames': [rng.choice(['RA', 'RB']) for _ in range(nres)], 'remove': rng.random() < 0.5,
                     'pattern_on': rng.choice(['BB', '+BB']), 'perm': rng.random() < 0.4, 'seed': rng.randrange(10 ** 6)})
    for case in todo:
        t0, t1 = 'P1', 'Q1'
        names = ['RA', 'RB']
        link_atoms = ['BB {"replace": {"atype": "%s", "charge": 1.0}}' % t1] + (['SC {"replace": {"atomname": null}}'] if case['remove'] else [])
        pat = 'BB {"resname": "RB"} +BB' if case['pattern_on'] == 'BB' else 'BB +BB {"resname": "RB"}'
        text = '\n'.join(
            sum([['[ moleculetype ]', f'{n} 1', '[ atoms ]', f'1 {t0} 1 {n} BB 1 0.0 72.0', f'2 C1 1 {n} SC 2 0.0 36.0', '[ bonds ]', 'BB SC 1 0.3 1000']
                 for n in names], []) +
            ['[ link ]', 'resname "RA|RB"', '[ atoms ]'] + link_atoms + ['[ bonds ]', 'BB +BB 1 0.350 1250.000', '[ patterns ]', pat]) + '\n'
        nres = len(case['resnames'])
        g = {'nres': nres, 'shape': 'path', 'resnames': list(case['resnames']), 'edges': [(i, i + 1) for i in range(nres - 1)],
             'r0': 1, 'keys': list(range(nres)), 'order': list(range(nres)), 'edge_order': list(range(nres - 1)), 'flip': [False] * (nres - 1)}
        if case['perm']:
            import random as _r
            g = ffgen.permute_graph(_r.Random(case['seed']), g)
        out = ffgen.run_pipeline(text, g)
        ctx.case(('pattern_replace', text, json.dumps(g, sort_keys=True)), nontrivial=True, sample={'resnames': case['resnames'], 'pattern': pat})
        ctx.feature('link_with_replace_and_patterns')
        rep = {'pattern_replace': case}
        if 'error' in out:
            ctx.violation('spec', f"the pipeline failed on a link with replace statements and [ patterns ]: {out['error']}", rep)
            continue
        applies = [i for i in range(1, nres) if case['resnames'][i - 1 if case['pattern_on'] == 'BB' else i] == 'RB']   # residue ids i with pair (i, i+1)
        want = []
        for r in range(1, nres + 1):
            hit = r in applies
            want.append((r, case['resnames'][r - 1], 'BB', t1 if hit else t0, 1.0 if hit else 0.0))
            if not (hit and case['remove']):
                want.append((r, case['resnames'][r - 1], 'SC', 'C1', 0.0))
        got = [(a['resid'], a['resname'], a['name'], a['atype'], a['charge']) for a in out['links']['atoms']]
        if sorted(got) != sorted(want):
            d = sorted(set(got) ^ set(want))[:3]
            ctx.violation('spec', f"C01 fails on the implementation: link with replace statements and pattern '{pat}' on residues {case['resnames']}: "
                          f"it applies to the pairs starting at residues {applies}; atoms differ from the blocks / the replace statements at {d}", rep)


def removal_cases(ctx):
    """links that remove an atom (replace atomname null): every atom that no applicable link targets keeps its name, type,
    residue id, residue name and charge; every block interaction that does not involve a removed atom reappears once per
    instance; the chain link is applied between all neighbours (F31, F32)"""
    rng = ctx.rng
    for k in range(ctx.n(12, 120)):
        natoms = rng.randint(2, 4)
        names = ['EO', 'EP', 'EQ', 'ER'][:natoms]
        victim = rng.choice(names[1:])
        everywhere = rng.random() < 0.5
        r0 = rng.choice([1, 1, 4])
        nres = rng.randint(2, 5)
        bonds = [(0, j) for j in range(1, natoms)]
        lines = ['[ moleculetype ]', 'PEO 1', '[ atoms ]']
        lines += [f'{i + 1} P{i + 1} 1 PEO {n} {i + 1} {0.5 * i} {45 + i}' for i, n in enumerate(names)]
        lines += ['[ bonds ]'] + [f'{names[a]} {names[b]} 1 0.{40 + b} 7000' for a, b in bonds]
        lines += ['[ link ]', 'resname "PEO"', '[ bonds ]', 'EO +EO 1 0.37 7000']
        # the victim is removed wherever the one-residue link applies: in every residue (it is never bonded to the EO of
        # the next residue), or -- vetoed by a non-edge to the EO of its own residue, to which it is bonded -- nowhere
        lines += ['[ link ]', 'resname "PEO"', '[ atoms ]', victim + ' {"replace": {"atomname": null}}', '[ non-edges ]',
                  f'{victim} +EO' if everywhere else f'{victim} EO']
        text = '\n'.join(lines) + '\n'
        g = {'nres': nres, 'shape': 'path', 'resnames': ['PEO'] * nres, 'edges': [(i, i + 1) for i in range(nres - 1)], 'r0': r0,
             'keys': list(range(nres)), 'order': list(range(nres)), 'edge_order': list(range(nres - 1)), 'flip': [False] * (nres - 1)}
        if rng.random() < 0.5:
            g = ffgen.permute_graph(rng, g)
        out = ffgen.run_pipeline(text, g)
        ctx.case(('removal', text, json.dumps(g, sort_keys=True)), nontrivial=everywhere)
        ctx.feature('atom_removal_link')
        rep = {'removal_ff': text, 'graph': g}
        if 'error' in out:
            ctx.violation('spec', f"the pipeline failed on an input with an atom-removing link: {out['error']}", rep)
            continue
        before, after = out['map'], out['links']
        gone = {a['key'] for a in before['atoms']} - {a['key'] for a in after['atoms']}
        bad = []
        if any(a['name'] != victim for a in before['atoms'] if a['key'] in gone):
            bad.append(f"atoms other than {victim} were removed: {sorted(gone)}")
        if not everywhere and gone:
            bad.append(f"atoms {sorted(gone)} were removed although the removing link matches nowhere")
        if everywhere and not gone:
            bad.append(f"no atom was removed although the removing link matches")
        bykey = {a['key']: a for a in after['atoms']}
        for a in before['atoms']:
            if a['key'] in gone:
                continue
            b = bykey.get(a['key'])
            if b is None or any(a[f] != b[f] for f in ('name', 'atype', 'resid', 'resname', 'charge', 'mass', 'cg')):
                bad.append(f"atom {a['key']} ({a['name']} of residue {a['resid']}), which no link targets, changed from {a} to {b}")
                break
        want = sorted((tuple(r['atoms']), tuple(r['params'])) for r in before['inters'].get('bonds', []) if not set(r['atoms']) & gone)
        first = {}
        for a in after['atoms']:
            if a['name'] == 'EO':
                first[a['resid']] = a['key']
        want += [((first[r0 + i], first[r0 + i + 1]), ('1', '0.37', '7000')) for i in range(nres - 1) if r0 + i in first and r0 + i + 1 in first]
        got = sorted((tuple(r['atoms']), tuple(r['params'])) for r in after['inters'].get('bonds', []))
        if sorted(want) != got and not bad:
            bad.append(f"bonds after link application {got}; the blocks and the chain link define {sorted(want)} on the atoms that are left")
        for b in bad[:1]:
            ctx.violation('spec', f"C01 fails on the implementation (atom-removing link): {b}", dict(rep, failure=b))


MULTI_FF = """[ moleculetype ]
DIM 1
[ atoms ]
1 P1 1 RA A 1 0.0 72
2 P1 1 RA B 2 0.5 36
3 P2 2 RB C 3 -0.5 45
[ bonds ]
A B 1 0.3 1000
B C 1 0.3 1000
[ moleculetype ]
RC 1
[ atoms ]
1 C1 1 RC D 1 0.0 72
[ moleculetype ]
CAP 1
[ atoms ]
1 C1 1 RD E 1 0.0 36
[ link ]
resname "RA|RB"
[ bonds ]
C +A 1 0.4 500
"""


# the blocks of MULTI_FF for the model: (name, type, block residue id, residue name, charge group, charge, mass)
MULTI_BLOCKS = {
    'DIM': {'atoms': [('A', 'P1', 1, 'RA', 1, 0.0, 72.0), ('B', 'P1', 1, 'RA', 2, 0.5, 36.0), ('C', 'P2', 2, 'RB', 3, -0.5, 45.0)],
            'bonds': [([0, 1], ['1', '0.3', '1000']), ([1, 2], ['1', '0.3', '1000'])]},
    'RC': {'atoms': [('D', 'C1', 1, 'RC', 1, 0.0, 72.0)], 'bonds': []},
    'CAP': {'atoms': [('E', 'C1', 1, 'RD', 1, 0.0, 36.0)], 'bonds': []},
}


def coq_multi_block(name):
    b = MULTI_BLOCKS[name]
    atoms = "[" + "; ".join(f"Build_atom {lit(n)} {lit(t)} {r} {lit(rn)} {cg} {lit(repr(ch))} {lit(repr(ms))}" for n, t, r, rn, cg, ch, ms in b['atoms']) + "]"
    inters = "[" + "; ".join(f"Build_inter \"bonds\" {lit(ats)} {lit(ps)} []" for ats, ps in b['bonds']) + "]"
    return f"(Build_block {atoms} {inters} 1)"


def multi_residue_cases(ctx):
    """residues that stem from a multi-residue block (from_itp): judged from the statement and compared with the
    model add_blocks_m (one entry per block instance)"""
    exprs, keep = [], []
    import contextlib
    import io
    import networkx as nx
    from polyply import MetaMolecule, MapToMolecule
    rng = ctx.rng
    for _ in range(ctx.n(30, 300)):
        r0 = rng.choice([1, 1, 2, 5, 17])
        nc = rng.randint(1, 3)
        tail = rng.random() < 0.4                     # a single-residue block after the copies
        lead = rng.random() < 0.3                     # ... or before them
        # a second from_itp molecule (one residue) bonded directly to the copies of the first: before or after them
        cap = rng.choice(['', '', 'before', 'after'])
        seq = (['RC'] if lead else []) + (['RD'] if cap == 'before' else []) + ['RA', 'RB'] * nc + (['RD'] if cap == 'after' else []) + \
            (['RC'] if tail else [])
        keys = rng.sample(range(0, 40), len(seq)) if rng.random() < 0.5 else list(range(len(seq)))
        g = nx.Graph()
        for i, k in enumerate(keys):
            attrs = {'resname': seq[i], 'resid': r0 + i}
            if seq[i] != 'RC':
                attrs['from_itp'] = 'CAP' if seq[i] == 'RD' else 'DIM'
            g.add_node(k, **attrs)
        for i in range(len(keys) - 1):
            g.add_edge(keys[i], keys[i + 1])
        vff = ffgen.load_ff(MULTI_FF)
        meta = MetaMolecule(g, force_field=vff, mol_name='m')
        rep = {'multi': True, 'r0': r0, 'seq': seq, 'keys': keys, 'cap': cap}
        ctx.case(('multi', r0, tuple(seq), tuple(keys)), nontrivial=nc >= 2 or lead or tail, sample=rep)
        ctx.feature('multi_residue_block')
        sink = io.StringIO()
        try:
            with contextlib.redirect_stderr(sink), contextlib.redirect_stdout(sink):
                MapToMolecule(vff).run_molecule(meta)
        except Exception as exc:  # noqa
            ctx.violation('spec', f"multi-residue block, first residue id {r0}, sequence {seq}: {type(exc).__name__}: {exc}", rep)
            continue
        want = []
        for i, rn in enumerate(seq):
            for an, at, ch in {'RA': [('A', 'P1', 0.0), ('B', 'P1', 0.5)], 'RB': [('C', 'P2', -0.5)], 'RC': [('D', 'C1', 0.0)], 'RD': [('E', 'C1', 0.0)]}[rn]:
                want.append((r0 + i, rn, an, at, ch))
        mol = meta.molecule
        got = [(mol.nodes[n]['resid'], mol.nodes[n]['resname'], mol.nodes[n]['atomname'], mol.nodes[n]['atype'], float(mol.nodes[n]['charge']))
               for n in sorted(mol.nodes)]
        if got != want:
            k = next((i for i, (a, b) in enumerate(zip(got, want)) if a != b), min(len(got), len(want)))
            ctx.violation('spec', f"multi-residue block, first residue id {r0}: atom {k} is {got[k] if k < len(got) else None}, the blocks state "
                          f"{want[k] if k < len(want) else None} ({len(got)} atoms, {len(want)} expected)", rep)
            continue
        for n in meta.nodes:
            frag = sorted(mol.nodes[a]['atomname'] for a in meta.nodes[n]['graph'].nodes)
            exp = sorted(an for rid, rn, an, _, _ in want if rid == meta.nodes[n]['resid'])
            if frag != exp:
                ctx.violation('spec', f"multi-residue block, first residue id {r0}: residue {meta.nodes[n]['resid']} holds atoms {frag}, its block part has {exp}", rep)
                break
        nb = len(mol.interactions.get('bonds', []))
        if nb != 2 * nc:
            ctx.violation('spec', f"multi-residue block: {nb} bonds after mapping, the block defines 2 per copy ({nc} copies)", rep)
        inst = ([(False, 'RC')] if lead else []) + ([(True, 'CAP')] if cap == 'before' else []) + [(True, 'DIM')] * nc + \
            ([(True, 'CAP')] if cap == 'after' else []) + ([(False, 'RC')] if tail else [])
        if cap:
            ctx.feature('two_different_from_itp_molecules_bonded')
        exprs.append(f"show (add_blocks_m {r0} [" + '; '.join(f"({lit(f)}, {coq_multi_block(n)})" for f, n in inst) + "])")
        keep.append((rep, ffgen.snapshot(mol)))
    try:
        res = core.coq_eval_cases(ctx, 'multi', PRELUDE, exprs, chunk=60)
    except core.CoqEvalError as exc:
        ctx.note(str(exc)[:800])
        ctx.broken.append('correspondence:MapToMolecule (multi-residue blocks) vs model (evaluation failed)')
        return
    mism = 0
    for (rep, snap), r in zip(keep, res):
        if norm_model(r) != norm_impl(snap):
            mism += 1
            if mism <= 3:
                ctx.note(f"correspondence (multi-residue blocks {rep}): model {str(norm_model(r))[:300]} != impl {str(norm_impl(snap))[:300]}")
                ctx.extra.setdefault('disagreements', []).append(rep)
    ctx.extra['multi_correspondence'] = {'cases': len(keep), 'mismatches': mism}
    if mism:
        ctx.broken.append('correspondence:MapToMolecule (multi-residue blocks) vs model add_blocks_m')


def search(ctx):
    return


def replay_removal(ctx, data):
    out = ffgen.run_pipeline(data['removal_ff'], data['graph'])
    print('replay: atoms after links', [(a['key'], a['name'], a['resid']) for a in out.get('links', {}).get('atoms', [])])
    print('replay: bonds after links', out.get('links', {}).get('inters', {}).get('bonds'))
    return 0


def replay(ctx, data):
    if 'removal_ff' in data:
        return replay_removal(ctx, data)
    if 'pattern_replace' in data:
        before = len(ctx.violations)
        pattern_replace_cases(ctx, 0, extra=[data['pattern_replace']])
        print('replay:', ctx.violations[-1]['what'][:400] if len(ctx.violations) > before else 'statement satisfied on this input')
        return 1 if len(ctx.violations) > before else 0
    print(json.dumps(data, indent=1, default=str)[:3000])
    if data.get('mod_case'):
        g = data['graph']
        out = ffgen.run_pipeline(MOD_FF, g, mods=[tuple(m) for m in data['mods']])
        print('replay:', out.get('error') or 'ran')
        return 1 if 'error' in out else 0
    if data.get('multi'):
        class C:
            def __init__(self):
                self.violations, self.rng = [], None

            def violation(self, *a, **k):
                self.violations.append(a)

            def case(self, *a, **k):
                pass

            def feature(self, *a, **k):
                pass

            def n(self, a, b):
                return 1
        import random
        c = C()

        class OneShot(random.Random):
            pass
        # re-run the exact sequence
        import contextlib, io, networkx as nx
        from polyply import MetaMolecule, MapToMolecule
        g = nx.Graph()
        for i, k in enumerate(data['keys']):
            attrs = {'resname': data['seq'][i], 'resid': data['r0'] + i}
            if data['seq'][i] != 'RC':
                attrs['from_itp'] = 'DIM'
            g.add_node(k, **attrs)
        for i in range(len(data['keys']) - 1):
            g.add_edge(data['keys'][i], data['keys'][i + 1])
        vff = ffgen.load_ff(MULTI_FF)
        meta = MetaMolecule(g, force_field=vff, mol_name='m')
        try:
            with contextlib.redirect_stderr(io.StringIO()), contextlib.redirect_stdout(io.StringIO()):
                MapToMolecule(vff).run_molecule(meta)
        except Exception as exc:  # noqa
            print('replay: mapping fails:', exc)
            return 1
        resids = sorted({meta.molecule.nodes[n]['resid'] for n in meta.molecule.nodes})
        ok = resids == list(range(data['r0'], data['r0'] + len(data['seq']))) and all(len(meta.nodes[n]['graph']) > 0 for n in meta.nodes)
        print('replay: residue ids', resids, 'ok' if ok else 'statement violated')
        return 0 if ok else 1
    if 'ff' in data and 'graph' in data:
        out = ffgen.run_pipeline(ffgen.render_ff(data['ff']), data['graph'])
        if 'error' in out:
            print('replay: pipeline failed', out['error'])
            return 1
        bad = judge_map(data['ff'], data['graph'], out['map'], out['residue_atoms']) + judge_links_frame(data['ff'], data['graph'], out['map'], out['links'])
        print('replay:', bad[:3] or 'statement satisfied')
        return 1 if bad else 0
    return 0
