"""C13 -- generated topology is independent of labelling, ordering and run history.

Proof: Props/C13.v: the molecule depends on the residue listing only through the residue-id-sorted
(resid, block) list (any permutation of the listing sorts to the same list), and writes that do not
define the same interaction may be folded in any order.
Correspondence (metamorphic, tie D): every generated force field / residue graph is run through
the real MapToMolecule + ApplyLinks twice -- as generated and relabelled (other node keys,
insertion order, edge order, edge orientation), with blocks and non-conflicting links listed in
another order -- and the atoms, interaction multisets and edges must coincide; multi-residue
(from_itp) fragments with permuted keys; gen_params on .json graphs with arbitrary node keys;
sequences of gen_params calls in one process versus each call in a fresh process."""
import io
import contextlib
import json
import os
import pathlib
import subprocess

from harness import core, ffgen, systems

META = {
    'level': 'proof',
    'technique': 'Coq proofs of sort-invariance of the residue listing and order-invariance of non-conflicting writes; metamorphic differential runs of the real pipeline (relabelling, definition order, histories)',
    'gen_deps': ['Gen_parser'],
    'eval_deps': [],
    'level_text': ("Theorems in Coq (Props/C13.v): sorting any two listings of the same (residue id, block) pairs gives the same list, "
                   "hence the same molecule from add_blocks (C01), for every permutation of node keys and insertion order; link "
                   "application is invariant under relabelling: for every bijective renaming of the node keys, any storage order of "
                   "nodes and edges and any edge orientation, the model of ApplyLinks yields the same interaction table, attribute "
                   "replacements and edges (the candidate assignments are a permutation of each other, matches are applied sorted by "
                   "(residue id, order label), which is proved to be a strict total order on matches); folding writes with pairwise "
                   "different keys in any order gives the same table, so definitions that do not define the same interaction may come "
                   "in any order. The implementation is tied to this by metamorphic pairs: every generated input is run as generated "
                   "and relabelled / reordered through the real processors and the results must coincide; from_itp fragments and "
                   ".json graphs with arbitrary node keys go through the same comparison. History independence is a heap property of "
                   "the process: it is checked by running sequences of gen_params calls (including an edit of the definitions file "
                   "between two calls) in one process against the same calls in fresh processes (no theorem)."),
    'level_note': ("Trusted: Coq kernel, harness. No axioms. That networkx' VF2 enumerates exactly the induced matches (the model's candidate set) is a "
                   "library contract validated by C02's correspondence and the metamorphic runs."),
    'rule': ("cases = (force field, residue graph) pairs of the C01/C02 generators x one random relabelling and one random definition "
             "order each; from_itp chains of 2-3 copies of a 2-residue block x key permutations; .json graphs with shifted / shuffled "
             "ids; histories of 2-4 gen_params calls; non-trivial = graphs with >= 3 residues and at least one applied link; "
             "distinct by (force-field text, graph, permutation)"
             "; directed / added families (waves 10-12): links around an atom removal in all definition orders; definitions spread over .ff and .itp files in both orders"),
}


def canon(snap):
    atoms = [(a['key'], a['name'], a['atype'], a['resid'], a['resname'], a['cg'], a['charge'], a['mass']) for a in snap['atoms']]
    inters = sorted((sec, tuple(r['atoms']), tuple(r['params']), tuple(sorted((str(k), str(v)) for k, v in r['meta'].items())))
                    for sec, rows in snap['inters'].items() for r in rows)
    return atoms, inters, snap['edges'], snap['nrexcl']


def conflict(l1, l2):
    """two links may write the same interaction key or replace the same atom"""
    def rn(l, atom):
        own = [attr['resname'] for pn, attr in l['atoms_attr'] if tuple(pn) == tuple(atom) and 'resname' in attr]
        return set(own) if own else set(l['resnames'] or [])
    if l1['resnames'] is None or l2['resnames'] is None:
        # atoms carrying their own residue name: the same molecule atoms only if the names can coincide position by position
        for sec, rows in l1['inters'].items():
            for r1 in rows:
                for r2 in l2['inters'].get(sec, []):
                    if [n for _, n in r1['atoms']] == [n for _, n in r2['atoms']] and r1['meta'].get('version', 1) == r2['meta'].get('version', 1) \
                            and all(rn(l1, a) & rn(l2, b) for a, b in zip(r1['atoms'], r2['atoms'])):
                        return True
        return False
    k1 = {(sec, tuple(n for _, n in r['atoms']), r['meta'].get('version', 1)) for sec, rows in l1['inters'].items() for r in rows}
    k2 = {(sec, tuple(n for _, n in r['atoms']), r['meta'].get('version', 1)) for sec, rows in l2['inters'].items() for r in rows}
    r1 = {pn[1] for pn, at in l1['atoms_attr'] if 'replace' in at}
    r2 = {pn[1] for pn, at in l2['atoms_attr'] if 'replace' in at}
    return bool(k1 & k2) or bool(r1 & r2)


def reorder_ff(rng, ff):
    blocks = list(ff['blocks'])
    rng.shuffle(blocks)
    links = list(ff['links'])
    # bubble non-conflicting neighbours
    for _ in range(len(links) * 2):
        if len(links) < 2:
            break
        i = rng.randrange(len(links) - 1)
        if not conflict(links[i], links[i + 1]):
            links[i], links[i + 1] = links[i + 1], links[i]
    return {'blocks': blocks, 'links': links}


ITP_FF = """[ moleculetype ]
DIM 1
[ atoms ]
1 P1 1 RA A 1 0.0 72
2 P1 1 RA B 2 0.0 72
3 P2 2 RB C 3 0.0 72
[ bonds ]
A B 1 0.3 1000
B C 1 0.3 1000
[ link ]
resname "RA|RB"
[ bonds ]
C +A 1 0.4 500
"""


def from_itp_case(keys, ncopies):
    import networkx as nx
    from polyply import MetaMolecule, MapToMolecule, ApplyLinks
    vff = ffgen.load_ff(ITP_FF)
    g = nx.Graph()
    names = ['RA', 'RB'] * ncopies
    for i, k in enumerate(keys):
        g.add_node(k, resname=names[i], resid=i + 1, from_itp='DIM')
    for i in range(len(keys) - 1):
        g.add_edge(keys[i], keys[i + 1])
    meta = MetaMolecule(g, force_field=vff, mol_name='m')
    sink = io.StringIO()
    with contextlib.redirect_stderr(sink), contextlib.redirect_stdout(sink):
        MapToMolecule(vff).run_molecule(meta)
        frag = {int(meta.nodes[n]['resid']): sorted(int(a) for a in meta.nodes[n]['graph'].nodes) for n in meta.nodes}
        ApplyLinks().run_molecule(meta)
    return canon(ffgen.snapshot(meta.molecule)), frag


GP_FF = """[ moleculetype ]
PEO 1
[ atoms ]
1 P1 1 PEO EC 1 0.0 72
[ moleculetype ]
PS 2
[ atoms ]
1 C1 1 PS BB 1 0.0 72
2 C2 1 PS R1 2 0.0 72
[ bonds ]
BB R1 1 0.27 8000
[ link ]
resname "PEO|PS"
[ bonds ]
EC +EC 1 0.33 7000
[ link ]
resname "PEO|PS"
[ bonds ]
EC +BB 1 0.35 6000
[ link ]
resname "PS"
[ bonds ]
BB +BB 1 0.37 5000
"""


def strip_header(text):
    lines = text.split('\n')
    i = next(k for k, l in enumerate(lines) if l.startswith('[ moleculetype'))
    return '\n'.join(lines[i:])


def gen_params_call(wd, spec, idx):
    import polyply.src.gen_itp as gi
    out = pathlib.Path(wd) / f'o{idx}.itp'
    sink = io.StringIO()
    with contextlib.redirect_stderr(sink), contextlib.redirect_stdout(sink):
        gi.gen_params(name='x', outpath=out, inpath=[pathlib.Path(wd) / 'gp.ff'], lib=None, **spec)
    with open(out) as fh:
        return strip_header(fh.read())


def json_graph(wd, resnames, ids, fn):
    nodes = [{'resname': rn, 'resid': i + 1, 'id': ids[i]} for i, rn in enumerate(resnames)]
    edges = [{'source': ids[i], 'target': ids[i + 1]} for i in range(len(ids) - 1)]
    with open(os.path.join(wd, fn), 'w') as fh:
        json.dump({'directed': False, 'multigraph': False, 'graph': {}, 'nodes': nodes, 'edges': edges}, fh)
    return pathlib.Path(wd) / fn


def histories(ctx):
    rng = ctx.rng
    with systems.Workdir() as wd:
        with open(os.path.join(wd, 'gp.ff'), 'w') as fh:
            fh.write(GP_FF)
        specs = [{'seq': ['PEO:3']}, {'seq': ['PS:2', 'PEO:2']}, {'seq': ['PEO:1', 'PS:3']}, {'seq': ['PS:1']}]
        # reference: each call in a fresh process
        ref = {}
        for i, spec in enumerate(specs):
            code = ("import pathlib,sys,io,contextlib\nimport polyply.src.gen_itp as gi\n"
                    f"gi.gen_params(name='x', outpath=pathlib.Path(r'{wd}')/'ref{i}.itp', inpath=[pathlib.Path(r'{wd}')/'gp.ff'], lib=None, seq={spec['seq']!r})\n")
            p = subprocess.run(['/venv/bin/python', '-c', code], env=core.env_for_impl(), capture_output=True, text=True, timeout=120)
            if p.returncode != 0:
                ctx.violation('spec', f"gen_params failed in a fresh process: {p.stderr[-300:]}", {'history': True, 'spec': spec})
                return
            with open(os.path.join(wd, f'ref{i}.itp')) as fh:
                ref[i] = strip_header(fh.read())
        for _ in range(ctx.n(6, 40)):
            seq = [rng.randrange(len(specs)) for _ in range(rng.randint(2, 4))]
            outs = [gen_params_call(wd, specs[i], k) for k, i in enumerate(seq)]
            ctx.case(('history', tuple(seq)), nontrivial=True, sample={'history_of_calls': [specs[i]['seq'] for i in seq]})
            for k, i in enumerate(seq):
                if outs[k] != ref[i]:
                    ctx.violation('spec', f"gen_params call {specs[i]['seq']} at position {k} of the history {[specs[j]['seq'] for j in seq]} "
                                  f"differs from the same call in a fresh process", {'history': True, 'sequence': seq, 'position': k})
                    break
        # calls that take their definitions from the shipped libraries and leave the file list at its default (the
        # programs' own way of calling), different libraries in one process
        lib_specs = [{'lib': ['martini3'], 'seq': ['PEO:5']}, {'lib': ['martini2'], 'seq': ['PS:3']}, {'lib': ['martini3'], 'seq': ['PEO:2', 'PS:2']}]
        lref = {}
        for i, spec in enumerate(lib_specs):
            code = ("import pathlib\nimport polyply.src.gen_itp as gi\n"
                    f"gi.gen_params(name='x', outpath=pathlib.Path(r'{wd}')/'lref{i}.itp', lib={spec['lib']!r}, seq={spec['seq']!r})\n")
            p = subprocess.run(['/venv/bin/python', '-c', code], env=core.env_for_impl(), capture_output=True, text=True, timeout=180)
            if p.returncode == 0:
                with open(os.path.join(wd, f'lref{i}.itp')) as fh:
                    lref[i] = strip_header(fh.read())
        if len(lref) == len(lib_specs):
            import polyply.src.gen_itp as gi
            for hist in ([1, 0], [0, 1, 0], [2, 1, 2]):
                outs = []
                for k, i in enumerate(hist):
                    out = pathlib.Path(wd) / f'l{k}.itp'
                    sink = io.StringIO()
                    try:
                        with contextlib.redirect_stderr(sink), contextlib.redirect_stdout(sink):
                            gi.gen_params(name='x', outpath=out, lib=list(lib_specs[i]['lib']), seq=list(lib_specs[i]['seq']))
                        outs.append(strip_header(out.read_text()))
                    except Exception as exc:  # noqa
                        outs.append(f'{type(exc).__name__}: {exc}')
                ctx.case(('library history', tuple(hist)), nontrivial=True, sample={'history_of_calls': [lib_specs[i] for i in hist]})
                ctx.feature('library_histories')
                for k, i in enumerate(hist):
                    if outs[k] != lref[i]:
                        ctx.violation('spec', f"gen_params -lib {lib_specs[i]['lib']} -seq {lib_specs[i]['seq']} at position {k} of the history "
                                      f"{[(lib_specs[j]['lib'], lib_specs[j]['seq']) for j in hist]} differs from the same call in a fresh process",
                                      {'history': True, 'library_history': hist, 'position': k})
                        break
        else:
            ctx.note('library histories skipped: a library call failed in a fresh process')
        # the definitions file is edited between two runs of one process (parameter scan on one path):
        # the later run must see the file as it is now, as a fresh process does
        edited = GP_FF.replace('1 0.33 7000', '1 0.33 7777').replace('1 0.27 8000', '1 0.29 8100')
        spec = {'seq': ['PS:2', 'PEO:2']}
        first = gen_params_call(wd, spec, 70)
        with open(os.path.join(wd, 'gp.ff'), 'w') as fh:
            fh.write(edited)
        second = gen_params_call(wd, spec, 71)
        code = ("import pathlib\nimport polyply.src.gen_itp as gi\n"
                f"gi.gen_params(name='x', outpath=pathlib.Path(r'{wd}')/'refe.itp', inpath=[pathlib.Path(r'{wd}')/'gp.ff'], lib=None, seq={spec['seq']!r})\n")
        p = subprocess.run(['/venv/bin/python', '-c', code], env=core.env_for_impl(), capture_output=True, text=True, timeout=120)
        with open(os.path.join(wd, 'gp.ff'), 'w') as fh:
            fh.write(GP_FF)
        ctx.case(('history', 'edited definitions'), nontrivial=True, sample={'history_of_calls': ['run', 'edit gp.ff', 'run']})
        if p.returncode == 0:
            with open(os.path.join(wd, 'refe.itp')) as fh:
                want = strip_header(fh.read())
            if second != want:
                ctx.violation('spec', "gen_params after an earlier run in the same process on the same (since edited) definitions file differs from a "
                              f"fresh process: {'it still uses the old definitions' if second == first else 'other difference'}",
                              {'history': True, 'edited_definitions': True})
        # .json graphs with arbitrary node ids
        for _ in range(ctx.n(6, 40)):
            n = rng.randint(2, 5)
            resnames = [rng.choice(['PEO', 'PS']) for _ in range(n)]
            base = gen_params_call(wd, {'seq': None, 'seq_file': json_graph(wd, resnames, list(range(n)), 'a.json')}, 90)
            ids = rng.sample(range(1, 50), n)
            try:
                other = gen_params_call(wd, {'seq': None, 'seq_file': json_graph(wd, resnames, ids, 'b.json')}, 91)
            except Exception as exc:  # noqa
                other = f'{type(exc).__name__}: {exc}'
            ctx.case(('json', tuple(resnames), tuple(ids)), nontrivial=True)
            if other != base:
                ctx.violation('spec', f"gen_params on the same residue graph with node ids {ids} instead of 0..{n - 1} gives a different result: {other[:200]}",
                              {'history': True, 'json_ids': ids, 'resnames': resnames})


def removal_order_cases(ctx, n, extra=()):
    """links that do not overwrite each other, one of which removes an atom the others name: every order of definition
    (sections of one file, or the same sections spread over files read in another order) gives the same molecule"""
    import itertools
    rng = ctx.rng
    todo = list(extra) + [ffgen.gen_removal_ff(rng) for _ in range(n)]
    for case in todo:
        results = {}
        for order in itertools.permutations(range(len(case['links']))):
            out = ffgen.run_pipeline(ffgen.removal_ff_text(case, order), ffgen.removal_graph(case))
            results[order] = out['error'] if 'error' in out else ffgen.removal_observed(out)
        ctx.case(('removal_order', json.dumps(case, sort_keys=True)), nontrivial=True, sample={'links': [l['name'] for l in case['links']], 'nres': case['nres']})
        ctx.feature('orders_of_links_around_an_atom_removal', len(results))
        base = results[tuple(range(len(case['links'])))]
        for order, r in results.items():
            if r != base:
                names = [case['links'][i]['name'] for i in order]
                diff = r if isinstance(r, str) or isinstance(base, str) else sorted(set(base[1]) ^ set(r[1]))[:3]
                ctx.violation('spec', f"C13 fails on the implementation: the links {[l['name'] for l in case['links']]} defined in the order {names} "
                              f"give another molecule on MON:{case['nres']}; differing interactions {diff}", {'removal_order': case})
                break


def file_order_cases(ctx, n, extra=()):
    """definitions spread over several input files (.ff and .itp), which do not define the same thing: gen_params -f a b and
    -f b a write the same molecule (atoms, interactions, exclusions)"""
    import contextlib
    import io
    import pathlib
    import polyply.src.gen_itp as gi
    from harness import systems
    rng = ctx.rng
    todo = list(extra)
    for _ in range(n):
        k = rng.randint(4, 6)
        todo.append({'k': k, 'nrexcl_a': rng.choice([2, 3]), 'pair': [1, rng.randint(k - 1, k)], 'extra': rng.choice(['pairs', 'exclusions', 'pairs']),
                     'seq': rng.choice([['AAA:1', 'BBB:1'], ['AAA:2', 'BBB:1'], ['BBB:1', 'AAA:1']])})
    for case in todo:
        k = case['k']
        ff = ['[ moleculetype ]', f"AAA {case['nrexcl_a']}", '[ atoms ]'] + [f'{i} P1 1 AAA a{i} {i} 0.0 72' for i in range(1, k + 1)] + \
             ['[ bonds ]'] + [f'a{i} a{i + 1} 1 0.3 1000' for i in range(1, k)] + \
             [f"[ {case['extra']} ]", f"a{case['pair'][0]} a{case['pair'][1]}" + (' 1' if case['extra'] == 'pairs' else '')] + \
             ['[ link ]', 'resname "AAA|BBB"', '[ bonds ]', f'a{k} +b1 1 0.35 1250', '[ link ]', 'resname "AAA|BBB"', '[ bonds ]', f'b2 +a1 1 0.35 1250',
              '[ link ]', 'resname "AAA"', '[ bonds ]', f'a{k} +a1 1 0.36 1300']
        itp = ['[ moleculetype ]', 'BBB 1', '[ atoms ]', '1 P2 1 BBB b1 1 0.0 72', '2 P2 1 BBB b2 2 0.0 72', '[ bonds ]', '1 2 1 0.3 1000']
        bodies = {}
        with systems.Workdir() as wd:
            pathlib.Path(wd, 'a.ff').write_text('\n'.join(ff) + '\n')
            pathlib.Path(wd, 'b.itp').write_text('\n'.join(itp) + '\n')
            for order in (['a.ff', 'b.itp'], ['b.itp', 'a.ff']):
                out = pathlib.Path(wd, 'o_' + order[0].replace('.', '_') + '.itp')
                sink = io.StringIO()
                try:
                    with contextlib.redirect_stderr(sink), contextlib.redirect_stdout(sink):
                        gi.gen_params(name='x', outpath=out, inpath=[pathlib.Path(wd, o) for o in order], lib=None, seq=list(case['seq']))
                    sec, rows = None, []
                    for ln in out.read_text().split('\n'):
                        ln = ln.split(';')[0].strip()
                        if ln.startswith('['):
                            sec = ln
                        elif ln:
                            rows.append((sec, tuple(ln.split())))
                    bodies[tuple(order)] = sorted(rows)
                except Exception as exc:  # noqa
                    bodies[tuple(order)] = f'{type(exc).__name__}: {exc}'
        ctx.case(('file_order', json.dumps(case, sort_keys=True)), nontrivial=True, sample=case)
        ctx.feature('definitions_spread_over_ff_and_itp_files_in_both_orders')
        a, b = bodies[('a.ff', 'b.itp')], bodies[('b.itp', 'a.ff')]
        if a != b:
            diff = (a, b) if isinstance(a, str) or isinstance(b, str) else sorted(set(a) ^ set(b))[:6]
            ctx.violation('spec', f"C13 fails on the implementation: gen_params -f a.ff b.itp and -f b.itp a.ff write different molecules for -seq {case['seq']} "
                          f"(block AAA with nrexcl {case['nrexcl_a']} and a [ {case['extra']} ] entry in a.ff, block BBB in b.itp); rows that differ: {diff}",
                          {'file_order': case})


def run(ctx):
    ctx.correspondences += ['metamorphic: relabelled / re-inserted / re-oriented residue graph through MapToMolecule + ApplyLinks',
                            'metamorphic: blocks and non-conflicting links listed in another order',
                            'from_itp fragments with permuted node keys',
                            'gen_params histories in one process vs fresh processes; .json graphs with arbitrary node ids']
    rng = ctx.rng
    removal_order_cases(ctx, ctx.n(8, 80))
    file_order_cases(ctx, ctx.n(6, 40))
    n = 0
    corpus = [c for _, c in core.corpus_cases('C13')]
    for k in range(len(corpus) + ctx.n(120, 1200)):
        if k < len(corpus):
            ff, g, g2, ff2 = corpus[k]['ff'], corpus[k]['graph'], corpus[k]['graph2'], corpus[k].get('ff2') or corpus[k]['ff']
            for gg in (g, g2):
                gg['edges'] = [tuple(e) for e in gg['edges']]
        else:
            if rng.random() < 0.2:
                # links whose atoms carry their own residue name, one per arrangement of names over three residues
                ff, names = ffgen.gen_arrangement_ff(rng)
                g = ffgen.gen_arrangement_graph(rng, names)
                ctx.feature('per_atom_resname_links')
            elif rng.random() < 0.1:
                # a link that replaces the type of an atom and another that selects the atom by its block's type
                ff, g = ffgen.gen_replace_select_ff(rng)
                ctx.feature('replace_and_select_links')
            else:
                ff = ffgen.gen_ff(rng, uniform_nrexcl=rng.choice([1, None]))
                g = ffgen.gen_resgraph(rng, ff)
            g2 = ffgen.permute_graph(rng, g)
            ff2 = reorder_ff(rng, ff)
            if len(ff['links']) == 2 and ff2['links'] == ff['links'] and not conflict(*ff['links']):
                ff2 = dict(ff2, links=list(reversed(ff['links'])))
        text = ffgen.render_ff(ff)
        base = ffgen.run_pipeline(text, g)
        rel = ffgen.run_pipeline(text, g2)
        reo = ffgen.run_pipeline(ffgen.render_ff(ff2), g)
        applied = 'links' in base and sum(len(v) for v in base['links']['inters'].values()) > sum(len(v) for v in base['map']['inters'].values())
        ctx.case(json.dumps([text, g, g2['keys'], g2['order']], sort_keys=True), nontrivial=g['nres'] >= 3 and applied,
                 sample={'resnames': g['resnames'], 'keys': g2['keys'], 'insertion_order': g2['order'], 'flip': g2['flip']})
        ctx.feature('applied' if applied else 'no_link')
        for other, what in ((rel, 'relabelled residue graph'), (reo, 'reordered definitions')):
            if ('error' in base) != ('error' in other):
                ctx.violation('spec', f"{what}: one run fails ({base.get('error') or other.get('error')}) and the other does not",
                              {'ff': ff, 'graph': g, 'graph2': g2, 'ff2': ff2, 'what': what})
            elif 'error' not in base and canon(base['links']) != canon(other['links']):
                a, b = canon(base['links']), canon(other['links'])
                which = 'atoms' if a[0] != b[0] else 'interactions' if a[1] != b[1] else 'edges'
                ctx.violation('spec', f"{what} changes the {which} of the generated molecule",
                              {'ff': ff, 'graph': g, 'graph2': g2, 'ff2': ff2, 'what': what})
        n += 1
    # multi-residue fragments
    for _ in range(ctx.n(30, 300)):
        nc = rng.randint(1, 3)
        keys0 = list(range(2 * nc))
        keys = rng.sample(range(0, 40), 2 * nc)
        try:
            a = from_itp_case(keys0, nc)
            b = from_itp_case(keys, nc)
        except Exception as exc:  # noqa
            ctx.violation('spec', f"multi-residue block with node keys {keys}: {type(exc).__name__}: {exc}", {'from_itp_keys': keys, 'copies': nc})
            ctx.case(('from_itp', tuple(keys)), nontrivial=True)
            continue
        ctx.case(('from_itp', tuple(keys)), nontrivial=nc >= 2, sample={'from_itp_keys': keys, 'fragments': b[1]})
        if a != b:
            ctx.violation('spec', f"multi-residue block: node keys {keys} give a different molecule / residue fragments than keys {keys0}: {b[1]}",
                          {'from_itp_keys': keys, 'copies': nc})
    histories(ctx)
    ctx.extra['metamorphic_pairs'] = n


def search(ctx):
    return


def replay(ctx, data):
    print(json.dumps(data, indent=1, default=str)[:3000])
    if 'file_order' in data:
        before = len(ctx.violations)
        file_order_cases(ctx, 0, extra=[data['file_order']])
        print('replay:', ctx.violations[-1]['what'][:400] if len(ctx.violations) > before else 'same molecule for both orders of the input files')
        return 1 if len(ctx.violations) > before else 0
    if 'removal_order' in data:
        before = len(ctx.violations)
        removal_order_cases(ctx, 0, extra=[data['removal_order']])
        print('replay:', ctx.violations[-1]['what'][:400] if len(ctx.violations) > before else 'same molecule in every order')
        return 1 if len(ctx.violations) > before else 0
    if 'from_itp_keys' in data:
        nc = data['copies']
        try:
            same = from_itp_case(list(range(2 * nc)), nc) == from_itp_case(data['from_itp_keys'], nc)
        except Exception as exc:  # noqa
            print('replay:', type(exc).__name__, exc)
            return 1
        print('replay: same molecule' if same else 'replay: different molecule')
        return 0 if same else 1
    if 'ff' in data:
        base = ffgen.run_pipeline(ffgen.render_ff(data['ff']), data['graph'])
        rel = ffgen.run_pipeline(ffgen.render_ff(data['ff']), data['graph2'])
        reo = ffgen.run_pipeline(ffgen.render_ff(data['ff2']), data['graph'])
        ok = 'error' not in base and 'error' not in rel and 'error' not in reo and canon(base['links']) == canon(rel['links']) == canon(reo['links'])
        print('replay: results coincide' if ok else 'replay: results differ')
        return 0 if ok else 1
    return 0
