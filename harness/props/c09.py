"""C09 -- parameters are resolved as GROMACS preprocessing would resolve them.

Proof: Props/C09.v over model/TopTypes.v (exact / reversed lookup, least-wildcarded dihedral
type irrespective of direction, multi-term expansion, #define substitution, pair table) and the
C6/C12 -> sigma/epsilon expressions translated from convert_nonbond_to_sig_eps (tie T).
Correspondence (tie D): generated .top files (type tables with exact, reversed and every
wildcard mask, 1-3 terms, interactions listed in both directions, 1-4 instances, #defines,
atom-type sets with nonbond_params subsets, both combination rules) read by
Topology.from_gmx_topfile and preprocess(); every instance's interactions and the pair table are
compared with the model.  The 16 masks x 2 directions x tie pairs are enumerated completely."""
import itertools
import json
import os

import numpy as np

from harness import core, systems
from harness.coqio import lit, flit, Raw

META = {
    'level': 'proof',
    'technique': 'Coq proof over a token-level model of bonded-type lookup (least wildcards, direction independence, multi-term expansion) and translated sigma/epsilon conversion; differential correspondence on generated topologies with exhaustive mask enumeration',
    'gen_deps': ['Gen_topology'],
    'eval_deps': ['theories/model/TopTypes.vo', 'theories/gen/Gen_topology_F.vo'],
    'level_text': ("Theorems in Coq (Props/C09.v), for every type table and atom-type tuple: an exact or reversed key is used when "
                   "present; otherwise the dihedral key returned matches the atoms in one of the two directions and no matching key "
                   "has fewer wildcards, and the result is the same for the reversed listing; a type with k terms yields k "
                   "interactions in table order in every instance, interactions with parameters are untouched, a missing type is an "
                   "error; defined macros are substituted token by token; pair lookups are symmetric and explicit nonbond_params "
                   "override generated ones; over R the translated conversion satisfies 4 eps sigma^6 = C6 and 4 eps sigma^12 = C12. "
                   "The model is tied to the code by reading generated topology files with the real parser and preprocess(), with a "
                   "complete enumeration of the 16 wildcard masks in both listing directions and of tie pairs."),
    'level_note': ("Trusted: Coq kernel, translator, harness, vermouth's itp reader (glue). The sixth root enters the conversion as an "
                   "opaque argument with the contract r^6 = C12/C6. The choice of combination rule per comb-rule number is outside "
                   "the statement (see DESIGN section 7, C09)."),
    'rule': ("cases = generated topologies: 3-5 atom types, tables for bonds/angles/dihedrals with exact, reversed and wildcard keys "
             "(every mask), 1-3 terms per key, parameterless interactions in both directions, 1-4 instances, defines, nonbond_params "
             "subsets; plus the complete enumeration masks x directions x tie pairs; non-trivial = a case in which at least one "
             "parameterless interaction is resolved through a reversed or wildcard key; distinct by topology text"
             "; directed / added families (waves 10-12): type entries under #ifdef / #ifndef / #else judged per define state; macros inside the include-guard idiom"),
}

TYPES = ['TA', 'TB', 'TC', 'TD', 'TE']


SECTIONS = ('bonds', 'angles', 'dihedrals', 'constraints', 'pairs', 'virtual_sites3')


def mask_key(types4, mask):
    return tuple('X' if m else t for t, m in zip(types4, mask))


def gen_case(rng, forced=None):
    ntypes = rng.randint(3, 5)
    types = TYPES[:ntypes]
    natoms = rng.randint(4, 7)
    atoms = [rng.choice(types) for _ in range(natoms)]
    case = {'types': types, 'atoms': atoms, 'n_inst': rng.randint(1, 4), 'defines': {}, 'comb': rng.choice([1, 2]),
            'genpairs': rng.choice(['yes', 'no']), 'tables': {'bonds': [], 'angles': [], 'dihedrals': [], 'constraints': []},
            'inters': {'bonds': [], 'angles': [], 'dihedrals': [], 'constraints': []}, 'nonbond': [],
            'include_guard': rng.random() < 0.5}
    if rng.random() < 0.5:
        case['defines'] = {'gb_1': ['0.153', '7150000'], 'ga_2': ['109.5', '520.0']}
    # sections without bonded types ([ pairs ] with explicit 1-4 parameters, virtual-site constructions): parameters may be
    # macros too (macro names that are prefixes of one another included)
    case['inters']['pairs'], case['inters']['virtual_sites3'] = [], []
    if case['defines'] and rng.random() < 0.7:
        case['defines'].update({'pc_1': ['0.35', '1.25'], 'pc_10': ['0.41', '0.75'], 'vs_a': ['0.2500'], 'vs_b': ['0.1250']})
        for _ in range(rng.randint(1, 2)):
            idx = rng.sample(range(natoms), 2)
            if not any(sorted(o['idx']) == sorted(idx) for o in case['inters']['pairs']):
                case['inters']['pairs'].append({'idx': idx, 'params': ['1', rng.choice(['pc_1', 'pc_10'])] if rng.random() < 0.7 else ['1', '0.300', '2.000']})
        if rng.random() < 0.6:
            case['inters']['virtual_sites3'].append({'idx': rng.sample(range(natoms), 4), 'params': ['1', 'vs_a', rng.choice(['vs_b', '0.3000'])]})
    # interactions
    for sec, n in (('bonds', 2), ('angles', 3), ('dihedrals', 4)):
        for _ in range(rng.randint(1, 3)):
            idx = rng.sample(range(natoms), n)
            if any(sorted(o['idx']) == sorted(idx) for o in case['inters'][sec]):
                continue
            func = {'bonds': '1', 'angles': '2', 'dihedrals': rng.choice(['9', '1'])}[sec]
            if rng.random() < 0.25:
                params = [func] + [f"{rng.uniform(0.1, 2):.3f}" for _ in range(2)]
            elif rng.random() < 0.15 and case['defines'] and sec != 'dihedrals':
                params = [func, 'gb_1' if sec == 'bonds' else 'ga_2']
            else:
                params = [func]
            case['inters'][sec].append({'idx': idx, 'params': params})
    # constraints: own section and own type table; often over the same type pair as a bond
    for _ in range(rng.randint(0, 2)):
        if case['inters']['bonds'] and rng.random() < 0.6:
            b = rng.choice(case['inters']['bonds'])
            want = [atoms[i] for i in b['idx']]
            cands = [(i, j) for i in range(natoms) for j in range(natoms) if i != j and [atoms[i], atoms[j]] == want and [i, j] != b['idx']]
            idx = list(rng.choice(cands)) if cands else rng.sample(range(natoms), 2)
        else:
            idx = rng.sample(range(natoms), 2)
        if any(sorted(o['idx']) == sorted(idx) for o in case['inters']['constraints']):
            continue
        case['inters']['constraints'].append({'idx': idx, 'params': ['1'] if rng.random() < 0.8 else ['1', f"{rng.uniform(0.1, 0.5):.3f}"]})
    # tables: for each parameterless interaction decide how it is covered
    for sec, n in (('bonds', 2), ('angles', 3), ('dihedrals', 4), ('constraints', 2)):
        keys = []
        for it in case['inters'][sec]:
            if len(it['params']) != 1:
                continue
            ts = tuple(atoms[i] for i in it['idx'])
            how = rng.choice(['exact', 'reversed', 'wild', 'wild', 'none'] if sec == 'dihedrals' else ['exact', 'reversed', 'none'])
            if how == 'exact':
                keys.append(ts)
            elif how == 'reversed':
                keys.append(ts[::-1])
            elif how == 'wild':
                for _ in range(rng.randint(1, 3)):
                    mask = [rng.random() < 0.5 for _ in range(4)]
                    k = mask_key(ts if rng.random() < 0.5 else ts[::-1], mask)
                    keys.append(k)
        for _ in range(rng.randint(0, 2)):
            keys.append(tuple(rng.choice(types + ['X'] if sec == 'dihedrals' else types) for _ in range(n)))
        rng.shuffle(keys)
        for k in keys:
            nterms = rng.choice([1, 1, 2, 3]) if sec == 'dihedrals' else 1
            func = {'bonds': '1', 'angles': '2', 'dihedrals': '9', 'constraints': '1'}[sec]
            for t in range(nterms):
                if sec == 'constraints':
                    case['tables'][sec].append({'key': list(k), 'params': [func, f"{rng.uniform(0.1, 0.5):.3f}"]})
                    continue
                case['tables'][sec].append({'key': list(k), 'params': [func, f"{rng.uniform(0, 180):.2f}", f"{rng.uniform(1, 9):.2f}"] +
                                            ([str(t + 1)] if sec == 'dihedrals' else [])})
    for a, b in itertools.combinations_with_replacement(types, 2):
        if rng.random() < 0.25:
            case['nonbond'].append([a, b, round(rng.uniform(0.1, 0.6), 4), round(rng.uniform(0.5, 5), 4)])
    case['atypes'] = {t: [round(rng.uniform(0.2, 0.6), 4), round(rng.uniform(0.5, 5), 4)] for t in types}
    if rng.random() < 0.3:
        # C6 / C12 tables as united-atom force fields write them for small ions: very small but positive coefficients
        t = rng.choice(types)
        case['atypes'][t] = [float(f'{rng.uniform(1e-4, 9e-3):.6e}'), float(f'{rng.uniform(1e-9, 9.5e-9):.6e}')]
        if rng.random() < 0.5:
            u = rng.choice(types)
            case['nonbond'] = [x for x in case['nonbond'] if sorted(x[:2]) != sorted([t, u])]
            case['nonbond'].append([t, u, float(f'{rng.uniform(1e-4, 9e-3):.6e}'), float(f'{rng.uniform(1e-9, 9.5e-9):.6e}')])
    case['mol_lines'] = split_molecule_lines(rng, case['n_inst'])
    return case


def top_of(case):
    out = ['[ defaults ]', f"1 {case['comb']} {case['genpairs']} 1.0 1.0"]
    if case['defines'] and case.get('include_guard'):
        # the include-guard idiom of force-field files: the macros stand in a section that defines its own guard tag
        out += ['#ifndef FF_MACROS', '#define FF_MACROS']
    for k, v in case['defines'].items():
        out.append(f"#define {k} {' '.join(v)}")
    if case['defines'] and case.get('include_guard'):
        out.append('#endif')
    out.append('[ atomtypes ]')
    for t in case['types']:
        out.append(f"{t} 12.0 0.0 A {case['atypes'][t][0]} {case['atypes'][t][1]}")
    if case['nonbond']:
        out.append('[ nonbond_params ]')
        for a, b, x, y in case['nonbond']:
            out.append(f"{a} {b} 1 {x} {y}")
    for sec in ('bonds', 'angles', 'dihedrals', 'constraints'):
        if case['tables'].get(sec):
            out.append(f"[ {sec[:-1]}types ]")
            for row in case['tables'][sec]:
                out.append(' '.join(row['key']) + ' ' + ' '.join(row['params']))
    out += ['[ moleculetype ]', 'MOL 1', '[ atoms ]']
    for i, t in enumerate(case['atoms']):
        out.append(f"{i + 1} {t} 1 RES A{i} {i + 1} 0.0 12.0")
    for sec in SECTIONS:
        if case['inters'].get(sec):
            out.append(f"[ {sec} ]")
            for it in case['inters'][sec]:
                out.append(' '.join(str(i + 1) for i in it['idx']) + ' ' + ' '.join(it['params']))
    if case.get('mol_lines'):
        # the instances of MOL spread over several [ molecules ] lines, possibly with another molecule type in between
        if any(n == 'OTH' for n, _ in case['mol_lines']):
            out += ['[ moleculetype ]', 'OTH 1', '[ atoms ]', f"1 {case['types'][0]} 1 OT O1 1 0.0 12.0"]
        out += ['[ system ]', 'x', '[ molecules ]'] + [f"{n} {k}" for n, k in case['mol_lines']]
    else:
        out += ['[ system ]', 'x', '[ molecules ]', f"MOL {case['n_inst']}"]
    return '\n'.join(out) + '\n'


def split_molecule_lines(rng, n_inst):
    """n_inst instances of MOL written as one or several lines"""
    if n_inst < 2 or rng.random() < 0.5:
        return None
    cut = rng.randint(1, n_inst - 1)
    lines = [('MOL', cut), ('MOL', n_inst - cut)]
    if rng.random() < 0.5:
        lines.insert(1, ('OTH', rng.randint(1, 2)))
    return lines


def run_impl(case):
    import pathlib
    from polyply.src.topology import Topology
    with systems.Workdir() as wd:
        p = os.path.join(wd, 't.top')
        with open(p, 'w') as fh:
            fh.write(top_of(case))
        try:
            top = Topology.from_gmx_topfile(name='x', path=pathlib.Path(p))
            top.preprocess()
        except OSError as exc:
            return {'error': 'OSError', 'msg': str(exc)[:200]}
        except Exception as exc:  # noqa
            return {'error': type(exc).__name__, 'msg': str(exc)[:200]}
    inst = []
    for mol in top.molecules:
        if mol.mol_name != 'MOL':
            continue
        d = {}
        for sec in SECTIONS:
            d[sec] = [([int(a) for a in it.atoms], [str(x) for x in it.parameters]) for it in mol.molecule.interactions.get(sec, [])]
        inst.append(d)
    nb = sorted((tuple(sorted(k)) if len(k) == 2 else (list(k)[0], list(k)[0])) + (float(v['nb1']), float(v['nb2']))
                for k, v in top.nonbond_params.items())
    return {'instances': inst, 'nonbond': nb}


PRELUDE = """From Coq Require Import PrimFloat.
From PV Require Import TopTypes FNum Tproj Gen_topology_F.
Open Scope string_scope.
Definition show (r : (list inter) + rerr) :=
  match r with inl l => (true, map (fun i => (i_atoms i, i_params i)) l) | inr (NoType a) => (false, [(a, [])]) end.
Definition section (is_dih : bool) (d : list (string * list string)) (t : table) (l : list inter) :=
  show (instance_interactions is_dih t (map (fun i => {| i_atoms := i_atoms i; i_types := i_types i; i_params := subst_defines d (i_params i) |}) l)).
"""


def coq_section(case, sec):
    # table grouped by key in first-definition order
    tbl, order = {}, []
    for row in case['tables'].get(sec, []):
        k = tuple(row['key'])
        if k not in tbl:
            tbl[k] = []
            order.append(k)
        tbl[k].append(row['params'])
    t = "[" + "; ".join(f"({lit(list(k))}, {lit(tbl[k])})" for k in order) + "]"
    inters = "[" + "; ".join(
        f"Build_inter {lit(it['idx'])} {lit([case['atoms'][i] for i in it['idx']])} {lit(it['params'])}" for it in case['inters'].get(sec, [])) + "]"
    d = "[" + "; ".join(f"({lit(k)}, {lit(v)})" for k, v in case['defines'].items()) + "]"
    return f"section {lit(sec == 'dihedrals')} {d} {t} {inters}"


def spec_judge(case, out):
    """the statement on the implementation output, by an independent recomputation in python"""
    bad = []
    if 'error' in out:
        return bad
    # #define macros are substituted token by token, in every section and every instance
    for sec in SECTIONS:
        for it in case['inters'].get(sec, []):
            if len(it['params']) <= 1 or not any(t in case['defines'] for t in it['params']):
                continue
            exp = [x for t in it['params'] for x in case['defines'].get(t, [t])]
            for k, inst in enumerate(out['instances']):
                got = [p for a, p in inst[sec] if a == it['idx']]
                if got != [exp]:
                    bad.append(f"{sec} on atoms {it['idx']} written with parameters {it['params']}: instance {k} carries {got}, the macros expand to {exp}")
                    return bad
    for sec, n in (('bonds', 2), ('angles', 3), ('dihedrals', 4), ('constraints', 2)):
        tbl = {}
        for row in case['tables'].get(sec, []):
            tbl.setdefault(tuple(row['key']), []).append(row['params'])
        for it in case['inters'].get(sec, []):
            if len(it['params']) != 1:
                continue
            ts = tuple(case['atoms'][i] for i in it['idx'])
            if ts in tbl:
                exp = tbl[ts]
            elif ts[::-1] in tbl:
                exp = tbl[ts[::-1]]
            elif sec == 'dihedrals':
                cands = [k for k in tbl if any(all(r in ('X', a) for r, a in zip(k, c)) for c in (ts, ts[::-1]))]
                if not cands:
                    continue
                w = min(sum(1 for r in k if r == 'X') for k in cands)
                best = [k for k in cands if sum(1 for r in k if r == 'X') == w]
                exp = None
                allowed = [tbl[k] for k in best]
            else:
                continue
            for inst in out['instances']:
                got = [p for a, p in inst[sec] if a == it['idx']]
                if exp is not None:
                    if got != exp:
                        bad.append(f"{sec} on atoms {it['idx']} types {ts}: parameters {got}, matching type has {exp}")
                        break
                elif got not in allowed:
                    bad.append(f"dihedral on atoms {it['idx']} types {ts}: parameters {got} are not those of a least-wildcarded matching type {allowed}")
                    break
    return bad


def compare_case(ctx, case, out, res):
    """res: three model sections"""
    diffs = []
    model_err = [s for s, r in zip(SECTIONS, res) if not r[0]]
    if 'error' in out:
        if not model_err or out['error'] != 'OSError':
            diffs.append(f"impl raised {out['error']} ({out.get('msg')}), model error sections {model_err}")
        return diffs
    if model_err:
        diffs.append(f"model rejects sections {model_err}, impl accepted")
        return diffs
    for sec, r in zip(SECTIONS, res):
        model = [([int(a) for a in atoms], list(params)) for atoms, params in r[1]]
        for k, inst in enumerate(out['instances']):
            if inst[sec] != model:
                diffs.append(f"{sec} of instance {k}: impl {inst[sec]} != model {model}")
                break
    return diffs


def enumerate_masks():
    """all 16 masks x key direction x listing direction, alone and as tie pairs with every other mask of equal weight"""
    base = ('TA', 'TB', 'TC', 'TD')
    cases = []
    masks = list(itertools.product([False, True], repeat=4))
    for m in masks:
        for kd in (1, -1):
            for ld in (1, -1):
                keys = [mask_key(base[::kd], m)]
                cases.append((keys, base[::ld]))
    for m1, m2 in itertools.combinations(masks, 2):
        if sum(m1) == sum(m2):
            for ld in (1, -1):
                cases.append(([mask_key(base, m1), mask_key(base[::-1], m2)], base[::ld]))
    out = []
    for keys, listing in cases:
        c = {'types': list(base) + ['TE'], 'atoms': list(listing), 'n_inst': 2, 'defines': {}, 'comb': 2, 'genpairs': 'no',
             'tables': {'bonds': [], 'angles': [], 'dihedrals': []}, 'inters': {'bonds': [], 'angles': [], 'dihedrals': []},
             'nonbond': [], 'atypes': {t: [0.3, 1.0] for t in list(base) + ['TE']}}
        seen = []
        for j, k in enumerate(keys):
            if list(k) in seen:
                continue
            seen.append(list(k))
            c['tables']['dihedrals'].append({'key': list(k), 'params': ['9', f'{10 * (j + 1)}.00', '1.00', '1']})
        c['inters']['dihedrals'].append({'idx': [0, 1, 2, 3], 'params': ['9']})
        out.append(c)
    return out


def validate_conversion(ctx, n):
    from polyply.src.topology import lorentz_berthelot_rule, geometric_rule
    rng = ctx.rng
    exprs, want = [], []
    for _ in range(n):
        c6, c12 = rng.uniform(1e-3, 1.0), rng.uniform(1e-6, 1e-2)
        sig = (c12 / c6) ** (1.0 / 6.0)
        eps = c6 ** 2.0 / (4 * c12)
        a, b, x, y = [rng.uniform(0.1, 2) for _ in range(4)]
        want.append((sig, eps) + tuple(float(v) for v in lorentz_berthelot_rule(a, b, x, y)) + tuple(float(v) for v in geometric_rule(a, b, x, y)))
        exprs.append(f"(sig_of {flit(c6)} {flit(c12)} {flit(sig)}, eps_of {flit(c6)} {flit(c12)}, "
                     f"lorentz_berthelot {flit(a)} {flit(b)} {flit(x)} {flit(y)}, geometric {flit(a)} {flit(b)} {flit(x)} {flit(y)})")
    got = core.coq_eval_cases(ctx, 'conv', "From Coq Require Import PrimFloat.\nFrom PV Require Import FNum Tproj Gen_topology_F.\n", exprs, chunk=400)
    mism = 0
    for w, g in zip(want, got):
        flat = [g[0], g[1]] + list(g[2]) + list(g[3])
        if not core.close(flat, list(w), 1e-12, 1e-12):
            mism += 1
            if mism <= 3:
                ctx.note(f"translator validation: model {flat} != impl {w}")
        # the property itself on the real values: sigma/epsilon reproduce C6/C12
    ctx.extra['translator_validation'] = {'cases': n, 'mismatches': mism}
    if mism:
        ctx.broken.append('correspondence:translator-validation sigma/epsilon conversion and combination rules')


def judge_pairs(case, out):
    bad = []
    if 'error' in out:
        return bad
    table = {(a, b): (x, y) for a, b, x, y in out['nonbond']}
    exp = {}
    for a, b, x, y in case['nonbond']:
        exp[tuple(sorted((a, b)))] = (x, y)
    for t in case['types']:
        exp.setdefault((t, t), tuple(case['atypes'][t]))
    if case['genpairs'] == 'yes':
        for a, b in itertools.combinations(case['types'], 2):
            k = tuple(sorted((a, b)))
            if k not in exp:
                (a1, a2), (b1, b2) = case['atypes'][a], case['atypes'][b]
                # comb-rule 1 and 3 -> Lorentz-Berthelot, 2 -> geometric, as the code maps them (not part of the statement)
                exp[k] = ((a1 + b1) / 2, (a2 * b2) ** 0.5) if case['comb'] in (1, 3) else ((a1 * b1) ** 0.5, (a2 * b2) ** 0.5)
    if case['comb'] == 1:
        exp = {k: ((y / x) ** (1 / 6.0) if y != 0 else 0, x ** 2 / (4 * y) if x != 0 else 0) for k, (x, y) in exp.items()}
    if set(table) != set(exp):
        bad.append(f"pair table keys {sorted(table)} != expected {sorted(exp)}")
        return bad
    for k, v in exp.items():
        if not core.close(list(table[k]), list(v), 1e-9, 1e-15):
            bad.append(f"pair {k}: {table[k]} expected {v}")
            break
    # sigma/epsilon reproduce C6/C12
    if case['comb'] == 1:
        for a, b, x, y in case['nonbond']:
            sig, eps = table[tuple(sorted((a, b)))]
            if abs(4 * eps * sig ** 6 - x) > 1e-7 * abs(x) + 1e-30 or abs(4 * eps * sig ** 12 - y) > 1e-7 * abs(y) + 1e-30:
                bad.append(f"pair {a}-{b}: sigma {sig} epsilon {eps} do not reproduce C6 {x} C12 {y}")
        for t in case['types']:
            if any(sorted(r[:2]) == [t, t] for r in case['nonbond']):
                continue
            x, y = case['atypes'][t]
            sig, eps = table[(t, t)]
            if abs(4 * eps * sig ** 6 - x) > 1e-7 * abs(x) + 1e-30 or abs(4 * eps * sig ** 12 - y) > 1e-7 * abs(y) + 1e-30:
                bad.append(f"self term of {t}: sigma {sig} epsilon {eps} do not reproduce C6 {x} C12 {y} of [ atomtypes ]")
                break
    return bad


# ------------------------------------------------------------------ type entries that stand under #ifdef / #ifndef / #else
def gen_guarded(rng):
    """type tables whose entries stand in the branches of conditionals; returns the text and, per section, the entries
    (key, params, guard) in text order, guard = None | (tag, 'ifdef' | 'ifndef') read off the generated text"""
    types = ['TA', 'TB', 'TC']
    natoms = rng.randint(3, 5)
    atoms = [rng.choice(types) for _ in range(natoms)]
    lines = ['[ defaults ]', '1 2 no 1.0 1.0']
    defined = []
    for tag in ('FLEX', 'STIFF'):
        if rng.random() < 0.4:
            lines.append(f'#define {tag}')
            defined.append(tag)
    lines.append('[ atomtypes ]')
    for t in types:
        lines.append(f'{t} 12.0 0.0 A 0.3 1.0')
    entries = {'bonds': [], 'angles': [], 'constraints': []}
    inters = {'bonds': sorted({tuple(sorted(rng.sample(range(natoms), 2))) for _ in range(rng.randint(1, 2))}),
              'angles': [tuple(rng.sample(range(natoms), 3))]}
    if rng.random() < 0.5:
        inters['constraints'] = [tuple(sorted(rng.sample(range(natoms), 2)))]
    val = [0]
    flip = rng.random() < 0.5

    def entry(sec, guard):
        it = rng.choice(inters[sec])
        key = [atoms[i] for i in it]
        # one direction per type sequence in the whole file (an exact-direction key shadows a reversed one; direction
        # handling is the subject of the mask enumeration, not of this family)
        key = min(key, key[::-1]) if flip else max(key, key[::-1])
        val[0] += 1
        params = {'bonds': ['1', f'0.{val[0]}', f'{100 * val[0]}'], 'angles': ['2', f'{100 + val[0]}', f'{10 * val[0]}'],
                  'constraints': ['1', f'0.{val[0]}']}[sec]
        entries[sec].append((key, params, guard))
        return ' '.join(key) + ' ' + ' '.join(params)

    secs = [s for s in ('bonds', 'angles', 'constraints') if s in inters]
    for _ in range(rng.randint(2, 4)):
        sec = rng.choice(secs)
        form = rng.choice(['plain', 'inside', 'inside_else', 'around', 'around_else'])
        tag = rng.choice(['FLEX', 'STIFF', 'OTHER'])
        cond = rng.choice(['ifdef', 'ifndef'])
        inv = 'ifndef' if cond == 'ifdef' else 'ifdef'
        hdr = f'[ {sec[:-1]}types ]'
        if form == 'plain':
            lines += [hdr, entry(sec, None)]
        elif form.startswith('inside'):
            lines += [hdr, f'#{cond} {tag}'] + [entry(sec, (tag, cond)) for _ in range(rng.randint(1, 2))]
            if form.endswith('else'):
                lines += ['#else'] + [entry(sec, (tag, inv)) for _ in range(rng.randint(1, 2))]
            lines.append('#endif')
        else:
            lines += [f'#{cond} {tag}', hdr] + [entry(sec, (tag, cond)) for _ in range(rng.randint(1, 2))]
            if form.endswith('else'):
                sec2 = rng.choice(secs)
                lines += ['#else', f'[ {sec2[:-1]}types ]'] + [entry(sec2, (tag, inv)) for _ in range(rng.randint(1, 2))]
            lines.append('#endif')
    lines += ['[ moleculetype ]', 'MOL 1', '[ atoms ]']
    for i, t in enumerate(atoms):
        lines.append(f'{i + 1} {t} 1 RES A{i} {i + 1} 0.0 12.0')
    for sec in secs:
        lines.append(f'[ {sec} ]')
        for it in inters[sec]:
            lines.append(' '.join(str(i + 1) for i in it) + ' ' + {'bonds': '1', 'angles': '2', 'constraints': '1'}[sec])
    n_inst = rng.randint(1, 3)
    lines += ['[ system ]', 'x', '[ molecules ]', f'MOL {n_inst}']
    return {'text': '\n'.join(lines) + '\n', 'atoms': atoms, 'inters': inters, 'entries': entries, 'n_inst': n_inst, 'defined': defined}


def guarded_cases(ctx, n, extra=()):
    """in every define state the parameters an interaction carries are those of the matching type entries that are active
    in that state (the entry of the branch that holds), in every molecule instance"""
    import pathlib
    from polyply.src.topology import Topology
    rng = ctx.rng
    for case in [gen_guarded(rng) for _ in range(n)] + list(extra):
        with systems.Workdir() as wd:
            p = os.path.join(wd, 't.top')
            with open(p, 'w') as fh:
                fh.write(case['text'])
            try:
                top = Topology.from_gmx_topfile(name='x', path=pathlib.Path(p))
                top.preprocess()
            except Exception as exc:  # noqa
                ctx.case(case['text'], nontrivial=False)
                ctx.feature('guarded_types_rejected_' + type(exc).__name__)
                continue
        ctx.case(case['text'], nontrivial=True, sample={'top': case['text'][:500]})
        ctx.feature('type_entries_under_conditionals')
        bad = None
        for k, mol in enumerate(top.molecules):
            for sec, its in case['inters'].items():
                for it in {tuple(i) for i in its}:
                    ts = [case['atoms'][i] for i in it]
                    match = [(params, guard) for key, params, guard in case['entries'][sec] if list(key) in (ts, ts[::-1])]
                    got = [([str(x) for x in i.parameters], (i.meta['tag'], i.meta['condition']) if i.meta.get('tag') else None)
                           for i in mol.molecule.interactions.get(sec, []) if tuple(i.atoms) == tuple(it)]
                    if not match:
                        continue
                    for tags in ((), ('FLEX',), ('STIFF',), ('FLEX', 'STIFF'), ('OTHER',)):
                        def active(g):
                            return g is None or ((g[0] in tags) == (g[1] == 'ifdef'))
                        want = [pr for pr, g in match if active(g)]
                        have = [pr for pr, g in got if active(g)]
                        if len(got[0][0]) > 1 and sorted(want) != sorted(have) and bad is None:
                            bad = (f"{sec} on atoms {list(it)} (types {ts}) of instance {k}: with macros {list(tags)} defined the active parameters are "
                                   f"{have}, the type entries active in that state are {want}")
        if bad:
            ctx.violation('spec', f"C09 fails on the implementation: {bad}", {'guarded_case': case, 'failure': bad, 'top': case['text']})


def run(ctx):
    ctx.correspondences += ['Topology.from_gmx_topfile + preprocess() vs model/TopTypes.v on generated topologies',
                            'complete enumeration of 16 wildcard masks x key direction x listing direction x tie pairs',
                            'translator validation of the sigma/epsilon conversion and combination rules',
                            'implementation output judged by an independent recomputation of the statement']
    try:
        validate_conversion(ctx, ctx.n(300, 3000))
    except core.CoqEvalError as exc:
        ctx.note(str(exc)[:600])
        ctx.broken.append('correspondence:translator-validation (evaluation failed)')
    guarded_cases(ctx, ctx.n(40, 400))
    cases = [c for _, c in core.corpus_cases('C09')]
    enum = enumerate_masks()
    cases += enum
    cases += [gen_case(ctx.rng) for _ in range(ctx.n(150, 1500))]
    outs = [run_impl(c) for c in cases]
    exprs = []
    for c in cases:
        exprs.append("[" + "; ".join(coq_section(c, s) for s in SECTIONS) + "]")
    try:
        res = core.coq_eval_cases(ctx, 'types', PRELUDE, exprs, chunk=100)
    except core.CoqEvalError as exc:
        ctx.note(str(exc)[:800])
        ctx.broken.append('correspondence:Topology.preprocess vs model (evaluation failed)')
        return
    mism = 0
    for c, out, r in zip(cases, outs, res):
        text = top_of(c)
        resolved = 'error' not in out and any(len(it['params']) == 1 for s in c['inters'] for it in c['inters'][s])
        ctx.case(text, nontrivial=resolved, sample={'top': text[:600], 'result': out if 'error' in out else {'instances': len(out['instances'])}})
        ctx.feature('impl_' + ('error_' + out['error'] if 'error' in out else 'ok'))
        for b in spec_judge(c, out)[:1] + judge_pairs(c, out)[:1]:
            ctx.violation('spec', f"C09 fails on the implementation: {b}", {'case': c, 'failure': b, 'top': text})
        diffs = compare_case(ctx, c, out, r)
        if diffs:
            mism += 1
            if mism <= 3:
                ctx.note(f"correspondence: {diffs[0][:400]}")
                ctx.extra.setdefault('disagreements', []).append({'case': c, 'diff': diffs[0]})
    ctx.extra['correspondence'] = {'cases': len(cases), 'mask_enumeration_cases': len(enum), 'mismatches': mism, 'exhaustive_masks': True}
    if mism:
        ctx.broken.append('correspondence:Topology.preprocess vs model/TopTypes.v')


def search(ctx):
    return


def replay(ctx, data):
    print(json.dumps(data, indent=1, default=str)[:3000])
    if data.get('guarded_case'):
        before = len(ctx.violations)
        guarded_cases(ctx, 0, extra=[data['guarded_case']])
        print('replay:', 'violated' if len(ctx.violations) > before else 'statement satisfied on this topology')
        return 1 if len(ctx.violations) > before else 0
    c = data.get('case')
    if not c:
        return 0
    out = run_impl(c)
    bad = spec_judge(c, out) + judge_pairs(c, out)
    print('replay:', bad[:3] or 'statement satisfied on this topology')
    return 1 if bad else 0
