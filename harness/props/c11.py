"""C11 -- generated .itp files are written and re-read to the same molecule.

Proof: Props/C11.v over model/Itp.v (token-level writer in the layout of write_molecule_itp and
reader in the discipline of read_itp): read (write m) = canon m for every molecule, section
layout and order; the residue graph rebuilt from bonds/constraints equals the requested one
under the two bonded-coverage hypotheses, and "no missing link" alone is refuted (F11).
Correspondence (tie D): the real gen_params on generated force fields / residue graphs (json and
seq routes, fresh and pre-existing output file); (1) model write on the molecule handed to the
writer == tokens of the file; (2) model read on the file tokens == what Topology.from_gmx_topfile
and MetaMolecule.from_itp read; (3) independent judge: file written whenever the pipeline
builds, re-read atoms / interactions / guards equal the independently built molecule, recovered
residue graph equals the requested one when no link is missing."""
import collections
import contextlib
import io
import json
import os
import pathlib

from harness import core, ffgen, systems
from harness.coqio import lit, Raw

META = {
    'level': 'proof',
    'technique': 'Coq proof of read-after-write identity for the .itp token codec and of the recovered residue graph; differential correspondence of the codec with gen_params output and polyply/vermouth readers; independent end-to-end judge',
    'gen_deps': [],
    'eval_deps': ['theories/model/Itp.vo'],
    'level_text': ("Theorems in Coq (Props/C11.v): for every molecule name, atom table and list of interaction sections with guarded "
                   "groups (any layout order), reading the written token lines gives back the same atoms (type, residue id/name, atom "
                   "name, charge group, charge, mass) and exactly the written interactions with parameters and #ifdef/#ifndef guard, "
                   "impropers under [ dihedrals ]; the residue graph contracted from the file's bonds and constraints equals the "
                   "requested one when bonded pairs stay on requested edges and every requested edge carries a bond or constraint; "
                   "'no link missing' alone does not imply it (refuted, F11). The model is tied to the code by running the real "
                   "gen_params and comparing model write with the file, model read with from_gmx_topfile / from_itp, and an "
                   "independent judge compares the re-read molecule with a separately built one."),
    'level_note': ("Trusted: Coq kernel, harness tokeniser (comments, blank lines, column layout dropped), vermouth's sort order "
                   "re-implemented in the harness for the writer comparison. No axioms. virtual_sitesn layout is not modelled. "
                   "Float formatting is Python's str/float round trip (exact), compared by the judge, not in the model."),
    'rule': ("cases = generated force fields (1-3 blocks with guarded bonds, exclusions, impropers; 0-4 links) x residue graphs of "
             "1-7 residues (path/tree/ring) through gen_params by .json or seq route, output file fresh or pre-existing; non-trivial "
             "= >= 2 residues, a link applied and >= 2 interaction sections written; distinct by (force-field text, graph, route)"
             "; directed / added families (waves 10-12): log entries with atom-removing links (judged by the file); parameters given as macro names read back through a topology that defines them"),
}

PRELUDE = """From Coq Require Import String List.
From PV Require Import Itp.
Import ListNotations.
Open Scope string_scope.
Definition mk_atom (a : string * string * string * string * string * option string * option string) : arow :=
  let '(t, ri, rn, n, cg, c, m) := a in
  {| r_type := t; r_resid := ri; r_resname := rn; r_name := n; r_cg := cg; r_charge := c; r_mass := m |}.
Definition mk_sect (c : string * list (guard * list (list string * list string))) : sect :=
  {| c_name := fst c; c_groups := map (fun g => {| g_guard := fst g; g_items := snd g |}) (snd c) |}.
Definition show_mol (m : mol) :=
  (m_name m, m_nrexcl m,
   map (fun a => (r_type a, r_resid a, r_resname a, r_name a, r_cg a, r_charge a, r_mass a)) (m_atoms m),
   map (fun i => (i_sec i, i_atoms i, i_params i, i_guard i)) (m_inters m)).
Definition run_case (idxs : list string) (name nrexcl : string) atoms sects (file : list line) :=
  (write idxs name nrexcl (map mk_atom atoms) (map mk_sect sects),
   option_map show_mol (read file)).
"""

# fixed input for the recorded finding
F11_FF = """[ moleculetype ]
RA 1
[ atoms ]
1 P1 1 RA BB 1 0.0 72.0
2 P1 1 RA SC 2 0.0 72.0
[ bonds ]
BB SC 1 0.3 1000
[ link ]
resname "RA"
[ angles ]
SC BB +BB 2 120 50
"""

def tokenise(text):
    out = []
    for line in text.split('\n'):
        line = line.split(';', 1)[0].strip()
        if line:
            out.append(line.split())
    return out


def write_inputs(wd, text, g):
    with open(os.path.join(wd, 'gp.ff'), 'w') as fh:
        fh.write(text)
    nodes = [{'id': g['keys'][i], 'resname': g['resnames'][i], 'resid': g['r0'] + i} for i in g['order']]
    edges = []
    for k in g['edge_order']:
        a, b = g['edges'][k]
        if g['flip'][k]:
            a, b = b, a
        edges.append({'source': g['keys'][a], 'target': g['keys'][b]})
    with open(os.path.join(wd, 'g.json'), 'w') as fh:
        json.dump({'directed': False, 'multigraph': False, 'graph': {}, 'nodes': nodes, 'edges': edges}, fh)


def seq_of(g):
    """name:count list for a path graph starting at residue 1, else None"""
    if g['shape'] != 'path' or g['r0'] != 1 or g['keys'] != list(range(g['nres'])):
        return None
    seq = []
    for rn in g['resnames']:
        if seq and seq[-1][0] == rn:
            seq[-1][1] += 1
        else:
            seq.append([rn, 1])
    return [f'{a}:{b}' for a, b in seq]


def call_gen_params(wd, route, g, preexisting=False):
    """the real gen_params; returns (file text or None, molecule handed to the writer, error)"""
    import vermouth.gmx.itp as vitp
    import polyply.src.gen_itp as gi
    out = pathlib.Path(wd) / 'out.itp'
    if out.exists():
        out.unlink()
    if preexisting:
        out.write_text('stale content\n')
    seen = {}
    orig = vitp.write_molecule_itp

    def spy(molecule, outfile, **kw):
        seen['molecule'] = molecule
        seen['moltype'] = kw.get('moltype')
        return orig(molecule, outfile, **kw)
    vitp.write_molecule_itp = spy
    sink = io.StringIO()
    err = None
    try:
        with contextlib.redirect_stderr(sink), contextlib.redirect_stdout(sink):
            if route == 'seq':
                gi.gen_params(name='mol', outpath=out, inpath=[pathlib.Path(wd) / 'gp.ff'], lib=None, seq=seq_of(g))
            else:
                gi.gen_params(name='mol', outpath=out, inpath=[pathlib.Path(wd) / 'gp.ff'], lib=None, seq=None,
                              seq_file=pathlib.Path(wd) / 'g.json')
    except BaseException as exc:  # noqa
        err = f'{type(exc).__name__}: {exc}'
    finally:
        vitp.write_molecule_itp = orig
    text = out.read_text() if out.exists() else None
    for p in pathlib.Path(wd).glob('#out.itp*'):
        p.unlink()
    return text, seen.get('molecule'), err


GUARD_KEYS = ('ifdef', 'ifndef')


def guard_of(meta):
    for k in GUARD_KEYS:
        if meta.get(k) is not None:
            return (str(meta[k]), k == 'ifdef')
    return None


def canon_atoms(sec, atoms):
    atoms = tuple(atoms)
    if len(atoms) <= 1 or sec == 'virtual_sitesn':
        return atoms
    return min(atoms, atoms[::-1])


def inter_multiset(rows_by_sec, corr=None):
    ms = collections.Counter()
    for sec, rows in rows_by_sec.items():
        osec = 'dihedrals' if sec == 'impropers' else sec
        for r in rows:
            atoms = [a if corr is None else corr[a] for a in r.atoms]
            ms[(osec, canon_atoms(osec, atoms), tuple(str(p) for p in r.parameters), guard_of(r.meta))] += 1
    return ms


ATTRS = ('atomname', 'atype', 'resid', 'resname', 'charge_group', 'charge', 'mass')


def atom_row(d):
    return (d.get('atomname'), d.get('atype'), int(d['resid']), d.get('resname'), int(d.get('charge_group')),
            None if d.get('charge') is None else float(d['charge']), None if d.get('mass') is None else float(d['mass']))


def reread(wd, text, defines=()):
    """the file through polyply's two readers"""
    import vermouth.forcefield
    from polyply import MetaMolecule
    from polyply.src.topology import Topology
    itp = os.path.join(wd, 'back.itp')
    with open(itp, 'w') as fh:
        fh.write(text)
    with open(os.path.join(wd, 'back.top'), 'w') as fh:
        fh.write(''.join(f'#define {k} {v}\n' for k, v in defines) + '#include "back.itp"\n[ system ]\nx\n[ molecules ]\nmol 1\n')
    sink = io.StringIO()
    with contextlib.redirect_stderr(sink), contextlib.redirect_stdout(sink):
        top = Topology.from_gmx_topfile(os.path.join(wd, 'back.top'), name='x')
        ff = vermouth.forcefield.ForceField('reread')
        meta = MetaMolecule.from_itp(ff, itp, 'mol')
    return top.molecules[0], meta


def res_graph(meta):
    nodes = sorted((int(meta.nodes[n]['resid']), meta.nodes[n]['resname']) for n in meta.nodes)
    edges = sorted(tuple(sorted((int(meta.nodes[a]['resid']), int(meta.nodes[b]['resid'])))) for a, b in meta.edges)
    return nodes, edges


def judge(g, built, text, wd, defines=()):
    """independent of the model: compare the re-read molecule and residue graph with a molecule
    built separately by the harness. returns list of (message, finding)"""
    bad = []
    mol = built['meta'].molecule
    order = sorted(mol.nodes, key=lambda n: mol.nodes[n].get('atomid', float('inf')))
    corr = {n: i for i, n in enumerate(order)}
    try:
        top_mol, itp_mol = reread(wd, text, defines)
    except BaseException as exc:  # noqa
        return [(f"the written file cannot be read back: {type(exc).__name__}: {exc}", None)]
    for what, back in (('Topology.from_gmx_topfile', top_mol), ('MetaMolecule.from_itp', itp_mol)):
        m2 = back.molecule
        if len(m2.nodes) != len(order):
            bad.append((f"{what}: {len(m2.nodes)} atoms read back, {len(order)} built", None))
            continue
        for i, n in enumerate(order):
            if atom_row(m2.nodes[i]) != atom_row(mol.nodes[n]):
                bad.append((f"{what}: atom {i + 1} read back as {atom_row(m2.nodes[i])}, built {atom_row(mol.nodes[n])}", None))
                break
        a = inter_multiset({k: v for k, v in mol.interactions.items() if v}, corr)
        b = inter_multiset({k: v for k, v in m2.interactions.items() if v})
        if a != b:
            only_a = sorted((a - b).elements(), key=str)[:3]
            only_b = sorted((b - a).elements(), key=str)[:3]
            bad.append((f"{what}: interactions differ: only in built molecule {only_a}, only in re-read {only_b}", None))
        if str(m2.nrexcl) != str(mol.nrexcl):
            bad.append((f"{what}: nrexcl {m2.nrexcl} read back, {mol.nrexcl} built", None))
        # residue graph
        req_nodes = sorted((g['r0'] + i, g['resnames'][i]) for i in range(g['nres']))
        req_edges = sorted(tuple(sorted((g['r0'] + a, g['r0'] + b))) for a, b in g['edges'])
        resid = {n: int(mol.nodes[n]['resid']) for n in mol.nodes}
        mol_pairs = {tuple(sorted((resid[a], resid[b]))) for a, b in mol.edges if resid[a] != resid[b]}
        bonded = {tuple(sorted((resid[r.atoms[0]], resid[r.atoms[1]]))) for sec in ('bonds', 'constraints')
                  for r in mol.interactions.get(sec, []) if resid[r.atoms[0]] != resid[r.atoms[1]]}
        no_missing = all(e in mol_pairs for e in req_edges)
        nodes, edges = res_graph(back)
        if nodes != req_nodes:
            bad.append((f"{what}: residues read back {nodes}, requested {req_nodes}", None))
        elif no_missing and edges != req_edges:
            lack = [e for e in req_edges if e not in edges]
            extra = [e for e in edges if e not in req_edges]
            if lack and not extra and all(e not in bonded for e in lack):
                bad.append((f"{what}: no link is missing but the residue edges {lack} are realised without a bond or constraint "
                            f"and are not recovered from the file", 'F11'))
            else:
                bad.append((f"{what}: recovered residue edges {edges}, requested {req_edges} (lacking {lack}, extra {extra})", None))
    # de-duplicate by finding / message
    seen, out = set(), []
    for msg, f in bad:
        key = f or msg
        if key not in seen:
            seen.add(key)
            out.append((msg, f))
    return out


def sort_key(r):
    gd = guard_of(r.meta)
    return (gd if gd is not None else (), r.meta.get('group') or '')


def vermouth_layout(mol, corr1, width):
    """sections -> guarded groups -> (atoms, params) in the order write_molecule_itp lays them out"""
    def sort_atoms(atoms, name):
        if name[:4] in ('bond', 'pair'):
            return sorted(atoms)
        if name.startswith('angle'):
            return atoms if atoms[0] < atoms[-1] else list(reversed(atoms))
        if name.startswith('dihedral'):
            return atoms if atoms[1] < atoms[2] else list(reversed(atoms))
        return atoms

    def sort_inter(atoms, name):
        return (atoms[1], tuple(atoms)) if name.startswith('angle') else (min(atoms), tuple(atoms))
    keys = {k: (len(v[0].atoms), k) for k, v in mol.interactions.items() if v}
    sects = []
    for name in sorted(keys, key=keys.get):
        rows = sorted(mol.interactions[name], key=sort_key)
        groups = []
        i = 0
        while i < len(rows):
            j = i
            while j < len(rows) and sort_key(rows[j]) == sort_key(rows[i]):
                j += 1
            grp = sorted(rows[i:j], key=lambda r: sort_inter(sort_atoms([corr1[a] for a in r.atoms], name), name))
            items = []
            for r in grp:
                atoms = [str(x) for x in sort_atoms([corr1[a] for a in r.atoms], name)]
                params = ' '.join(str(x) for x in r.parameters).split()
                items.append((atoms, params))
            groups.append((guard_of(rows[i].meta), items))
            i = j
        sects.append((name, groups))
    return sects


def coq_case(mol, text):
    order = sorted(mol.nodes, key=lambda n: mol.nodes[n].get('atomid', float('inf')))
    corr1 = {n: i + 1 for i, n in enumerate(order)}
    atoms = []
    for n in order:
        d = mol.nodes[n]
        c = None if d.get('charge') is None else str(d['charge'])
        m = None if d.get('mass') is None else str(d['mass'])
        atoms.append((d['atype'], str(d['resid']), d['resname'], d['atomname'], str(d['charge_group']),
                      None if c is None else core_some(c), None if m is None or c is None else core_some(m)))
    sects = vermouth_layout(mol, corr1, 0)

    def gl(gd):
        return 'None' if gd is None else f'(Some ({lit(gd[0])}, {lit(gd[1])}))'
    sect_txt = '[' + '; '.join(
        f"({lit(name)}, [" + '; '.join(f"({gl(gd)}, {lit(items)})" for gd, items in groups) + "])" for name, groups in sects) + ']'
    idxs = [str(i + 1) for i in range(len(order))]
    atoms_txt = '[' + '; '.join('(' + ', '.join(lit(x) for x in a) + ')' for a in atoms) + ']'
    return (f"run_case {lit(idxs)} {lit('mol')} {lit(str(mol.nrexcl))} {atoms_txt} {sect_txt} {lit(tokenise(text))}"), atoms, sects


def core_some(x):
    from harness.coqio import Some
    return Some(x)


def model_vs_impl(case, res, wd):
    """res = (written lines, Some (name, nrexcl, atoms, inters)) from the model"""
    text, mol = case
    written, back = res
    diffs = []
    if [list(l) for l in written] != tokenise(text):
        want = tokenise(text)
        k = next((i for i, (a, b) in enumerate(zip(written, want)) if list(a) != b), min(len(written), len(want)))
        diffs.append(f"writer: line {k}: model {written[k] if k < len(written) else None} file {want[k] if k < len(want) else None}")
    if back is None:
        diffs.append("reader: the model rejects the file")
        return diffs
    back = back[1]
    name, nrexcl, atoms, inters = back
    try:
        top_mol, _ = reread(wd, text)
    except BaseException as exc:  # noqa
        diffs.append(f"reader: the model reads the file, the implementation rejects it ({type(exc).__name__}: {exc})")
        return diffs
    m2 = top_mol.molecule
    model_atoms = [(a[3], a[0], int(a[1]), a[2], int(a[4]), None if a[5] is None else float(a[5][1]), None if a[6] is None else float(a[6][1]))
                   for a in atoms]
    impl_atoms = [atom_row(m2.nodes[i]) for i in range(len(m2.nodes))]
    if model_atoms != impl_atoms:
        diffs.append(f"reader: atoms: model {model_atoms[:3]} impl {impl_atoms[:3]}")
    per_sec = collections.OrderedDict()
    for sec, ats, ps, gd in inters:
        per_sec.setdefault(sec, []).append((tuple(int(a) - 1 for a in ats), tuple(ps), None if gd is None else tuple(gd[1])))
    impl_sec = {sec: [(tuple(r.atoms), tuple(str(p) for p in r.parameters), guard_of(r.meta)) for r in rows]
                for sec, rows in m2.interactions.items() if rows}
    if dict(per_sec) != impl_sec:
        diffs.append(f"reader: interactions: model {dict(per_sec)} impl {impl_sec}"[:600])
    if str(m2.nrexcl) != nrexcl:
        diffs.append(f"reader: nrexcl model {nrexcl} impl {m2.nrexcl}")
    return diffs


def gen_cases(ctx):
    rng = ctx.rng
    cases = [('json', {'blocks': None, 'links': None, 'text': F11_FF},
              dict(nres=3, shape='path', resnames=['RA'] * 3, edges=[(0, 1), (1, 2)], r0=1, keys=[0, 1, 2], order=[0, 1, 2],
                   edge_order=[0, 1], flip=[False, False]), False)]
    for _, c in core.corpus_cases('C11'):
        cases.append((c['route'], c['ff'], c['graph'], c.get('preexisting', False)))
    for _ in range(ctx.n(140, 1400)):
        ff = ffgen.gen_ff(rng, uniform_nrexcl=rng.choice([1, None]))
        # impropers: move some dihedrals of blocks to the impropers section
        for b in ff['blocks']:
            if 'dihedrals' in b['inters'] and rng.random() < 0.5:
                b['inters']['impropers'] = [dict(r, params=['2'] + r['params'][1:]) for r in b['inters'].pop('dihedrals')]
        g = ffgen.gen_resgraph(rng, ff)
        if rng.random() < 0.3:
            g = ffgen.permute_graph(rng, g)
        route = 'seq' if seq_of(g) and rng.random() < 0.5 else 'json'
        cases.append((route, ff, g, rng.random() < 0.25))
    return cases


def ff_text(ff):
    return ff['text'] if ff.get('text') else ffgen.render_ff(ff)


def run(ctx):
    ctx.correspondences += ['model write on the molecule handed to write_molecule_itp == tokens of the file gen_params wrote',
                            'model read on the file tokens == Topology.from_gmx_topfile re-read (atoms, interactions per section, guards)',
                            'independent judge: file exists whenever the pipeline builds; re-read == separately built molecule; residue graph']
    cases = gen_cases(ctx)
    exprs, keep = [], []
    with systems.Workdir() as wd:
        for route, ff, g, pre in cases:
            text = ff_text(ff)
            built = ffgen.run_pipeline(text, g)
            fp = json.dumps([text, g, route, pre], sort_keys=True)
            if 'error' in built:
                ctx.feature('pipeline_rejects')
                ctx.case(fp, nontrivial=False)
                continue
            write_inputs(wd, text, g)
            out, handed, err = call_gen_params(wd, route, g, preexisting=pre)
            rep = {'route': route, 'ff': ff, 'graph': g, 'preexisting': pre}
            nsec = sum(1 for v in built['links']['inters'].values() if v)
            applied = sum(len(v) for v in built['links']['inters'].values()) > sum(len(v) for v in built['map']['inters'].values())
            ctx.case(fp, nontrivial=g['nres'] >= 2 and applied and nsec >= 2,
                     sample={'route': route, 'resnames': g['resnames'], 'shape': g['shape'], 'sections': nsec, 'preexisting': pre})
            ctx.feature(f'route_{route}')
            ctx.feature('preexisting_file' if pre else 'fresh_file')
            if any(guard_of(r['meta']) for rows in built['links']['inters'].values() for r in rows):
                ctx.feature('guarded_interactions')
            if 'impropers' in built['links']['inters']:
                ctx.feature('impropers')
            if err is not None or out is None or out == 'stale content\n':
                ctx.violation('spec', f"mapping and link application succeed but gen_params wrote no file ({err or 'no exception'})", rep)
                continue
            for msg, finding in judge(g, built, out, wd):
                ctx.violation('spec', f"C11 fails on the implementation: {msg}", dict(rep, failure=msg), finding=finding)
            if handed is None:
                ctx.note('write_molecule_itp was not called')
                ctx.broken.append('correspondence:gen_params no longer calls write_molecule_itp')
                continue
            try:
                e, _, _ = coq_case(handed, out)
            except AssertionError as exc:
                ctx.note(f'case not expressible: {exc}')
                continue
            exprs.append(e)
            keep.append((out, handed, rep))
        try:
            res = core.coq_eval_cases(ctx, 'itp', PRELUDE, exprs, chunk=25)
        except core.CoqEvalError as exc:
            ctx.note(str(exc)[:1000])
            ctx.broken.append('correspondence:itp codec vs model (evaluation failed)')
            return
        mism = 0
        for (out, handed, rep), r in zip(keep, res):
            diffs = model_vs_impl((out, handed), r, wd)
            if diffs:
                mism += 1
                if mism <= 3:
                    ctx.note(f"correspondence: {diffs[0][:500]}")
                    ctx.extra.setdefault('disagreements', []).append({'case': rep, 'diff': diffs[0][:400]})
        ctx.extra['correspondence'] = {'cases': len(keep), 'mismatches': mism}
        if mism:
            ctx.broken.append('correspondence:gen_params file / re-read vs model/Itp.v')
        reader_cases(ctx, wd)
        log_entry_cases(ctx, wd, ctx.n(10, 80))
        symbolic_cases(ctx, wd, ctx.n(6, 40))


def log_entry_cases(ctx, wd, n, extra=()):
    """links / blocks that carry [ info ] / [ warning ] messages, with and without a link that removes an atom: mapping and
    link application pass, so the file is in place and reads back as the molecule that was built -- whatever happens to
    the messages afterwards"""
    rng = ctx.rng
    todo = list(extra)
    for _ in range(n):
        todo.append({'remove': rng.random() < 0.7, 'where': rng.choice(['link', 'block', 'both', 'none']), 'level': rng.choice(['info', 'warning']),
                     'nres': rng.randint(2, 4), 'pre': rng.random() < 0.3})
    for case in todo:
        lines = ['[ moleculetype ]', 'AAA 1', '[ atoms ]', '1 P1 1 AAA A1 1 0.0 72', '2 P2 1 AAA A2 2 0.5 72', '3 H 1 AAA H4 3 0.0 1',
                 '[ bonds ]', 'A1 A2 1 0.3 1000', 'A2 H4 1 0.11 2000']
        if case['where'] in ('block', 'both'):
            lines += [f"[ {case['level']} ]", 'This residue carries a capping hydrogen.']
        lines += ['[ link ]', 'resname "AAA"']
        if case['remove']:
            lines += ['[ atoms ]', 'H4 {"replace": {"atomname": null}}']
        lines += ['[ bonds ]', 'A2 +A1 1 0.35 1250']
        if case['where'] in ('link', 'both'):
            lines += [f"[ {case['level']} ]", 'The hydrogen that caps this residue is given up when the chain is extended.']
        text = '\n'.join(lines) + '\n'
        n_ = case['nres']
        g = {'nres': n_, 'shape': 'path', 'resnames': ['AAA'] * n_, 'edges': [(i, i + 1) for i in range(n_ - 1)], 'r0': 1,
             'keys': list(range(n_)), 'order': list(range(n_)), 'edge_order': list(range(n_ - 1)), 'flip': [False] * (n_ - 1)}
        built = ffgen.run_pipeline(text, g)
        ctx.case(('log_entries', json.dumps(case, sort_keys=True)), nontrivial='error' not in built, sample=case)
        ctx.feature('log_entries_' + case['where'] + ('_with_atom_removal' if case['remove'] else ''))
        if 'error' in built:
            ctx.note(f"pipeline rejects a log-entry input: {built['error'][:200]}")
            continue
        write_inputs(wd, text, g)
        out, handed, err = call_gen_params(wd, 'seq', g, preexisting=case['pre'])
        rep = {'log_entries': case}
        if err is not None:
            ctx.feature('gen_params_raises_after_the_file_is_in_place' if out not in (None, 'stale content\n') else 'gen_params_raises_without_file')
        if out is None or out == 'stale content\n':
            ctx.violation('spec', f"mapping and link application succeed but gen_params wrote no file ({err or 'no exception'}); "
                          f"messages on {case['where']}, atom removal {case['remove']}", rep)
            continue
        for msg, finding in judge(g, built, out, wd):
            ctx.violation('spec', f"C11 fails on the implementation: {msg}", dict(rep, failure=msg), finding=finding)


def symbolic_cases(ctx, wd, n, extra=()):
    """parameters given as force-field macros (GROMOS style: 'gb_18'): the file carries the macro names, and reading it back
    -- also through a topology that defines those macros, as a force-field include does -- yields the parameters that were
    written; resolving macros is a later, separate step (Topology.preprocess)"""
    rng = ctx.rng
    todo = list(extra)
    for _ in range(n):
        todo.append({'nres': rng.randint(2, 4), 'defined': rng.random() < 0.8, 'angle': rng.random() < 0.6, 'pre': rng.random() < 0.3})
    for case in todo:
        lines = ['[ moleculetype ]', 'AAA 1', '[ atoms ]', '1 P1 1 AAA A1 1 0.0 72', '2 P2 1 AAA A2 2 0.5 72', '3 P3 1 AAA A3 3 0.0 36',
                 '[ bonds ]', 'A1 A2 2 gb_18', 'A2 A3 2 gb_21']
        if case['angle']:
            lines += ['[ angles ]', 'A1 A2 A3 2 ga_15']
        lines += ['[ link ]', 'resname "AAA"', '[ bonds ]', 'A3 +A1 2 gb_27']
        text = '\n'.join(lines) + '\n'
        n_ = case['nres']
        g = {'nres': n_, 'shape': 'path', 'resnames': ['AAA'] * n_, 'edges': [(i, i + 1) for i in range(n_ - 1)], 'r0': 1,
             'keys': list(range(n_)), 'order': list(range(n_)), 'edge_order': list(range(n_ - 1)), 'flip': [False] * (n_ - 1)}
        built = ffgen.run_pipeline(text, g)
        ctx.case(('symbolic', json.dumps(case, sort_keys=True)), nontrivial='error' not in built, sample=case)
        ctx.feature('parameters_given_as_macros' + ('_read_back_through_a_topology_that_defines_them' if case['defined'] else ''))
        if 'error' in built:
            ctx.note(f"pipeline rejects symbolic parameters: {built['error'][:200]}")
            continue
        write_inputs(wd, text, g)
        out, handed, err = call_gen_params(wd, 'seq', g, preexisting=case['pre'])
        rep = {'symbolic': case}
        if err is not None or out is None or out == 'stale content\n':
            ctx.violation('spec', f"mapping and link application succeed but gen_params wrote no file ({err or 'no exception'})", rep)
            continue
        defines = [('gb_18', '0.1530 7.1500e+06'), ('gb_21', '0.1090 1.2300e+07'), ('ga_15', '111.0 530.0'), ('gb_27', '0.1430 8.1800e+06')] \
            if case['defined'] else ()
        for msg, finding in judge(g, built, out, wd, defines=defines):
            ctx.violation('spec', f"C11 fails on the implementation: {msg}" + (' (read back through a topology that defines the macros)' if defines else ''),
                          dict(rep, failure=msg), finding=finding)


def reader_cases(ctx, wd):
    """molecule files as gen_params writes them for multi-residue (from_itp) input blocks: the atoms of a residue need not
    be a contiguous run of [ atoms ] (e.g. virtual sites appended at the end carry the residue id and name of an earlier
    residue). Both readers must recover one residue per (residue id, residue name) with all its atoms, joined where a bond
    or constraint crosses."""
    rng = ctx.rng
    for k in range(ctx.n(16, 160)):
        nres = rng.randint(2, 5)
        r0 = rng.choice([1, 1, 3])
        resnames = [rng.choice(['RA', 'RB', 'RC']) for _ in range(nres)]
        atoms = []          # (resid, resname, name)
        for i in range(nres):
            for j in range(rng.randint(1, 3)):
                atoms.append((r0 + i, resnames[i], f'{"ABC"[j]}{i}'))
        trailing = []
        if k % 2 == 0:
            # trailing particles that belong to earlier residues
            for i in rng.sample(range(nres), rng.randint(1, min(3, nres))):
                trailing.append((r0 + i, resnames[i], f'V{i}'))
        rows = atoms + trailing
        idx_of = {(r, n): i + 1 for i, (r, _, n) in enumerate(rows)}
        first = {r0 + i: idx_of[(r0 + i, f'A{i}')] for i in range(nres)}
        bonds = []
        for i in range(nres):
            mine = [idx_of[(r, n)] for (r, _, n) in rows if r == r0 + i]
            bonds += [(mine[0], m) for m in mine[1:]]
        redges = [(i, i + 1) for i in range(nres - 1)] if rng.random() < 0.7 else [(rng.randrange(i), i) for i in range(1, nres)]
        bonds += [(first[r0 + a], first[r0 + b]) for a, b in redges]
        text = '[ moleculetype ]\nmol 1\n\n[ atoms ]\n'
        text += ''.join(f'{i + 1} P1 {r} {rn} {n} {i + 1} 0.0 72.0\n' for i, (r, rn, n) in enumerate(rows))
        text += '\n[ bonds ]\n' + ''.join(f'{a} {b} 1 0.35 1250\n' for a, b in bonds)
        ctx.case(('reader', text), nontrivial=bool(trailing))
        ctx.feature('reader_noncontiguous_residue' if trailing else 'reader_contiguous_residues')
        rep = {'reader_itp': text}
        try:
            top_mol, itp_mol = reread(wd, text)
        except BaseException as exc:  # noqa
            ctx.violation('spec', f"a molecule file with {'non-' if trailing else ''}contiguous residues cannot be read: {type(exc).__name__}: {exc}", rep)
            continue
        want_nodes = sorted((r0 + i, resnames[i]) for i in range(nres))
        want_edges = sorted((r0 + a, r0 + b) for a, b in redges)
        want_atoms = {r0 + i: sorted(n for (r, _, n) in rows if r == r0 + i) for i in range(nres)}
        for what, back in (('Topology.from_gmx_topfile', top_mol), ('MetaMolecule.from_itp', itp_mol)):
            nodes, edges = res_graph(back)
            got_atoms = {}
            for n in back.nodes:
                gph = back.nodes[n]['graph']
                got_atoms.setdefault(int(back.nodes[n]['resid']), []).extend(gph.nodes[a]['atomname'] for a in gph.nodes)
            got_atoms = {r: sorted(v) for r, v in got_atoms.items()}
            if nodes != want_nodes or edges != want_edges or got_atoms != want_atoms:
                ctx.violation('spec', f"{what}: residue graph read back with residues {nodes}, edges {edges}, atoms {got_atoms}; the file "
                              f"holds residues {want_nodes} joined by {want_edges} with atoms {want_atoms}", rep)
                break


def search(ctx):
    return


def replay(ctx, data):
    if 'reader_itp' in data:
        with systems.Workdir() as wd:
            top_mol, itp_mol = reread(wd, data['reader_itp'])
            print('replay: from_gmx_topfile', res_graph(top_mol), ' from_itp', res_graph(itp_mol))
        return 0
    print(json.dumps(data, indent=1, default=str)[:3000])
    if 'symbolic' in data:
        before = len(ctx.violations)
        with systems.Workdir() as wd:
            symbolic_cases(ctx, wd, 0, extra=[data['symbolic']])
        print('replay:', ctx.violations[-1]['what'][:400] if len(ctx.violations) > before else 'file reads back as written')
        return 1 if len(ctx.violations) > before else 0
    if 'log_entries' in data:
        before = len(ctx.violations)
        with systems.Workdir() as wd:
            log_entry_cases(ctx, wd, 0, extra=[data['log_entries']])
        print('replay:', ctx.violations[-1]['what'][:400] if len(ctx.violations) > before else 'file in place and reads back as built')
        return 1 if len(ctx.violations) > before else 0
    if 'ff' in data and 'graph' in data:
        text = ff_text(data['ff'])
        g = data['graph']
        g['edges'] = [tuple(e) for e in g['edges']]
        built = ffgen.run_pipeline(text, g)
        if 'error' in built:
            print('replay: pipeline rejects the input:', built['error'])
            return 0
        with systems.Workdir() as wd:
            write_inputs(wd, text, g)
            out, handed, err = call_gen_params(wd, data.get('route', 'json'), g, preexisting=data.get('preexisting', False))
            if err is not None or out is None:
                print('replay: no file written:', err)
                return 1
            bad = judge(g, built, out, wd)
        print('replay:', bad[:3] or 'statement satisfied')
        return 1 if bad else 0
    return 0
