"""C02 -- links are applied exactly where their definition matches.

Proof: Props/C02.v over model/Links.v: residue-level matches = injective, induced, order-respecting
assignments; every link atom identifies exactly one atom; the result table is "last writer wins"
over block interactions followed by the links in force-field order; relative-order table.
Correspondence (tie D): generated force fields (links with integer and >/< orders, residue-name
choices, replace, versions, guards, [edges], 2-4 residues) x generated residue graphs (paths, trees,
rings, mixed residue names, permuted keys) through the real MapToMolecule + ApplyLinks vs the
model fed with the implementation's own residue graph, fragment atoms and parsed links:
interactions per section (multiset of atoms, parameters, guards), replaced attributes, edges.
The implementation is also judged directly (soundness of every inter-residue interaction;
completeness and chain-end absence for next-residue links; dangling .itp interactions)."""
import json
import os

from harness import core, ffgen
from harness.coqio import lit, Raw

META = {
    'level': 'proof',
    'technique': 'Coq model of residue-level matching, atom matching and last-writer-wins table with characterisation theorems; differential correspondence with MapToMolecule+ApplyLinks on generated force fields and residue graphs',
    'gen_deps': [],
    'eval_deps': ['theories/model/Links.vo'],
    'level_text': ("Theorems in Coq (Props/C02.v) about the executable model of ApplyLinks: the residue-level matches of a link are "
                   "exactly the injective assignments of its residues to residues of the molecule that are induced-subgraph "
                   "isomorphisms respecting edge labels (C02_edge_labels: between two residues of a match the link pattern has an "
                   "edge exactly if the residue graph has one, and then the 'linktype' labels coincide, none = none, so an unlabelled "
                   "link never matches a labelled edge nor the reverse) and satisfy vermouth's relative-order table (read declaratively for n, >, <, * and proved "
                   "symmetric); a match contributes only if every link atom identifies exactly one atom of its residue, candidates being the atoms "
                   "with the link atom's name, one of its residue names and every further attribute it states (C02_atom_selection; "
                   "attributes of a residue in the sequence count for all its atoms); an "
                   "interaction (section, atoms, version) is in the result iff a block or a matching link wrote it and it carries the "
                   "parameters of the last writer in force-field order; block interactions survive unless a link writes the same "
                   "key. The model is tied to the code by comparing interactions, replaced attributes and edges with the real "
                   "MapToMolecule + ApplyLinks on generated force fields (.ff text parsed by vermouth) and residue graphs; the "
                   "implementation's own parsed links and residue graphs are the model's input. Dangling interactions of monomer "
                   ".itp files are checked on the implementation against the equivalent next-residue link."),
    'level_note': ("Trusted: Coq kernel, harness, vermouth's .ff parser and make_residue_graph (their output is model input), networkx "
                   "VF2 (its match set is compared with the model's enumeration). No axioms. Outside the model: non-edges, patterns, "
                   "parameter effectors, atom removal (probed by C01's removal cases)."),
    'rule': ("cases = generated force fields (1-3 blocks, 0-5 links over 2-4 residues with +n / > / < orders, residue-name choices, "
             "replace, versions, guards, explicit edges; 30%: labelled copies of links and labelled residue edges; 10%: link families "
             "whose atoms carry their own residue name, one per arrangement over three residues; 30%: residues carrying an attribute and copies of links that state it on one "
             "atom, with their own parameters) x residue graphs of 1-7 residues (path/tree/ring, mixed names, permuted "
             "keys); non-trivial = at least one link applied and at least one link or window not applicable; distinct by "
             "(force-field text, graph)"
             "; directed / added families (waves 10-12): links around an atom removal in every definition order; self-vetoing links (non-edge / pattern on their own result)"),
}

PRELUDE = """From PV Require Import Links.
Open Scope string_scope.
Open Scope Z_scope.
Definition show (g : meta) (blocks : list (ikey * ival)) (links : list link) :=
  (apply_links g blocks links, flat_map (link_replaces g) links, flat_map (link_edges g) links).
"""


def coq_order(o):
    if isinstance(o, int):
        return f"(ONum {lit(o)})"
    if set(o) == {'>'}:
        return f"(OArrow {lit(len(o))})"
    if set(o) == {'<'}:
        return f"(OArrow {lit(-len(o))})"
    if set(o) == {'*'}:
        return f"(OStar {lit(len(o))})"
    raise ValueError(o)


def extract_links(ff):
    import vermouth.molecule
    from vermouth.graph_utils import make_residue_graph
    out = []
    for link in ff.links:
        latoms = []
        for key in link.nodes:
            d = link.nodes[key]
            rn = d.get('resname')
            if isinstance(rn, vermouth.molecule.LinkPredicate) and not isinstance(rn.value, str):
                resnames = list(rn.value)
            else:
                resnames = [rn]
            repl = sorted((str(k), str(v)) for k, v in d.get('replace', {}).items())
            extra = sorted((str(k), str(v)) for k, v in d.items() if k not in ('atomname', 'order', 'resname', 'replace'))
            latoms.append({'key': str(key), 'name': d.get('atomname'), 'order': d.get('order'), 'resnames': resnames, 'replace': repl, 'attrs': extra})
        linters = []
        for sec, rows in link.interactions.items():
            for r in rows:
                linters.append({'sec': sec, 'atoms': [str(a) for a in r.atoms], 'params': [str(p) for p in r.parameters],
                                'version': int(r.meta.get('version', 1)), 'meta': sorted((str(k), str(v)) for k, v in r.meta.items())})
        res = make_residue_graph(link, attrs=('order',))
        rnodes = [res.nodes[n]['order'] for n in res.nodes]
        redges = [(res.nodes[a]['order'], res.nodes[b]['order']) for a, b in res.edges]
        rlabels = [(res.nodes[a]['order'], res.nodes[b]['order'], str(res.edges[a, b]['linktype'])) for a, b in res.edges
                   if res.edges[a, b].get('linktype') is not None]
        out.append({'atoms': latoms, 'inters': linters, 'edges': [(str(a), str(b)) for a, b in link.edges], 'rnodes': rnodes, 'redges': redges,
                    'rlabels': rlabels})
    return out


def coq_link(l):
    atoms = "[" + "; ".join(f"Build_latom {lit(a['key'])} {lit(a['name'])} {coq_order(a['order'])} {lit(a['resnames'])} {lit(a['replace'])} {lit(a.get('attrs', []))}"
                            for a in l['atoms']) + "]"
    inters = "[" + "; ".join(f"Build_linter {lit(i['sec'])} {lit(i['atoms'])} {lit(i['params'])} {lit(i['version'])} {lit(i['meta'])}"
                             for i in l['inters']) + "]"
    rn = "[" + "; ".join(coq_order(o) for o in l['rnodes']) + "]"
    re_ = "[" + "; ".join(f"({coq_order(a)}, {coq_order(b)})" for a, b in l['redges']) + "]"
    rl = "[" + "; ".join(f"({coq_order(a)}, {coq_order(b)}, {lit(s)})" for a, b, s in l.get('rlabels', [])) + "]"
    return f"(Build_link {atoms} {inters} {lit(l['edges'])} {rn} {re_} {rl})"


def coq_meta(residues, edges, elabels=()):
    nodes = "[" + "; ".join(
        f"Build_mnode {lit(k)} {lit(resid)} [" + "; ".join(f"Build_ratom {lit(a)} {lit(n)} {lit(rn)} {lit(list(at))}" for a, n, rn, at in atoms) + "]"
        for k, resid, atoms in residues) + "]"
    labs = "[" + "; ".join(f"({lit(a)}, {lit(b)}, {lit(s)})" for a, b, s in elabels) + "]"
    return f"(Build_meta {nodes} {lit(edges)} {labs})"


def run_case(ff, g):
    """run MapToMolecule, snapshot, extract model input, run ApplyLinks"""
    import io
    import contextlib
    from polyply import MapToMolecule, ApplyLinks
    text = ffgen.render_ff(ff)
    sink = io.StringIO()
    with contextlib.redirect_stderr(sink), contextlib.redirect_stdout(sink):
        vff = ffgen.load_ff(text)
        meta = ffgen.build_meta(g, vff)
        MapToMolecule(vff).run_molecule(meta)
        before = ffgen.snapshot(meta.molecule)
        residues = []
        key_to_i = {g['keys'][i]: i for i in range(g['nres'])}
        for n in meta.nodes:
            gph = meta.nodes[n]['graph']
            # the further attributes of an atom are those its residue carries in the sequence (taken from the input)
            rat = tuple(sorted((str(k), str(v)) for k, v in g.get('rattrs', {}).get(str(key_to_i[int(n)]), {}).items()))
            # ... plus the type its block gives it (links select atoms by the block's attributes, not by replaced ones)
            atype_of = {a['key']: a['atype'] for a in before['atoms']}
            residues.append((int(n), int(meta.nodes[n]['resid']),
                             [(int(a), gph.nodes[a]['atomname'], gph.nodes[a]['resname'], rat + (('atype', str(atype_of[int(a)])),)) for a in gph.nodes]))
        edges = [(int(a), int(b), None if meta.edges[a, b].get('linktype') is None else str(meta.edges[a, b]['linktype']))
                 for a, b in meta.edges]
        links = extract_links(vff)
        ApplyLinks().run_molecule(meta)
        after = ffgen.snapshot(meta.molecule)
    return text, before, after, residues, edges, links


def key_of(sec, r):
    return (sec, tuple(r['atoms']), int(r['meta'].get('version', 1)))


def judge(ff, g, before, after, residues):
    """soundness of inter-residue interactions and completeness of next-residue bond links, recomputed independently"""
    bad = []
    resid_of = {a: resid for _, resid, atoms in residues for a, *_ in atoms}
    name_of = {a: n for _, _, atoms in residues for a, n, *_ in atoms}
    rname_of = {a: rn for _, _, atoms in residues for a, _, rn, *_ in atoms}
    link_rows = [(sec, r, l) for l in ff['links'] for sec, rows in l['inters'].items() for r in rows]
    bkeys = {key_of(sec, r) for sec, rows in before['inters'].items() for r in rows}
    for sec, rows in after['inters'].items():
        for r in rows:
            if key_of(sec, r) in bkeys and len({resid_of[a] for a in r['atoms']}) == 1:
                continue
            # some link interaction of this section with the same parameters and atom names, on allowed residue names
            ok = any(s == sec and lr['params'] == r['params'] and [n for _, n in lr['atoms']] == [name_of[a] for a in r['atoms']]
                     and all(rname_of[a] in (l['resnames'] or list(rname_of.values())) for a in r['atoms']) for s, lr, l in link_rows)
            if not ok and key_of(sec, r) not in bkeys:
                bad.append(f"{sec} on atoms {r['atoms']} ({[name_of[a] for a in r['atoms']]}) with {r['params']} is defined by no link of the force field")
    # completeness / chain end for plain next-residue bonds on a path
    if g['shape'] == 'path':
        by = {b['name']: b for b in ff['blocks']}
        for l in ff['links']:
            if not l['resnames']:
                continue        # atoms with their own residue names: judged by spec_table
            for r in l['inters'].get('bonds', []):
                (p1, n1), (p2, n2) = r['atoms']
                if (p1, p2) != ('', '+'):
                    continue
                others = [a for rows in l['inters'].values() for rr in rows for a in rr['atoms']] + [tuple(pn) for pn, _ in l['atoms_attr']]
                if any(p not in ('', '+') for p, _ in others):
                    continue
                for k in range(g['nres'] - 1):
                    if l.get('edge_labels') or g.get('elabels', {}).get(str(k)) is not None or any(set(at) - {'replace'} for _, at in l['atoms_attr']):
                        continue    # labelled links / labelled residue edges are judged by spec_table
                    ra, rb = g['resnames'][k], g['resnames'][k + 1]
                    applicable = ra in l['resnames'] and rb in l['resnames'] and \
                        all(any(a['name'] == n for a in by[ra if p == '' else rb]['atoms']) for p, n in set(others))
                    if not applicable:
                        continue
                    rid = g['r0'] + k
                    a1 = [a for a in resid_of if resid_of[a] == rid and name_of[a] == n1]
                    a2 = [a for a in resid_of if resid_of[a] == rid + 1 and name_of[a] == n2]
                    present = any(x['atoms'] == [a1[0], a2[0]] and x['meta'].get('version', 1) == r['meta'].get('version', 1)
                                  for x in after['inters'].get('bonds', []))
                    if not present:
                        bad.append(f"link bond {n1} +{n2} applies to residues {rid},{rid + 1} ({ra},{rb}) but is absent")
    return bad


def spec_table(before, residues, edges, links):
    """the statement, recomputed independently of the Coq model: every link, every assignment of its residue orders to
    residues that is an induced match of the link's residue pattern with admissible relative order, every link atom
    identifying exactly one atom; writes keyed by (section, atoms, version), applied in force-field order and, per link,
    in the order of the residues involved; later writes win"""
    import itertools
    from vermouth.processors.do_links import match_order
    resid = {k: r for k, r, _ in residues}
    atoms_of = {k: atoms for k, _, atoms in residues}
    adj = {frozenset((a, b)): lab for a, b, lab in edges}
    table = {}
    for sec, rows in before['inters'].items():
        for r in rows:
            ver = int(r['meta'].get('version', 1))
            while (sec, tuple(r['atoms']), ver) in table:
                ver += 1
            table[(sec, tuple(r['atoms']), ver)] = (tuple(r['params']), tuple(sorted((str(k), str(v)) for k, v in r['meta'].items())))
    for link in links:
        orders = link['rnodes']
        ledges = {frozenset(e): None for e in link['redges']}
        for a, b, lab in link.get('rlabels', []):
            ledges[frozenset((a, b))] = lab
        matches = []
        for nodes in itertools.permutations(list(resid), len(orders)):
            ok = True
            for (o1, n1), (o2, n2) in itertools.combinations(list(zip(orders, nodes)), 2):
                le, me = frozenset((o1, o2)), frozenset((n1, n2))
                # an edge of the link's residue pattern lies on a residue-graph edge with the same label (none = none)
                if (le in ledges) != (me in adj) or (le in ledges and ledges[le] != adj[me]) or \
                        not match_order(o1, resid[n1], o2, resid[n2]):
                    ok = False
                    break
            if ok:
                matches.append(dict(zip(orders, nodes)))
        matches.sort(key=lambda mu: sorted((resid[n], str(o)) for o, n in mu.items()))
        for mu in matches:
            m = {}
            for la in link['atoms']:
                cands = [a for a, n, rn, at in atoms_of[mu[la['order']]] if n == la['name'] and rn in la['resnames']
                         and all(tuple(kv) in at for kv in la.get('attrs', []))]
                if len(cands) != 1:
                    m = None
                    break
                m[la['key']] = cands[0]
            if m is None:
                continue
            for i in link['inters']:
                if all(k in m for k in i['atoms']):
                    table[(i['sec'], tuple(m[k] for k in i['atoms']), i['version'])] = (tuple(i['params']), tuple(tuple(x) for x in i['meta']))
    return sorted((k[0], k[1], v[0], v[1]) for k, v in table.items())


def pattern_cases(ctx):
    """[ patterns ]: a link applies only where one of its pattern lines holds; a pattern tests the attributes the atoms have
    when the link is applied -- residue names, and attributes an EARLIER link replaced.  Directed family: a chain link
    that replaces the type of +BB, then an angle link over three residues whose patterns test that type or a residue name."""
    rng = ctx.rng
    for _ in range(ctx.n(10, 60)):
        t0, t1 = rng.sample(ffgen.ATYPES, 2)
        names = ['RA', 'RB']
        on_type = rng.random() < 0.6
        which = rng.choice(['', '+', '++'])
        pat_atoms = ' '.join(f'{p}BB' + (f' {{"atype": "{t1}"}}' if on_type and p == which else
                                          ' {"resname": "RB"}' if (not on_type) and p == which else '') for p in ('', '+', '++'))
        text = '\n'.join(
            sum([['[ moleculetype ]', f'{n} 1', '[ atoms ]', f'1 {t0} 1 {n} BB 1 0.0 72.0'] for n in names], []) +
            ['[ link ]', 'resname "RA|RB"', '[ atoms ]', f'+BB {{"replace": {{"atype": "{t1}"}}}}', '[ bonds ]', 'BB +BB 1 0.350 1250.000',
             '[ link ]', 'resname "RA|RB"', '[ angles ]', 'BB +BB ++BB 2 120.000 25.000', '[ patterns ]', pat_atoms]) + '\n'
        nres = rng.randint(3, 6)
        g = {'nres': nres, 'shape': 'path', 'resnames': [rng.choice(names) for _ in range(nres)], 'edges': [(i, i + 1) for i in range(nres - 1)],
             'r0': 1, 'keys': list(range(nres)), 'order': list(range(nres)), 'edge_order': list(range(nres - 1)), 'flip': [False] * (nres - 1)}
        if rng.random() < 0.4:
            g = ffgen.permute_graph(rng, g)
        out = ffgen.run_pipeline(text, g)
        ctx.case(('pattern', text, json.dumps(g, sort_keys=True)), nontrivial=True)
        ctx.feature('link_with_patterns')
        rep = {'pattern_ff': text, 'graph': g}
        if 'error' in out:
            ctx.violation('spec', f"the pipeline failed on an input with [ patterns ]: {out['error']}", rep)
            continue
        atom_of = {a['resid']: a['key'] for a in out['links']['atoms']}
        # when the angle link is applied every residue but the first has had the type of its BB replaced
        cur_type = {r: (t1 if r >= 2 else t0) for r in range(1, nres + 1)}
        k = ('', '+', '++').index(which)
        want = []
        for i in range(1, nres - 1):
            r = i + k
            holds = (cur_type[r] == t1) if on_type else (g['resnames'][r - 1] == 'RB')
            if holds:
                want.append((atom_of[i], atom_of[i + 1], atom_of[i + 2]))
        got = sorted(tuple(x['atoms']) for x in out['links']['inters'].get('angles', []))
        if got != sorted(want):
            ctx.violation('spec', f"C02 fails on the implementation: the pattern line '{pat_atoms}' holds for the windows {sorted(want)} "
                          f"(types after the chain link replaced them: {cur_type}; residue names {g['resnames']}) but the angle link was applied at {got}", rep)


def dangling_cases(ctx):
    """dangling interactions of monomer .itp files behave as the equivalent next-residue links"""
    import io
    import contextlib
    import pathlib
    from harness import systems
    import polyply.src.gen_itp as gi
    rng = ctx.rng
    for _ in range(ctx.n(10, 100)):
        natoms = rng.randint(1, 3)
        n = rng.randint(2, 6)
        names = [f'A{i}' for i in range(natoms)]
        lines = ['[ moleculetype ]', 'MON 1', '[ atoms ]']
        for i, nm in enumerate(names):
            lines.append(f'{i + 1} P1 1 MON {nm} {i + 1} 0.0 72.0')
        lines.append('[ bonds ]')
        for i in range(natoms - 1):
            lines.append(f'{i + 1} {i + 2} 1 0.30 1000')
        reach = 1      # a bond that skips a residue has no counterpart among links either (the residues must be adjacent)
        lines.append(f'{natoms} {natoms + 1 + (reach - 1) * natoms} 1 0.35 1250')
        with_angle = rng.random() < 0.5
        if with_angle:
            lines += ['[ angles ]', f'{natoms} {natoms + 1} {2 * natoms + 1} 2 120.0 50.0']
        text = '\n'.join(lines) + '\n'
        with systems.Workdir() as wd:
            p = os.path.join(wd, 'mon.itp')
            with open(p, 'w') as fh:
                fh.write(text)
            sink = io.StringIO()
            try:
                with contextlib.redirect_stderr(sink), contextlib.redirect_stdout(sink):
                    gi.gen_params(name='x', outpath=pathlib.Path(wd) / 'o.itp', inpath=[pathlib.Path(p)], lib=None, seq=[f'MON:{n}'])
                with open(os.path.join(wd, 'o.itp')) as fh:
                    itp = fh.read()
            except Exception as exc:  # noqa
                ctx.violation('spec', f"gen_params failed on a monomer .itp with dangling interactions: {type(exc).__name__}: {exc}", {'dangling': text, 'n': n})
                continue
        bonds = []
        angles = []
        sec = None
        for ln in itp.split('\n'):
            ln = ln.split(';')[0].strip()
            if ln.startswith('['):
                sec = ln.strip('[ ]')
            elif ln and sec == 'bonds' and not ln.startswith('#'):
                t = ln.split()
                bonds.append((int(t[0]), int(t[1]), t[3]))
            elif ln and sec == 'angles' and not ln.startswith('#'):
                t = ln.split()
                angles.append((int(t[0]), int(t[1]), int(t[2])))
        want = {(r * natoms + natoms, (r + reach) * natoms + 1) for r in range(n - reach)}
        got = {(a, b) for a, b, p in bonds if p == '0.35'}
        ctx.case(('dangling', text, n), nontrivial=True, sample={'monomer_itp': text, 'n': n, 'inter_residue_bonds': sorted(got)})
        if got != want:
            ctx.violation('spec', f"dangling bond of the monomer .itp: present between {sorted(got)}, expected for every window that fits {sorted(want)}",
                          {'dangling': text, 'n': n})
        if with_angle:
            wa = {(r * natoms + natoms, (r + 1) * natoms + 1, (r + 2) * natoms + 1) for r in range(n - 2)}
            if set(angles) != wa:
                ctx.violation('spec', f"dangling angle of the monomer .itp: present on {sorted(angles)}, expected for every window that fits {sorted(wa)}",
                              {'dangling': text, 'n': n})


def removal_link_cases(ctx, n, extra=()):
    """a link applies wherever its definition matches the residues as the blocks define them: an atom that another link
    removes is still matched (the interactions on it go with the atom), and a link defined later overrides"""
    import itertools
    rng = ctx.rng
    todo = list(extra)
    for _ in range(n):
        case = ffgen.gen_removal_ff(rng)
        order = list(rng.choice(list(itertools.permutations(range(len(case['links']))))))
        todo.append({'case': case, 'order': order})
    for item in todo:
        case, order = item['case'], item['order']
        text = ffgen.removal_ff_text(case, order)
        out = ffgen.run_pipeline(text, ffgen.removal_graph(case))
        ctx.case(('removal_links', text, case['nres']), nontrivial=True, sample={'links': [case['links'][i]['name'] for i in order], 'nres': case['nres']})
        ctx.feature('links_naming_an_atom_another_link_removes')
        if 'error' in out:
            ctx.violation('spec', f"the pipeline failed on links around an atom removal: {out['error']}", {'removal_links': item})
            continue
        exp, obs = ffgen.removal_expected(case), ffgen.removal_observed(out)
        if exp != obs:
            miss = sorted(set(exp[1]) - set(obs[1]))[:2]
            extra_ = sorted(set(obs[1]) - set(exp[1]))[:2]
            ctx.violation('spec', f"C02 fails on the implementation: links {[case['links'][i]['name'] for i in order]}"
                          f"{' + override' if case['override'] else ''} on MON:{case['nres']}: the definitions give interactions {miss} that are absent, "
                          f"and the molecule carries {extra_} that they do not give (atoms equal: {exp[0] == obs[0]})", {'removal_links': item})


def self_veto_cases(ctx, n, extra=()):
    """a link whose own result vetoes its next match (a non-edge on the bond it makes, or a pattern on the attribute it
    replaces): the matches are applied one after the other in residue order, each judged on the molecule as the earlier
    ones left it"""
    rng = ctx.rng
    todo = list(extra) + [{'kind': rng.choice(['non_edge', 'pattern']), 'nres': rng.randint(3, 8)} for _ in range(n)]
    for case in todo:
        base = ['[ moleculetype ]', 'A 1', '[ atoms ]', '1 P1 1 A BB 1 0.0 72', '2 C1 1 A SC 2 0.0 36', '[ bonds ]', 'BB SC 1 0.3 1000']
        if case['kind'] == 'non_edge':
            link = ['[ link ]', 'resname "A"', '[ bonds ]', 'BB +BB 1 0.35 1250', '[ non-edges ]', 'BB -BB']
        else:
            link = ['[ link ]', 'resname "A"', '[ atoms ]', '+BB {"replace": {"atype": "Q1"}}', '[ bonds ]', 'BB +BB 1 0.35 1250',
                    '[ patterns ]', 'BB {"atype": "P1"} +BB']
        text = '\n'.join(base + link) + '\n'
        n_ = case['nres']
        g = {'nres': n_, 'shape': 'path', 'resnames': ['A'] * n_, 'edges': [(i, i + 1) for i in range(n_ - 1)], 'r0': 1,
             'keys': list(range(n_)), 'order': list(range(n_)), 'edge_order': list(range(n_ - 1)), 'flip': [False] * (n_ - 1)}
        out = ffgen.run_pipeline(text, g)
        ctx.case(('self_veto', case['kind'], n_), nontrivial=True, sample=case)
        ctx.feature('link_vetoed_by_its_own_earlier_match_' + case['kind'])
        if 'error' in out:
            ctx.violation('spec', f"the pipeline failed on a self-vetoing link: {out['error']}", {'self_veto': case})
            continue
        bb = {a['resid']: a['key'] for a in out['links']['atoms'] if a['name'] == 'BB'}
        want, prev_applied = [], False
        for r in range(1, n_):
            applies = not prev_applied       # the match (r, r+1) is vetoed exactly if (r-1, r) was applied
            if applies:
                want.append((bb[r], bb[r + 1]))
            prev_applied = applies
        got = sorted(tuple(x['atoms']) for x in out['links']['inters'].get('bonds', []) if tuple(x['atoms']) in {(bb[r], bb[r + 1]) for r in range(1, n_)})
        if got != sorted(want):
            ident = {v: k for k, v in bb.items()}
            ctx.violation('spec', f"C02 fails on the implementation: link 'BB +BB' vetoed by {'the edge BB -BB' if case['kind'] == 'non_edge' else 'the type it gives +BB'} "
                          f"on A:{n_}: applied between residues {[(ident[a], ident[b]) for a, b in got]}, matches judged one after the other give "
                          f"{[(ident[a], ident[b]) for a, b in sorted(want)]}", {'self_veto': case})


def run(ctx):
    ctx.correspondences += ['MapToMolecule + ApplyLinks vs model/Links.v (interactions per section, replaced attributes, edges)',
                            'implementation judged directly (soundness, next-residue completeness, chain end)',
                            'dangling .itp interactions through gen_params']
    rng = ctx.rng
    removal_link_cases(ctx, ctx.n(10, 100))
    self_veto_cases(ctx, ctx.n(8, 60))
    cases = [(c['ff'], c['graph']) for _, c in core.corpus_cases('C02')]
    for _ in range(ctx.n(160, 1600)):
        if rng.random() < 0.1:
            ff, names = ffgen.gen_arrangement_ff(rng)
            g = ffgen.gen_arrangement_graph(rng, names)
            ctx.feature('per_atom_resname_links')
        elif rng.random() < 0.06:
            ff, g = ffgen.gen_replace_select_ff(rng)
            ctx.feature('replace_and_select_links')
        else:
            ff = ffgen.gen_ff(rng, uniform_nrexcl=1, nlinks=rng.randint(0, 5))
            g = ffgen.gen_resgraph(rng, ff)
        if rng.random() < 0.4:
            g = ffgen.permute_graph(rng, g)
        if rng.random() < 0.3:
            # edge labels: labelled and unlabelled links of the same shape side by side, labelled residue edges
            labelled = [ffgen.label_link(rng, l) for l in ff['links'] if l['resnames'] and rng.random() < 0.6]
            ff = dict(ff, links=ff['links'] + [l for l in labelled if l.get('edge_labels')])
            if rng.random() < 0.5:
                rng.shuffle(ff['links'])
            g = ffgen.label_graph(rng, g)
            ctx.feature('edge_labels')
        if rng.random() < 0.3:
            # residues carrying an attribute, links one of whose atoms states it (next to the plain link)
            extra = [ffgen.attr_link(rng, l) for l in ff['links'] if rng.random() < 0.7]
            ff = dict(ff, links=ff['links'] + [l for l in extra if l])
            g = ffgen.attr_graph(rng, g)
            ctx.feature('residue_attributes')
        cases.append((ff, g))
    exprs, keep = [], []
    for ff, g in cases:
        try:
            text, before, after, residues, edges, links = run_case(ff, g)
        except Exception as exc:  # noqa
            ctx.violation('spec', f"the pipeline failed on a generated input: {type(exc).__name__}: {exc}", {'ff': ff, 'graph': g})
            ctx.case(json.dumps([ffgen.render_ff(ff), g], sort_keys=True), nontrivial=False)
            continue
        nb = sum(len(v) for v in before['inters'].values())
        na = sum(len(v) for v in after['inters'].values())
        ctx.feature('links_added' if na > nb else 'no_link_applied')
        ctx.case(json.dumps([text, g], sort_keys=True), nontrivial=na > nb and len(ff['links']) >= 2,
                 sample={'ff': text[-500:], 'resnames': g['resnames'], 'shape': g['shape'], 'interactions_before': nb, 'after': na})
        for b in judge(ff, g, before, after, residues)[:1]:
            ctx.violation('spec', f"C02 fails on the implementation: {b}", {'ff': ff, 'graph': g, 'failure': b})
        want = spec_table(before, residues, edges, links)
        got = sorted((sec, tuple(x['atoms']), tuple(x['params']), tuple(sorted((str(k), str(v)) for k, v in x['meta'].items())))
                     for sec, rows in after['inters'].items() for x in rows)
        if want != got:
            only_spec = [x for x in want if x not in got][:2]
            only_impl = [x for x in got if x not in want][:2]
            ctx.violation('spec', f"C02 fails on the implementation: interactions where a link matches {only_spec} are missing or differ; "
                          f"the molecule has {only_impl} which no matching link defines", {'ff': ff, 'graph': g, 'failure': 'link table'})
        # block interactions are all kept: terms on the same atoms without explicit version get consecutive versions
        seen_keys, block_rows = set(), []
        for sec, rows in before['inters'].items():
            for r in rows:
                ver = int(r['meta'].get('version', 1))
                while (sec, tuple(r['atoms']), ver) in seen_keys:
                    ver += 1
                seen_keys.add((sec, tuple(r['atoms']), ver))
                block_rows.append((sec, r, ver))
        blocks = "[" + "; ".join(
            f"(({lit(sec)}, {lit(r['atoms'])}, {lit(ver)}), ({lit(r['params'])}, {lit(sorted((str(k), str(v)) for k, v in r['meta'].items()))}))"
            for sec, r, ver in block_rows) + "]"
        exprs.append(f"show {coq_meta(residues, [(a, b) for a, b, _ in edges], [e for e in edges if e[2] is not None])} {blocks} "
                     f"[{'; '.join(coq_link(l) for l in links)}]")
        keep.append((ff, g, before, after))
    try:
        res = core.coq_eval_cases(ctx, 'links', PRELUDE, exprs, chunk=40)
    except core.CoqEvalError as exc:
        ctx.note(str(exc)[:1000])
        ctx.broken.append('correspondence:ApplyLinks vs model (evaluation failed)')
        return
    mism = 0
    for (ff, g, before, after), r in zip(keep, res):
        table, replaces, ledges = r
        model = sorted((x[0], tuple(x[1]), tuple(x[3][0]), tuple(tuple(y) for y in x[3][1])) for x in table)
        impl = sorted((sec, tuple(x['atoms']), tuple(x['params']), tuple(sorted((str(k), str(v)) for k, v in x['meta'].items())))
                      for sec, rows in after['inters'].items() for x in rows)
        attrs = {a['key']: {'atype': a['atype'], 'mass': a['mass']} for a in before['atoms']}
        for a, k, v in replaces:
            attrs[a][k] = float(v) if k == 'mass' else v
        impl_attrs = {a['key']: {'atype': a['atype'], 'mass': a['mass']} for a in after['atoms']}
        medges = sorted(set(before['edges']) | {tuple(sorted(e)) for e in ledges})
        diff = None
        if model != impl:
            diff = f"interactions: model {model[:6]} ... impl {impl[:6]}"
        elif attrs != impl_attrs:
            diff = f"replaced attributes differ: model {attrs} impl {impl_attrs}"
        elif medges != after['edges']:
            diff = f"edges: model {medges} impl {after['edges']}"
        if diff:
            mism += 1
            if mism <= 3:
                ctx.note(f"correspondence: {diff[:500]}")
                ctx.extra.setdefault('disagreements', []).append({'ff': ff, 'graph': g, 'diff': diff[:400]})
    ctx.extra['correspondence'] = {'cases': len(keep), 'mismatches': mism}
    if mism:
        ctx.broken.append('correspondence:ApplyLinks vs model/Links.v')
    dangling_cases(ctx)
    pattern_cases(ctx)


def search(ctx):
    return


def replay(ctx, data):
    print(json.dumps(data, indent=1, default=str)[:3000])
    if 'self_veto' in data:
        before = len(ctx.violations)
        self_veto_cases(ctx, 0, extra=[data['self_veto']])
        print('replay:', ctx.violations[-1]['what'][:400] if len(ctx.violations) > before else 'statement satisfied on this input')
        return 1 if len(ctx.violations) > before else 0
    if 'removal_links' in data:
        before = len(ctx.violations)
        removal_link_cases(ctx, 0, extra=[data['removal_links']])
        print('replay:', ctx.violations[-1]['what'][:400] if len(ctx.violations) > before else 'statement satisfied on this input')
        return 1 if len(ctx.violations) > before else 0
    if 'pattern_ff' in data:
        out = ffgen.run_pipeline(data['pattern_ff'], data['graph'])
        print('replay: angles after link application', out.get('links', {}).get('inters', {}).get('angles'))
        return 0
    if 'ff' in data and 'graph' in data:
        text, before, after, residues, edges, links = run_case(data['ff'], data['graph'])
        bad = judge(data['ff'], data['graph'], before, after, residues)
        want = spec_table(before, residues, edges, links)
        got = sorted((sec, tuple(x['atoms']), tuple(x['params']), tuple(sorted((str(k), str(v)) for k, v in x['meta'].items())))
                     for sec, rows in after['inters'].items() for x in rows)
        if want != got:
            bad.append('the interactions of the molecule are not those of the matching links')
        print('replay:', bad[:3] or 'statement satisfied')
        return 1 if bad else 0
    return 0
