"""C04 -- supplied coordinates are preserved; only missing parts are built.

Proof: Props/C04.v over model/Consume.v (the cursor of add_positions_from_file: who gets which
coordinate of the file, which residues are flagged for building / backmapping; final
coordinates for every walk / backmap outcome; engine slots under -ign) and C17's attempt loop
(a failed attempt leaves exactly the supplied residues positioned; T: clean-up set).
Correspondence (tie D): (i) the real Topology.add_positions_from_file on generated topologies,
files of any length, both resolutions, skip lists, vs model consume (coordinate indices, flags,
IOError); (ii) complete gen_coords runs with -c / -mc / -res / -ign, partial chains and scripted
failed attempts: input .gro vs output .gro judged from the statement."""
import json
import math

import numpy as np

from harness import core, systems
from harness.coqio import lit

META = {
    'level': 'proof',
    'technique': 'Coq proofs over the coordinate-consumption cursor, final-coordinate frame for all walk/backmap outcomes, engine slots under -ign, and the attempt loop of C17; differential correspondence with add_positions_from_file; end-to-end input-vs-output judge with scripted failures',
    'gen_deps': ['Gen_build'],
    'eval_deps': ['theories/model/Consume.vo'],
    'level_text': ("Theorems in Coq (Props/C04.v): the coordinates handed to residues are a prefix of the file in file order, none "
                   "skipped or reused; a residue is flagged for generation iff it is named for rebuilding or the file is exhausted; "
                   "atoms of fully supplied residues keep the file's coordinates and centre-only residues are backmapped around the "
                   "supplied centre for every outcome of the random walk and of backmapping; a residue partly covered by the file is "
                   "rejected; every abandoned attempt leaves exactly the supplied residues positioned (C17 loop, with the clean-up "
                   "set regenerated from the source); the engine has a slot under topology index i exactly for the non-ignored "
                   "molecule at i (the filtered numbering of the code before the repair F4 is refuted). Tied to the code by "
                   "differential runs of add_positions_from_file and by end-to-end runs comparing input and output structures."),
    'level_note': ("Trusted: Coq kernel, harness, .gro reader/writer. No axioms. Random walk and backmapping are universally "
                   "quantified oracles in the model; their own properties are C05/C06/C17."),
    'rule': ("(i) cases = generated topologies (1-3 types, 1-3 instances, single/multi-atom residues) x resolution x skip list x file "
             "length 0..all (+ cuts inside a residue); (ii) runs = generated systems x {full -c, partial chain, -res rebuild, -mc "
             "centres, -ign at every position, scripted failed attempts}; non-trivial = at least one supplied and one generated "
             "residue; distinct by (topology, split, options, seed)"
             "; directed / added families (waves 10-12): residues given as centres whose type has a virtual site"),
}

PRELUDE = """From Coq Require Import String List Bool Arith.
From PV Require Import Consume.
Import ListNotations.
Open Scope string_scope.
Definition show_state (s : rstate nat) : nat * list nat :=
  match s with RBuild => (0, []) | RCentre p => (1, [p]) | RAtoms ps _ => (2, ps) end.
Definition run_case (mol : bool) (skip : list string) (rs : list (string * nat)) (n : nat) :=
  match consume (fun l => hd 0 l) mol (fun x => existsb (String.eqb x) skip)
                (map (fun r => {| r_name := fst r; r_natoms := snd r |}) rs) (seq 0 n) with
  | COk sts rest => Some (map show_state sts, length rest)
  | CErr => None
  end.
Definition slot_case (ign : list string) (mols : list string) :=
  map (fun i => slot_of (slots (fun x => existsb (String.eqb x) ign) mols) i) (seq 0 (length mols)).
"""


def residues_of(moltypes, molecules):
    """(resname, natoms) per residue over the expanded molecule list"""
    by = {mt['name']: mt for mt in moltypes}
    out = []
    for name, n in molecules:
        for _ in range(n):
            mt = by[name]
            for r in range(mt['nres']):
                out.append((mt['resnames'][r], sum(1 for a in mt['atoms'] if a.get('res', a['resid'] - 1) == r)))
    return out


def consume_impl(wd, moltypes, molecules, resolution, skip, ncoords):
    from polyply.src.topology import Topology
    top = systems.top_text(moltypes, molecules)
    with open(f'{wd}/s.top', 'w') as fh:
        fh.write(top)
    pool = sorted({rn for mt in moltypes for rn in mt['resnames']})
    rows = [{'resid': (k % 9999) + 1, 'resname': pool[k % len(pool)], 'name': 'X', 'xyz': (0.001 * k, 0.5, 0.25)} for k in range(ncoords)]
    systems.write_gro(f'{wd}/c.gro', rows, [9, 9, 9])
    topology = Topology.from_gmx_topfile(f'{wd}/s.top', name='x')
    topology.preprocess()
    try:
        topology.add_positions_from_file(f'{wd}/c.gro', skip_res=skip, resolution=resolution)
    except IOError:
        return None
    out = []

    def index_of(p):
        return int(round(float(p[0]) / 0.001))
    for mol in topology.molecules:
        for node in mol.nodes:
            d = mol.nodes[node]
            frag = d['graph']
            import networkx as nx
            idxs = nx.get_node_attributes(frag, 'index')
            atoms = sorted(idxs, key=idxs.get)
            if d.get('build') and d.get('backmap'):
                out.append((0, []))
            elif d.get('backmap') and not d.get('build'):
                out.append((1, [index_of(d['position'])]))
            elif d.get('build') is False and d.get('backmap') is False:
                out.append((2, [index_of(mol.molecule.nodes[a]['position']) for a in atoms]))
            else:
                out.append((9, [repr((d.get('build'), d.get('backmap')))]))
    return out


def gen_system(rng, multi=None):
    ntypes = rng.randint(1, 3)
    moltypes = []
    for i in range(ntypes):
        nres = rng.randint(1, 5)
        # residue names as they occur in real systems, solvent names included
        resnames = [rng.choice(['RA', 'RB', 'SOL', 'W', 'HOH']) for _ in range(nres)] if rng.random() < 0.4 else None
        moltypes.append(systems.gen_moltype(rng, f'M{"ABC"[i]}', nres=nres, multi_atom=(rng.random() < 0.5 if multi is None else multi),
                                            shape='path' if rng.random() < 0.7 else None, resnames=resnames,
                                            restart=nres >= 2 and rng.random() < 0.2))
    molecules = [(rng.choice(moltypes)['name'], rng.randint(1, 2)) for _ in range(rng.randint(1, 3))]
    return moltypes, molecules


def plan_rewind(rng):
    """an alternating copolymer whose RA residues are supplied (-c) and whose RB residues are built (-res RB); one or two
    growth steps are refused once after at least six residues were placed, so the walk rewinds over supplied residues"""
    nres = rng.randint(14, 18)
    mt = systems.gen_moltype(rng, 'MA', nres=nres, multi_atom=rng.random() < 0.5, shape='path',
                             resnames=['RA' if i % 2 == 0 else 'RB' for i in range(nres)])
    first = rng.randint(7, nres // 2)
    fails = [first] + ([first + rng.randint(7, 9)] if rng.random() < 0.4 else [])
    return {'kind': 'rewind', 'moltypes': [mt], 'molecules': [('MA', 1)], 'seed': rng.randrange(10 ** 6), 'L': 9.0, 'skip': ['RB'], 'ignore': [],
            'fail': {}, 'resolution': 'mol', 'nres_supplied': nres, 'step_fail': fails, 'spacing': 0.75}


# ------------------------------------------------------------------ end-to-end runs
def snake(n, spacing, L):
    k = max(1, int((L - 0.6) / spacing))
    pts = []
    for z in range(k):
        for y in range(k):
            xs = range(k) if (y + z * k) % 2 == 0 else range(k - 1, -1, -1)
            for x in xs:
                pts.append((round(0.3 + x * spacing, 3), round(0.3 + (y if z % 2 == 0 else k - 1 - y) * spacing, 3), round(0.3 + z * spacing, 3)))
                if len(pts) == n:
                    return pts
    raise ValueError('box too small for the supplied coordinates')


def plan_run(rng, kind, force_vsites=False):
    """a system, which residues are supplied how, and the options"""
    moltypes, molecules = gen_system(rng, multi=True if force_vsites else None)
    by = {mt['name']: mt for mt in moltypes}
    inst = [name for name, n in molecules for _ in range(n)]
    case = {'kind': kind, 'moltypes': moltypes, 'molecules': molecules, 'seed': rng.randrange(10 ** 6), 'L': 6.0,
            'skip': [], 'ignore': [], 'fail': {}, 'resolution': 'mol', 'nres_supplied': None}
    nres_total = sum(by[n]['nres'] for n in inst)
    if kind == 'full':
        case['nres_supplied'] = nres_total - by[inst[-1]]['nres'] if len(inst) > 1 else max(0, nres_total - 1)
    elif kind == 'partial':
        case['nres_supplied'] = rng.randint(0, nres_total)
    elif kind == 'rebuild':
        names = sorted({rn for mt in moltypes for rn in mt['resnames']})
        case['skip'] = [rng.choice(names)]
        case['nres_supplied'] = nres_total
        # a molecule type that happens to be called like the residue name given with -res, holding other residues too
        cands = [mt for mt in moltypes if any(r != case['skip'][0] for r in mt['resnames'])]
        if cands and rng.random() < 0.5 and case['skip'][0] not in by:
            mt = rng.choice(cands)
            old = mt['name']
            mt['name'] = case['skip'][0]
            case['molecules'] = molecules = [(mt['name'] if n == old else n, c) for n, c in molecules]
    elif kind == 'centres':
        case['resolution'] = 'meta_mol'
        case['nres_supplied'] = rng.randint(1, nres_total)
        if force_vsites or rng.random() < 0.5:
            # residue types with a virtual site (built from part of the residue): a residue given as a centre is backmapped
            # around exactly that centre all the same
            case['moltypes'] = moltypes = [systems.add_virtual_sites(rng, mt, p=1.0 if force_vsites else 0.6) for mt in moltypes]
            if force_vsites:
                case['nres_supplied'] = nres_total
            by = {mt['name']: mt for mt in moltypes}
    elif kind == 'ignore':
        if len(set(inst)) < 2:
            # the statement is about ignored molecules next to others that are built
            raise ValueError('one molecule type only')
        ign = rng.choice(sorted({n for n in inst}))
        case['ignore'] = [ign]
        # ignored molecules need coordinates; supply every residue of ignored molecules and nothing else
        case['nres_supplied'] = nres_total
        other = sorted({rn for n in inst if n != ign for rn in by[n]['resnames']} - {rn for rn in by[ign]['resnames']})
        case['skip'] = other
    elif kind == 'fail':
        case['nres_supplied'] = rng.randint(1, max(1, nres_total - 1))
        case['fail'] = {'first_attempts': rng.randint(1, 3)}
        case['resolution'] = rng.choice(['mol', 'meta_mol'])
        # sometimes more failed attempts than the attempt limit: the molecule is given up once and started over
        if rng.random() < 0.5:
            case['maxiter'] = rng.choice([1, 2])
            case['fail'] = {'first_attempts': case['maxiter'] + rng.randint(1, 2)}
    return case


def build_input(case):
    """rows of the input structure and, per residue of the system, how it is supplied"""
    by = {mt['name']: mt for mt in case['moltypes']}
    inst = [name for name, n in case['molecules'] for _ in range(n)]
    plan = []          # per residue: dict(kind, atoms=[(resid,resname,name)], coords)
    budget = case['nres_supplied']
    rows = []
    natoms = sum(len(by[n]['atoms']) for n in inst)
    pts = iter(snake(natoms + 8, case.get('spacing', 0.47), case['L']))
    for mi, name in enumerate(inst):
        mt = by[name]
        for r in range(mt['nres']):
            atoms = [(a['resid'], a['resname'], a['name']) for a in mt['atoms'] if a.get('res', a['resid'] - 1) == r]
            rn = mt['resnames'][r]
            if rn in case['skip'] or budget <= 0:
                plan.append({'mol': mi, 'kind': 'build', 'atoms': atoms})
                continue
            budget -= 1
            if case['resolution'] == 'meta_mol':
                p = next(pts)
                rows.append({'resid': r + 1, 'resname': rn, 'name': 'X', 'xyz': p})
                plan.append({'mol': mi, 'kind': 'centre', 'atoms': atoms, 'coords': [p]})
            else:
                cs = [next(pts) for _ in atoms]
                for (resid, resname, an), p in zip(atoms, cs):
                    rows.append({'resid': resid, 'resname': resname, 'name': an, 'xyz': p})
                plan.append({'mol': mi, 'kind': 'atoms', 'atoms': atoms, 'coords': cs})
    return rows, plan


def run_case(case, timeout=90):
    rows, plan = build_input(case)
    fail_left = dict(case['fail'])
    seen = {'attempts': 0}

    def wrap_run_molecule(real):
        def run_molecule(self, meta_molecule):
            out = real(self, meta_molecule)
            seen['attempts'] += 1
            if fail_left.get('first_attempts', 0) > 0 and self.success:
                fail_left['first_attempts'] -= 1
                self.success = False            # an attempt that placed residues and is then abandoned
            return out
        return run_molecule
    hooks = {'polyply.src.random_walk:RandomWalk.run_molecule': wrap_run_molecule} if case['fail'] else {}
    captured = {}
    if case.get('step_fail'):
        # scripted step failures: the k-th growth step of the run is refused once (no position stored), which makes the
        # walk rewind when enough residues were placed before
        calls = {'n': 0, 'rewinds': 0}

        def wrap_update(real):
            def update_positions(self, vector_bundle, current_node, prev_node):
                calls['n'] += 1
                if calls['n'] in case['step_fail']:
                    return False
                return real(self, vector_bundle, current_node, prev_node)
            return update_positions

        def wrap_rewind(real):
            def _rewind(self, current_step):
                calls['rewinds'] += 1
                return real(self, current_step)
            return _rewind
        hooks['polyply.src.random_walk:RandomWalk.update_positions'] = wrap_update
        hooks['polyply.src.random_walk:RandomWalk._rewind'] = wrap_rewind
        captured['calls'] = calls

    def wrap_run_system(real):
        def run_system(self, molecules):
            out = real(self, molecules)
            # residue positions as the building stage leaves them (what backmapping and the next stages receive)
            captured['centres'] = [[(mol.nodes[n].get('resname'), None if mol.nodes[n].get('position') is None
                                     else [float(x) for x in mol.nodes[n]['position']]) for n in mol.nodes]
                                   for mol in self.topology.molecules]
            return out
        return run_system
    hooks['polyply.src.build_system:BuildSystem.run_system'] = wrap_run_system
    kw = {}
    with systems.Workdir() as wd:
        if rows:
            systems.write_gro(f'{wd}/in.gro', rows, [case['L']] * 3)
            kw['coordpath_meta' if case['resolution'] == 'meta_mol' else 'coordpath'] = 'in.gro'
        else:
            kw['box'] = np.array([case['L']] * 3)
        if case['skip']:
            kw['build_res'] = list(case['skip'])
        if case['ignore']:
            kw['ignore'] = list(case['ignore'])
        res = systems.run_gen_coords(wd, systems.top_text(case['moltypes'], case['molecules']), seed=case['seed'], timeout=timeout,
                                     maxiter=case.get('maxiter', 200), hooks=hooks, **kw)
    res['attempts'] = seen['attempts']
    res['centres'] = captured.get('centres')
    res['rewinds'] = captured.get('calls', {}).get('rewinds', 0)
    return res, rows, plan


F30_TOP = """[ defaults ]
1 2 no 1.0 1.0
[ atomtypes ]
P1 72.0 0.0 A 0.47 2.0
[ moleculetype ]
MA 1
[ atoms ]
1 P1 1 RA B 1 0.0 72
2 P1 2 RA B 2 0.0 72
3 P1 1 RA B 3 0.0 72
4 P1 2 RA B 4 0.0 72
[ bonds ]
1 2 1 0.35 5000
2 3 1 0.35 5000
3 4 1 0.35 5000
[ system ]
x
[ molecules ]
MA 1
"""


def noncontiguous_residue_case(ctx):
    """F30: a residue (number, name) whose atoms are not a contiguous run of the topology, fully supplied with -c"""
    pts = [(1.0, 1.0, 1.0), (1.4, 1.0, 1.0), (1.8, 1.0, 1.0), (2.2, 1.0, 1.0)]
    rows = [{'resid': r, 'resname': 'RA', 'name': 'B', 'xyz': p} for r, p in zip([1, 2, 1, 2], pts)]
    with systems.Workdir() as wd:
        systems.write_gro(f'{wd}/in.gro', rows, [5.0] * 3)
        res = systems.run_gen_coords(wd, F30_TOP, seed=1, timeout=60, coordpath='in.gro')
    ctx.case(('F30', 'noncontiguous residue'), nontrivial=True, sample={'resids': [1, 2, 1, 2], 'ok': res['ok']})
    ctx.feature('residue_with_non_contiguous_atoms')
    if not res['ok'] or res.get('rows') is None:
        ctx.violation('spec', f"a fully supplied molecule whose residue 1RA holds atoms 1 and 3 is not written: {res.get('exc_type')}",
                      {'f30': True}, finding='F30')
        return
    moved = [(k + 1, p, o['xyz']) for k, (p, o) in enumerate(zip(pts, res['rows'])) if any(abs(a - b) > 5e-4 for a, b in zip(p, o['xyz']))]
    if moved:
        ctx.violation('spec', f"supplied atoms of a molecule whose residue 1RA holds atoms 1 and 3 are written at other coordinates: {moved[:2]}",
                      {'f30': True}, finding='F30')


def judge(case, res, plan):
    bad = []
    if not res['ok']:
        inst = [name for name, n in case['molecules'] for _ in range(n)]
        if case['ignore'] and any(p['kind'] == 'build' and inst[p['mol']] in case['ignore'] for p in plan):
            return bad     # an ignored molecule without coordinates cannot be written: not covered by the statement
        if res['exc_type'] == 'RunTimeout':
            return bad
        return [f"gen_coords fails on an accepted input ({case['kind']}): {res['exc_type']}: {str(res.get('exception'))[:160]}"]
    rows = res.get('rows')
    if rows is None:
        return ["no output structure"]
    # supplied residues keep their centre through the building stage (failed attempts included)
    inst = [name for name, n in case['molecules'] for _ in range(n)]
    if res.get('centres'):
        for mi, cents in enumerate(res['centres']):
            mine = [p for p in plan if p['mol'] == mi]
            if inst[mi] in case['ignore'] or len(mine) != len(cents) or any(p['atoms'][0][1] != c[0] for p, c in zip(mine, cents)):
                continue
            for p, (rn, pos) in zip(mine, cents):
                if p['kind'] == 'build' or pos is None:
                    continue
                want = p['coords'][0] if p['kind'] == 'centre' else [sum(c[d] for c in p['coords']) / len(p['coords']) for d in range(3)]
                if any(abs(a - b) > 2e-3 for a, b in zip(pos, want)):
                    bad.append(f"residue {rn}{p['atoms'][0][0]} of molecule {mi}, supplied with centre {[round(x, 3) for x in want]}, leaves the "
                               f"building stage at {[round(x, 3) for x in pos]} ({res['attempts']} placement attempts)")
                    return bad
    k = 0
    for p in plan:
        out = rows[k:k + len(p['atoms'])]
        k += len(p['atoms'])
        if len(out) != len(p['atoms']):
            return [f"output has {len(rows)} atoms, the topology more"]
        if p['kind'] == 'atoms':
            for o, c in zip(out, p['coords']):
                if any(abs(a - b) > 5e-4 for a, b in zip(o['xyz'], c)):
                    bad.append(f"supplied atom {o['resname']}{o['resid']}:{o['name']} given at {c} is written at {o['xyz']}")
                    break
        elif p['kind'] == 'centre':
            cog = [sum(o['xyz'][d] for o in out) / len(out) for d in range(3)]
            if any(abs(a - b) > 2e-3 for a, b in zip(cog, p['coords'][0])):
                bad.append(f"residue {out[0]['resname']}{out[0]['resid']} supplied as centre {p['coords'][0]} is backmapped around {[round(x, 4) for x in cog]}")
        if not all(math.isfinite(x) for o in out for x in o['xyz']):
            bad.append(f"residue {out[0]['resname']}{out[0]['resid']} has a non-finite coordinate")
        if bad:
            break
    return bad


def run(ctx):
    ctx.correspondences += ['Topology.add_positions_from_file vs model consume (which coordinate index each atom / residue gets, flags, IOError)',
                            'engine slots: NonBondEngine.from_topology under -ign vs model slots',
                            'end-to-end gen_coords -c/-mc/-res/-ign with partial chains and scripted failed attempts: input vs output structure']
    rng = ctx.rng
    noncontiguous_residue_case(ctx)
    # (i) consume
    exprs, keep = [], []
    with systems.Workdir() as wd:
        for _ in range(ctx.n(120, 1200)):
            moltypes, molecules = gen_system(rng)
            rs = residues_of(moltypes, molecules)
            resolution = rng.choice(['mol', 'mol', 'meta_mol'])
            names = sorted({r for r, _ in rs})
            skip = rng.sample(names, rng.randint(0, min(1, len(names)))) if rng.random() < 0.4 else []
            total = sum(n for r, n in rs if r not in skip) if resolution == 'mol' else sum(1 for r, _ in rs if r not in skip)
            ncoords = rng.choice([total, rng.randint(0, total), rng.randint(0, total + 3), 0])
            impl = consume_impl(wd, moltypes, molecules, resolution, skip, ncoords)
            exprs.append(f"run_case {lit(resolution == 'mol')} {lit(skip)} [{'; '.join(f'({lit(r)}, {n}%nat)' for r, n in rs)}] {ncoords}%nat")
            keep.append((moltypes, molecules, resolution, skip, ncoords, impl))
            ctx.case(json.dumps([systems.top_text(moltypes, molecules), resolution, skip, ncoords]),
                     nontrivial=impl is not None and any(k == 0 for k, _ in impl) and any(k != 0 for k, _ in impl),
                     sample={'molecules': molecules, 'resolution': resolution, 'skip': skip, 'coordinates': ncoords,
                             'result': 'IOError' if impl is None else [k for k, _ in impl][:12]})
            ctx.feature('consume_error' if impl is None else 'consume_ok')
            ctx.feature('resolution_' + resolution)
    try:
        out = core.coq_eval_cases(ctx, 'consume', PRELUDE, exprs, chunk=60)
    except core.CoqEvalError as exc:
        ctx.note(str(exc)[:800])
        ctx.broken.append('correspondence:add_positions_from_file vs model (evaluation failed)')
        out = None
    mism = 0
    if out is not None:
        for (moltypes, molecules, resolution, skip, ncoords, impl), r in zip(keep, out):
            model = None if r is None else [(k, list(ix)) for k, ix in r[1][0]]
            im = None if impl is None else [(k, list(ix)) for k, ix in impl]
            if model != im:
                mism += 1
                if mism <= 3:
                    ctx.note(f"correspondence consume: model {str(model)[:200]} impl {str(im)[:200]}")
                    ctx.extra.setdefault('disagreements', []).append({'molecules': molecules, 'resolution': resolution, 'skip': skip, 'ncoords': ncoords})
                # the statement itself: coordinates are handed out in file order without gaps
                if im is not None:
                    used = [i for k, ix in im for i in ix]
                    if used != list(range(len(used))):
                        ctx.violation('spec', f"add_positions_from_file hands out coordinates {used[:20]} instead of the file's in order",
                                      {'consume': True, 'moltypes': moltypes, 'molecules': molecules, 'resolution': resolution, 'skip': skip, 'ncoords': ncoords})
        ctx.extra['consume'] = {'cases': len(keep), 'mismatches': mism}
        if mism:
            ctx.broken.append('correspondence:add_positions_from_file vs model/Consume.v')
    # engine slots
    slot_cases(ctx)
    # (ii) end to end
    kinds = ['full', 'partial', 'rebuild', 'centres', 'ignore', 'fail']
    cases = [c for _, c in core.corpus_cases('C04')]
    cases += [plan_rewind(rng) for _ in range(ctx.n(2, 16))]
    # always exercised: every residue given as a centre, residue types with virtual sites
    cases += [plan_run(rng, 'centres', force_vsites=True) for _ in range(ctx.n(3, 20))]
    # always exercised: an ignored molecule type listed on several [ molecules ] lines with molecules to be built in between
    for _ in range(ctx.n(2, 10)):
        ma = systems.gen_moltype(rng, 'MA', nres=rng.randint(1, 3), multi_atom=rng.random() < 0.5, shape='path', resnames=None)
        ma['resnames'] = ['RA'] * ma['nres']
        for a in ma['atoms']:
            a['resname'] = 'RA'
        mb = systems.gen_moltype(rng, 'MB', nres=rng.randint(2, 4), multi_atom=rng.random() < 0.5, shape='path')
        mb['resnames'] = ['RB'] * mb['nres']
        for a in mb['atoms']:
            a['resname'] = 'RB'
        sol = systems.gen_moltype(rng, 'SOL', nres=1, multi_atom=rng.random() < 0.5, shape='path')
        sol['resnames'] = ['W']
        for a in sol['atoms']:
            a['resname'] = 'W'
        molecules = rng.choice([[('MA', 1), ('SOL', 2), ('MB', 1), ('SOL', 1), ('MB', 1)],
                                [('SOL', 1), ('MB', 1), ('SOL', 2), ('MA', 1)],
                                [('MB', 1), ('SOL', 1), ('MA', 1), ('SOL', 2), ('MB', 1), ('SOL', 1)]])
        nres_total = sum({'MA': ma, 'MB': mb, 'SOL': sol}[n]['nres'] * k for n, k in molecules)
        cases.append({'kind': 'ignore', 'moltypes': [ma, mb, sol], 'molecules': molecules, 'seed': rng.randrange(10 ** 6), 'L': 7.0, 'skip': ['RB'],
                      'ignore': ['SOL'], 'fail': {}, 'resolution': 'mol', 'nres_supplied': nres_total})
    # always exercised: one chain whose leading residues (the walk root included) are supplied, the rest built after
    # one or two abandoned attempts, at both resolutions
    directed = []
    for resolution in ('mol', 'meta_mol'):
        for nfail, maxiter in ((1, None), (2, None), (3, 2), (2, 1)):
            # maxiter below the number of failed attempts: the molecule is given up once and started over
            mt = systems.gen_moltype(rng, 'MA', nres=rng.randint(4, 6), multi_atom=True, shape='path')
            c = {'kind': 'fail', 'moltypes': [mt], 'molecules': [('MA', 1)], 'seed': rng.randrange(10 ** 6), 'L': 6.0, 'skip': [],
                 'ignore': [], 'fail': {'first_attempts': nfail}, 'resolution': resolution, 'nres_supplied': rng.randint(1, mt['nres'] - 2)}
            if maxiter:
                c['maxiter'] = maxiter
            directed.append(c)
    # always exercised: -res names a residue, and a molecule type that holds other residues too carries the same name
    for _ in range(ctx.n(2, 8)):
        n = rng.randint(3, 5)
        ra = systems.gen_moltype(rng, 'RA', nres=n, multi_atom=rng.random() < 0.5, shape='path', resnames=['RB' if i % 2 == 0 else 'RA' for i in range(n)])
        mb = systems.gen_moltype(rng, 'MB', nres=rng.randint(1, 3), multi_atom=rng.random() < 0.5, shape='path', resnames=['RB'] * 3)
        directed.append({'kind': 'rebuild', 'moltypes': [ra, mb], 'molecules': [('RA', 1), ('MB', rng.randint(1, 2))], 'seed': rng.randrange(10 ** 6),
                         'L': 6.0, 'skip': ['RA'], 'ignore': [], 'fail': {}, 'resolution': rng.choice(['mol', 'meta_mol']),
                         'nres_supplied': n + 6})
    rng.shuffle(directed)
    cases[0:0] = directed
    for i in range(ctx.n(30, 300)):
        try:
            cases.append(plan_run(rng, kinds[i % len(kinds)]))
        except ValueError:
            continue
    if ctx.broken:
        cases = cases[:18]
    timeouts = 0
    for case in cases:
        if timeouts >= 2:
            ctx.note('two runs did not finish within the time limit; remaining runs skipped')
            break
        try:
            res, rows, plan = run_case(case, timeout=30 if ctx.broken else 90)
        except ValueError:
            continue
        if not res['ok'] and res['exc_type'] == 'RunTimeout':
            timeouts += 1
        kinds_present = {p['kind'] for p in plan}
        ctx.case(json.dumps([systems.top_text(case['moltypes'], case['molecules']), case['kind'], case['seed'], case['nres_supplied'], case['skip'], case['ignore']]),
                 nontrivial=res['ok'] and 'build' in kinds_present and len(kinds_present) >= 2,
                 sample={'kind': case['kind'], 'molecules': case['molecules'], 'supplied_residues': case['nres_supplied'], 'skip': case['skip'],
                         'ignore': case['ignore'], 'fail': case['fail'], 'attempts': res['attempts'], 'ok': res['ok']})
        ctx.feature('run_' + case['kind'])
        if res.get('rewinds'):
            ctx.feature('runs_with_a_rewind_over_supplied_residues' if case['kind'] == 'rewind' else 'runs_with_a_rewind')
        ctx.feature('runs_ok' if res['ok'] else 'runs_failed')
        if not res['ok']:
            ctx.note(f"run ({case['kind']}) ended with {res['exc_type']}: {str(res.get('exception'))[:120]}")
        for b in judge(case, res, plan)[:2]:
            ctx.violation('spec', f"C04 fails on the implementation: {b}", {'case': case, 'failure': b})


def slot_cases(ctx):
    """NonBondEngine.from_topology on a filtered molecule list: slot keys must be topology indices"""
    from polyply.src.topology import Topology
    from polyply.src.nonbond_engine import NonBondEngine
    rng = ctx.rng
    exprs, keep = [], []
    with systems.Workdir() as wd:
        for _ in range(ctx.n(25, 250)):
            moltypes, molecules = gen_system(rng, multi=False)
            inst = [name for name, n in molecules for _ in range(n)]
            ign = rng.sample(sorted(set(inst)), rng.randint(0, len(set(inst)) - 1)) if len(set(inst)) > 1 else []
            with open(f'{wd}/s.top', 'w') as fh:
                fh.write(systems.top_text(moltypes, molecules))
            topology = Topology.from_gmx_topfile(f'{wd}/s.top', name='x')
            topology.preprocess()
            topology.volumes = {rn: 0.4 for mt in moltypes for rn in mt['resnames']}
            sel = [m for m in topology.molecules if m.mol_name not in ign]
            try:
                eng = NonBondEngine.from_topology(sel, topology, np.array([9.0, 9.0, 9.0]))
                impl = []
                for i, m in enumerate(topology.molecules):
                    has = [(i, n) in eng.nodes_to_gndx for n in m.nodes]
                    impl.append(m.mol_name if all(has) else None if not any(has) else 'partial')
                extra = sorted({k[0] for k in eng.nodes_to_gndx} - set(range(len(topology.molecules))))
            except Exception as exc:  # noqa
                impl, extra = f'{type(exc).__name__}: {exc}', []
            exprs.append(f"slot_case {lit(ign)} {lit(inst)}")
            keep.append((inst, ign, impl, extra, moltypes, molecules))
    try:
        out = core.coq_eval_cases(ctx, 'slots', PRELUDE, exprs, chunk=100)
    except core.CoqEvalError as exc:
        ctx.note(str(exc)[:600])
        ctx.broken.append('correspondence:engine slots vs model (evaluation failed)')
        return
    mism = 0
    for (inst, ign, impl, extra, moltypes, molecules), r in zip(keep, out):
        model = [None if x is None else x[1] for x in r]
        if model != impl or extra:
            mism += 1
            want = [None if n in ign else n for n in inst]
            if impl != want or extra:
                ctx.violation('spec', f"engine slots with -ign {ign} on molecules {inst}: {impl} (extra indices {extra}); every non-ignored "
                              f"molecule must be addressed by its topology index", {'slots': True, 'moltypes': moltypes, 'molecules': molecules, 'ignore': ign})
    ctx.extra['slots'] = {'cases': len(keep), 'mismatches': mism}
    if mism:
        ctx.broken.append('correspondence:NonBondEngine.from_topology slots vs model slots')


def search(ctx):
    if ctx.violations:
        return
    rng = ctx.rng
    for kind in ['ignore', 'fail', 'partial', 'centres', 'rebuild', 'full'] * 2:
        try:
            case = plan_run(rng, kind)
            res, rows, plan = run_case(case, timeout=40)
        except ValueError:
            continue
        for b in judge(case, res, plan)[:1]:
            ctx.violation('spec', f"C04 fails on the implementation: {b}", {'case': case, 'failure': b})
            return


def replay(ctx, data):
    print(json.dumps(data, indent=1, default=str)[:2500])
    if data.get('f30'):
        class C:
            violations = []

            def case(self, *a, **k):
                pass

            def feature(self, *a):
                pass

            def violation(self, kind, what, rep, finding=None):
                self.violations.append(what)
        c = C()
        noncontiguous_residue_case(c)
        print('replay:', c.violations or 'supplied coordinates kept')
        return 1 if c.violations else 0
    case = data.get('case')
    if not case:
        return 0
    case['molecules'] = [tuple(m) for m in case['molecules']]
    for mt in case['moltypes']:
        mt['bonds'] = [tuple(b) for b in mt['bonds']]
    res, rows, plan = run_case(case)
    bad = judge(case, res, plan)
    print('replay:', bad[:3] or 'statement satisfied')
    return 1 if bad else 0
