"""C15 -- one centred template and size per distinct residue; user values win.

Proof: Props/C15.v: bookkeeping theorems over model/Templates.v (hash keyed grouping, user
templates / sizes kept for every generator oracle), the virtual-site constructions translated
from virtual_site_builder.py equal the GROMACS formulas and move with the residue, templates
are centred, a template that is not failed meets its targets (penalties and constants
translated from minimizer.py), sizes are positive; virtual_sitesn function 2 is refuted (F9).
Correspondence (tie D/T): translated kernels (PrimFloat) vs the real functions; the real
GenerateTemplates (+ load_build_files) on generated residue definitions with every
virtual-site kind, equal residue names with different content and build files with
[ template ] / [ volumes ]: grouping against the model, every template re-judged
(centred, one position per atom, virtual sites at the GROMACS position, verdict, size)."""
import contextlib
import io
import json
import logging
import math
import pathlib

import numpy as np

from harness import core, systems
from harness.coqio import lit, flit

META = {
    'level': 'proof',
    'technique': 'Coq proofs over the template bookkeeping model and over virtual-site / penalty kernels regenerated from source; differential correspondence and re-judging of every template produced by the real GenerateTemplates and build-file reader',
    'gen_deps': ['Gen_vsites', 'Gen_minimizer', 'Gen_minimizer_consts'],
    'eval_deps': ['theories/model/Templates.vo', 'theories/gen/Gen_vsites_F.vo'],
    'level_text': ("Theorems in Coq (Props/C15.v): residues whose graphs hash equally share template key, template and size, different "
                   "hashes are separated, every residue gets a key and every key a template; templates and sizes given by the user "
                   "are kept unchanged for every generator / volume oracle; the centred coordinate list sums to zero; the translated "
                   "constructions vs3fd, vs3fad, vs3out, vs4fdn equal the GROMACS manual formulas (under non-degeneracy) and move "
                   "with the residue; the weighted averages used for virtual_sites2/3 are the GROMACS ones; virtual_sitesn function 2 "
                   "(centre of mass) is refuted (F9); with the translated penalties and constants a template that is not failed has "
                   "every bond/constraint within 0.05 nm and every angle/improper within 5 degrees; the radius of gyration of atoms "
                   "at different places is positive. The hash is networkx' WL hash: its invariance under isomorphism and collision "
                   "freeness are contracts exercised by the runs, not proved."),
    'level_note': ("Trusted: Coq kernel, translator, harness. Axioms: the standard real-number axioms (ClassicalDedekindReals.sig_not_dec, "
                   "sig_forall_dec, functional_extensionality_dep, Classical_Prop.classic) for the kernel theorems. scipy's optimiser "
                   "and the Kamada-Kawai start are oracles."),
    'rule': ("cases = topologies of 1-3 molecule types built from 2-4 generated residue definitions (2-5 atoms: chain / ring / "
             "branched; optional angles; one virtual site of a random kind incl. parameters; equal residue names with different "
             "atom names) x optional build file ([ template ] for one residue, [ volumes ] for another; split over two files); "
             "non-trivial = >= 2 distinct templates, a virtual site or a user value; distinct by (topology text, build files)"
             "; directed / added families (waves 10-12): a periodic dihedral before the harmonic one on the same atoms (improper targets judged)"),
}

PRELUDE = """From Coq Require Import List Bool Arith ZArith PrimFloat.
From PV Require Import Templates FNum Gen_vsites_F.
Import ListNotations.
Definition grp (user : list nat) (hashes : list nat) :=
  let r := group (fun x : nat => x) Nat.eqb (map (fun h => (h, None)) user) hashes in
  (map fst (fst r), snd r).
"""

VS_KINDS = ['vs2', 'vs3', 'vs3fd', 'vs3fad', 'vs3out', 'vs4fdn', 'vsn']


def gen_residue(rng, resname, tag, nested=False):
    """a residue definition: atoms (name, atype), bonds (i, j, length), angles, one optional virtual site"""
    n = rng.randint(4, 5) if nested else rng.randint(2, 5)
    atoms = [{'name': f'{tag}{k}', 'atype': rng.choice(sorted(systems.ATOMTYPES)), 'mass': 72.0} for k in range(n)]
    shape = rng.choice(['chain', 'branched', 'ring'] if n >= 3 else ['chain'])
    bonds = []
    for k in range(1, n):
        parent = k - 1 if shape != 'branched' else rng.randrange(k)
        bonds.append((parent, k, round(rng.uniform(0.25, 0.45), 3)))
    if shape == 'ring':
        bonds.append((0, n - 1, round(rng.uniform(0.3, 0.45), 3)))
    angles = []
    if shape == 'chain' and n >= 3 and rng.random() < 0.6:
        for k in range(n - 2):
            angles.append((k, k + 1, k + 2, rng.choice([100.0, 120.0, 140.0])))
    impropers = []
    if n >= 4 and (nested or rng.random() < 0.5):
        impropers.append(tuple(rng.sample(range(n), 4)) + (rng.choice([0.0, 25.0, -25.0]),))
    vs = None
    if nested or rng.random() < 0.6:
        kind = rng.choice(['vs2', 'vsn'] if nested else [k for k in VS_KINDS if {'vs2': 2, 'vs3': 3, 'vs3fd': 3, 'vs3fad': 3, 'vs3out': 3, 'vs4fdn': 4, 'vsn': 2}[k] <= n])
        need = {'vs2': 2, 'vs3': 3, 'vs3fd': 3, 'vs3fad': 3, 'vs3out': 3, 'vs4fdn': 4, 'vsn': rng.randint(2, n)}[kind]
        defining = rng.sample(range(n), need)
        params = {'vs2': [round(rng.uniform(0.1, 0.9), 3)], 'vs3': [round(rng.uniform(0.1, 0.5), 3), round(rng.uniform(0.1, 0.4), 3)],
                  'vs3fd': [round(rng.uniform(0.2, 0.8), 3), round(rng.uniform(0.1, 0.3), 3)],
                  'vs3fad': [rng.choice([100.0, 120.0, 135.0]), round(rng.uniform(0.1, 0.3), 3)],
                  'vs3out': [round(rng.uniform(0.1, 0.5), 3), round(rng.uniform(0.1, 0.5), 3), round(rng.uniform(-2.0, 2.0), 3)],
                  'vs4fdn': [round(rng.uniform(0.5, 1.5), 3), round(rng.uniform(0.5, 1.5), 3), round(rng.uniform(0.05, 0.3), 3)],
                  'vsn': []}[kind]
        atoms.append({'name': f'{tag}V', 'atype': rng.choice(sorted(systems.ATOMTYPES)), 'mass': 0.0})
        vs = {'kind': kind, 'site': n, 'atoms': defining, 'params': params, 'func': {'vs2': 1, 'vs3': 1, 'vs3fd': 2, 'vs3fad': 3, 'vs3out': 4, 'vs4fdn': 2, 'vsn': 1}[kind]}
    vs2nd = None
    if vs and vs['kind'] in ('vs2', 'vsn') and n >= 2 and (nested or rng.random() < 0.4):
        # a site built on another site of an earlier kind (GROMACS and polyply construct kind by kind: n, 2, 3, 4);
        # its section is written BEFORE the section of the site it depends on
        kind = rng.choice(['vs3', 'vs3out', 'vs3fd'])
        defining = [vs['site']] + rng.sample(range(n), 2)
        rng.shuffle(defining)
        params = {'vs3': [round(rng.uniform(0.1, 0.5), 3), round(rng.uniform(0.1, 0.4), 3)],
                  'vs3fd': [round(rng.uniform(0.2, 0.8), 3), round(rng.uniform(0.1, 0.3), 3)],
                  'vs3out': [round(rng.uniform(0.1, 0.5), 3), round(rng.uniform(0.1, 0.5), 3), round(rng.uniform(-2.0, 2.0), 3)]}[kind]
        atoms.append({'name': f'{tag}W', 'atype': rng.choice(sorted(systems.ATOMTYPES)), 'mass': 0.0})
        vs2nd = {'kind': kind, 'site': n + 1, 'atoms': defining, 'params': params, 'func': {'vs3': 1, 'vs3fd': 2, 'vs3out': 4}[kind]}
    # some of the distance targets are written as [ constraints ] (same graph edges, same tolerance)
    as_constraints = sorted(bi for bi in range(len(bonds)) if rng.random() < 0.25) if rng.random() < 0.4 else []
    return {'resname': resname, 'atoms': atoms, 'bonds': bonds, 'angles': angles, 'impropers': impropers, 'vs': vs, 'vs2nd': vs2nd,
            'as_constraints': as_constraints, 'proper_first': rng.choice([None, None, 'same', 'reversed']) if impropers else None}


def frustrated_case(rng, constraints):
    """a triangle whose target lengths violate the triangle inequality (written as bonds or as constraints): it cannot be
    built within the tolerance, so it has to be reported"""
    short = round(rng.uniform(0.25, 0.32), 3)
    res = {'resname': 'RF', 'atoms': [{'name': f'F{k}', 'atype': 'P1', 'mass': 72.0} for k in range(3)],
           'bonds': [(0, 1, short), (1, 2, short), (0, 2, round(2 * short + rng.uniform(0.18, 0.3), 3))], 'angles': [], 'impropers': [],
           'vs': None, 'vs2nd': None, 'as_constraints': [0, 1, 2] if constraints else []}
    return {'defs': [res, gen_residue(rng, 'RA', 'A')], 'moltypes': [('MA', [0, 1])], 'build': None}


def moltype_text(name, residues):
    """residues: list of residue definitions in chain order; consecutive residues bonded first atom to first atom"""
    out = ['[ moleculetype ]', f'{name} 1', '[ atoms ]']
    first, idx = [], 1
    bonds, angles, vs_lines, dihedrals, constraints = [], [], {}, [], []
    for r, res in enumerate(residues):
        first.append(idx)
        for k, a in enumerate(res['atoms']):
            out.append(f"{idx + k} {a['atype']} {r + 1} {res['resname']} {a['name']} {idx + k} 0.0 {a['mass']}")
        for bi, (i, j, l) in enumerate(res['bonds']):
            if bi in res.get('as_constraints', ()):
                constraints.append(f"{idx + i} {idx + j} 1 {l}")
            else:
                bonds.append(f"{idx + i} {idx + j} 1 {l} 5000")
        for i, j, k, th in res['angles']:
            angles.append(f"{idx + i} {idx + j} {idx + k} 2 {th} 50")
        for i, j, k, l, th in res.get('impropers', []):
            if res.get('proper_first'):
                # a periodic term on the same four atoms listed before the harmonic one (also written in the other direction):
                # both belong to the residue, the harmonic one sets a target of the template
                quad = (idx + i, idx + j, idx + k, idx + l)
                if res['proper_first'] == 'reversed':
                    quad = quad[::-1]
                dihedrals.append(' '.join(str(x) for x in quad) + ' 1 180.0 2.0 2')
            dihedrals.append(f"{idx + i} {idx + j} {idx + k} {idx + l} 2 {th} 50")
        for vs in (res.get('vs2nd'), res['vs']):          # the dependent site's section first
            if not vs:
                continue
            site = idx + vs['site']
            ats = ' '.join(str(idx + a) for a in vs['atoms'])
            ps = ' '.join(str(p) for p in vs['params'])
            sec = {'vs2': 'virtual_sites2', 'vs3': 'virtual_sites3', 'vs3fd': 'virtual_sites3', 'vs3fad': 'virtual_sites3',
                   'vs3out': 'virtual_sites3', 'vs4fdn': 'virtual_sites4', 'vsn': 'virtual_sitesn'}[vs['kind']]
            line = f"{site} {vs['func']} {ats}" if vs['kind'] == 'vsn' else f"{site} {ats} {vs['func']} {ps}"
            vs_lines.setdefault(sec, []).append(line)
        idx += len(res['atoms'])
    for r in range(len(residues) - 1):
        bonds.append(f"{first[r]} {first[r + 1]} 1 0.4 5000")
    out += ['[ bonds ]'] + bonds
    if constraints:
        out += ['[ constraints ]'] + constraints
    if angles:
        out += ['[ angles ]'] + angles
    if dihedrals:
        out += ['[ dihedrals ]'] + dihedrals
    for sec, lines in vs_lines.items():
        out += [f'[ {sec} ]'] + lines
    return '\n'.join(out) + '\n'


def top_text(moltypes):
    out = ['[ defaults ]', '1 2 no 1.0 1.0', '[ atomtypes ]']
    for t, (sig, mass) in sorted(systems.ATOMTYPES.items()):
        out.append(f"{t} {mass} 0.0 A {sig} 2.0")
    out.append('')
    for name, residues in moltypes:
        out.append(moltype_text(name, residues))
    out += ['[ system ]', 'generated', '[ molecules ]'] + [f'{name} 1' for name, _ in moltypes]
    return '\n'.join(out) + '\n'


def nested_case(rng):
    """one residue with an improper and a virtual site built on another virtual site"""
    return {'defs': [gen_residue(rng, 'RN', 'N', nested=True)], 'moltypes': [('MA', [0, 0])], 'build': None}


def gen_case(rng):
    ndef = rng.randint(2, 4)
    defs = []
    for k in range(ndef):
        # equal residue names with different content: a second definition may reuse a name with other atom names
        resname = f'R{"ABCD"[k]}' if not (k > 0 and rng.random() < 0.25) else defs[-1]['resname']
        defs.append(gen_residue(rng, resname, 'abcdef'[k].upper() if rng.random() < 0.5 else 'XYZW'[k]))
    # same residue name and atom names, other bond graph (an isomer): must get its own template
    if rng.random() < 0.35:
        base = rng.choice(defs)
        nreal = len(base['atoms']) - (1 if base['vs'] else 0) - (1 if base.get('vs2nd') else 0)
        if nreal >= 3:
            perm = list(range(nreal))
            rng.shuffle(perm)
            iso = {'resname': base['resname'], 'atoms': [dict(a) for a in base['atoms'][:nreal]], 'angles': [], 'vs': None,
                   'bonds': [(min(perm[i], perm[j]), max(perm[i], perm[j]), l) for i, j, l in base['bonds']]}
            if not same_labelled_graph(iso, base):
                defs.append(iso)
                ndef += 1
    moltypes = []
    for m in range(rng.randint(1, 3)):
        moltypes.append((f'M{"ABC"[m]}', [rng.randrange(ndef) for _ in range(rng.randint(1, 4))]))
    build = None
    if rng.random() < 0.5:
        used = sorted({d for _, seq in moltypes for d in seq})
        cand = [d for d in used if len(defs[d]['atoms']) >= 2]
        tmpl = rng.choice(cand) if cand else None
        vol = rng.choice(used)
        if tmpl is not None and rng.random() < 0.4:
            vol = tmpl          # template and size for the same residue
        build = {'template': tmpl, 'volume': vol, 'value': round(rng.uniform(0.3, 0.9), 3), 'split': rng.random() < 0.5,
                 'coords': None}
        # the template of that residue given once more in a LATER build file (refined coordinates), without a size
        build['repeat'] = tmpl is not None and vol == tmpl and rng.random() < 0.6
        if tmpl is not None:
            build['coords'] = [[round(rng.uniform(-0.5, 0.5), 3) for _ in range(3)] for _ in defs[tmpl]['atoms']]
    return {'defs': defs, 'moltypes': moltypes, 'build': build}


def labelled_graph(res):
    import networkx as nx
    g = nx.Graph()
    for k, a in enumerate(res['atoms']):
        g.add_node(k, atomname=a['name'])
    g.add_edges_from((i, j) for i, j, _ in res['bonds'])
    return g


def same_labelled_graph(r1, r2):
    import networkx as nx
    return nx.is_isomorphic(labelled_graph(r1), labelled_graph(r2), node_match=lambda a, b: a['atomname'] == b['atomname'])


def vs_edges(res):
    """edges of the residue graph polyply hashes: bonds (and constraints) of the topology; virtual-site atoms are isolated nodes"""
    return sorted({tuple(sorted((i, j))) for i, j, _ in res['bonds']})


def build_files(case, wd):
    b = case['build']
    if not b:
        return []
    parts = []
    defs = case['defs']
    if b['template'] is not None:
        res = defs[b['template']]
        lines = ['[ template ]', f"resname {res['resname']}", '[ atoms ]']
        for a, c in zip(res['atoms'], b['coords']):
            lines.append(f"{a['name']} {a['atype']} {c[0]} {c[1]} {c[2]}")
        lines.append('[ bonds ]')
        for i, j in vs_edges(res):
            lines.append(f"{res['atoms'][i]['name']} {res['atoms'][j]['name']}")
        parts.append('\n'.join(lines) + '\n')
    parts.append(f"[ volumes ]\n{defs[b['volume']]['resname']} {b['value']}\n")
    paths = []
    if b.get('repeat') and len(parts) == 2:
        fp = pathlib.Path(wd) / 'b0.bld'
        fp.write_text(''.join(parts) if not b['split'] else parts[1] + parts[0])
        fp2 = pathlib.Path(wd) / 'b1.bld'
        fp2.write_text(parts[0])
        return [fp, fp2]
    if b['split'] and len(parts) == 2:
        for k, p in enumerate(parts):
            fp = pathlib.Path(wd) / f'b{k}.bld'
            fp.write_text(p)
            paths.append(fp)
    else:
        fp = pathlib.Path(wd) / 'b.bld'
        fp.write_text(''.join(parts))
        paths.append(fp)
    return paths


class Catch(logging.Handler):
    def __init__(self):
        super().__init__()
        self.msgs = []

    def emit(self, record):
        try:
            self.msgs.append(record.getMessage())
        except Exception:  # noqa
            self.msgs.append(str(record.msg))


def run_templates(case, wd, fail_optimisation=False):
    from polyply.src.topology import Topology
    from polyply.src.generate_templates import GenerateTemplates
    from polyply.src.load_library import load_build_files
    moltypes = [(name, [case['defs'][d] for d in seq]) for name, seq in case['moltypes']]
    tp = pathlib.Path(wd) / 's.top'
    tp.write_text(top_text(moltypes))
    handler = Catch()
    logger = logging.getLogger('polyply')
    logger.addHandler(handler)
    sink = io.StringIO()
    import polyply.src.generate_templates as gt
    real_opt = gt.optimize_geometry
    if fail_optimisation:
        def failing(block, coords, inter_types=(), **kw):
            ok, out = real_opt(block, coords, inter_types, **kw)
            return False, out                       # the optimiser's verdict is an oracle: here it never succeeds
        gt.optimize_geometry = failing
    try:
        with contextlib.redirect_stderr(sink), contextlib.redirect_stdout(sink):
            topology = Topology.from_gmx_topfile(tp, name='x')
            topology.preprocess()
            files = build_files(case, wd)
            load_build_files(topology, None, files)
            GenerateTemplates(topology=topology, max_opt=10, skip_filter=False).run_system(topology)
    except Exception as exc:  # noqa
        return {'error': f'{type(exc).__name__}: {exc}', 'log': handler.msgs}
    finally:
        logger.removeHandler(handler)
        gt.optimize_geometry = real_opt
    out = {'log': handler.msgs, 'volumes': dict(topology.volumes), 'residues': [], 'templates': {}}
    for mol in topology.molecules:
        for node in mol.nodes:
            d = mol.nodes[node]
            out['residues'].append({'mol': mol.mol_name, 'resid': d['resid'], 'resname': d['resname'], 'template': d.get('template'),
                                    'atomnames': sorted(nx_names(d['graph']))})
        for h, t in mol.templates.items():
            out['templates'][h] = {k: [float(x) for x in v] for k, v in t.items()}
    return out


def nx_names(g):
    return [g.nodes[n]['atomname'] for n in g.nodes]


# ---- GROMACS formulas, independent of the model and of polyply
def gmx_site(vs, pos):
    p = [np.array(pos[a]) for a in vs['atoms']]
    k, par = vs['kind'], vs['params']
    if k == 'vs2':
        return (1 - par[0]) * p[0] + par[0] * p[1]
    if k == 'vs3':
        return (1 - par[0] - par[1]) * p[0] + par[0] * p[1] + par[1] * p[2]
    if k == 'vs3fd':
        v = (p[1] - p[0]) + par[0] * (p[2] - p[1])
        return p[0] + par[1] * v / np.linalg.norm(v)
    if k == 'vs3fad':
        rij, rjk = p[1] - p[0], p[2] - p[1]
        perp = rjk - rij * np.dot(rij, rjk) / np.dot(rij, rij)
        th = math.radians(par[0])
        return p[0] + par[1] * math.cos(th) * rij / np.linalg.norm(rij) + par[1] * math.sin(th) * perp / np.linalg.norm(perp)
    if k == 'vs3out':
        rij, rik = p[1] - p[0], p[2] - p[0]
        return p[0] + par[0] * rij + par[1] * rik + par[2] * np.cross(rij, rik)
    if k == 'vs4fdn':
        rij, rik, ril = p[1] - p[0], p[2] - p[0], p[3] - p[0]
        rm = np.cross(par[0] * rik - rij, par[1] * ril - rij)
        return p[0] + par[2] * rm / np.linalg.norm(rm)
    if k == 'vsn':
        if vs['func'] == 2:
            ms = np.array(vs['masses'])
            return sum(m * x for m, x in zip(ms, p)) / ms.sum()
        return sum(p) / len(p)
    raise ValueError(k)


def judge(case, out):
    """from the statement; returns list of (message, finding)"""
    bad = []
    if 'error' in out:
        return [(f"template generation fails on a valid topology: {out['error']}", None)]
    defs = case['defs']
    seq = [(name, d) for name, s in case['moltypes'] for d in s]
    res = out['residues']
    if len(res) != len(seq):
        return [(f"{len(res)} residues tagged, topology has {len(seq)}", None)]
    # grouping: same definition -> same key; different atom names -> different keys
    key_of = {}
    for (name, d), r in zip(seq, res):
        if r['template'] is None or r['template'] not in out['templates']:
            bad.append((f"residue {r['resname']}{r['resid']} of {name} has no template", None))
            continue
        if d in key_of and key_of[d] != r['template']:
            bad.append((f"two copies of the same residue definition ({defs[d]['resname']}) got different templates", None))
        key_of.setdefault(d, r['template'])
    for d1 in key_of:
        for d2 in key_of:
            if d1 < d2 and key_of[d1] == key_of[d2] and sorted(a['name'] for a in defs[d1]['atoms']) != sorted(a['name'] for a in defs[d2]['atoms']):
                bad.append((f"residues with different atom names ({defs[d1]['resname']}: {[a['name'] for a in defs[d1]['atoms']]} / "
                            f"{defs[d2]['resname']}: {[a['name'] for a in defs[d2]['atoms']]}) share one template", None))
            elif d1 < d2 and key_of[d1] == key_of[d2] and not same_labelled_graph(defs[d1], defs[d2]):
                bad.append((f"residues {defs[d1]['resname']} with bonds {[(i, j) for i, j, _ in defs[d1]['bonds']]} and {defs[d2]['resname']} with bonds "
                            f"{[(i, j) for i, j, _ in defs[d2]['bonds']]} over the same atom names are not isomorphic but share one template", None))
    b = case['build']
    failed_blocks = any('Failed to optimize' in m for m in out['log'])
    for d, h in key_of.items():
        t = out['templates'][h]
        rd = defs[d]
        names = [a['name'] for a in rd['atoms']]
        if sorted(t) != sorted(names):
            bad.append((f"template of {rd['resname']} holds positions for {sorted(t)}, the residue has atoms {sorted(names)}", None))
            continue
        pts = np.array([t[n] for n in names])
        if not np.all(np.isfinite(pts)):
            bad.append((f"template of {rd['resname']} has a non-finite coordinate", None))
            continue
        cog = pts.mean(axis=0)
        if np.abs(cog).max() > 1e-9:
            bad.append((f"template of {rd['resname']} has centre of geometry {cog.tolist()}", None))
        user = b is not None and b['template'] == d
        if user:
            want = np.array(b['coords']) - np.array(b['coords']).mean(axis=0)
            if np.abs(pts - want).max() > 1e-9:
                bad.append((f"the template given in the build file for {rd['resname']} is not the one used "
                            f"(max deviation {np.abs(pts - want).max():.4f}, files {'split' if b['split'] else 'single'})", None))
        for vs in (rd['vs'], rd.get('vs2nd')):
            if not vs or user:
                continue
            site = np.array(t[names[vs['site']]])
            want = gmx_site(dict(vs, atoms=list(vs['atoms'])), {a: t[names[a]] for a in vs['atoms']})
            if np.abs(site - want).max() > 1e-6:
                finding = 'F9' if vs['kind'] == 'vsn' and vs['func'] == 2 else None
                bad.append((f"virtual site {names[vs['site']]} ({vs['kind']} func {vs['func']}) of {rd['resname']} sits at {site.round(5).tolist()}, "
                            f"GROMACS constructs it at {np.array(want).round(5).tolist()} from its defining atoms", finding))
        if not user and not failed_blocks:
            for i, j, l in rd['bonds']:
                dist = float(np.linalg.norm(pts[i] - pts[j]))
                if abs(dist - l) > 0.05 + 1e-9:
                    bad.append((f"template of {rd['resname']} reported as optimised: bond {names[i]}-{names[j]} is {dist:.4f}, target {l}", None))
                    break
            for i, j, k, th in rd['angles']:
                v1, v2 = pts[i] - pts[j], pts[k] - pts[j]
                ang = math.degrees(math.acos(max(-1, min(1, float(np.dot(v1, v2) / np.linalg.norm(v1) / np.linalg.norm(v2))))))
                if abs(ang - th) > 5 + 1e-6:
                    bad.append((f"template of {rd['resname']} reported as optimised: angle at {names[j]} is {ang:.2f}, target {th}", None))
                    break
            for i, j, k, l, th in rd.get('impropers', []):
                # the dihedral angle i-j-k-l (IUPAC / GROMACS sign convention), compared modulo 360 degrees
                b1, b2, b3 = pts[j] - pts[i], pts[k] - pts[j], pts[l] - pts[k]
                n1, n2 = np.cross(b1, b2), np.cross(b2, b3)
                if np.linalg.norm(n1) < 1e-9 or np.linalg.norm(n2) < 1e-9:
                    continue
                phi = math.degrees(math.atan2(float(np.dot(np.cross(n1, n2), b2 / np.linalg.norm(b2))), float(np.dot(n1, n2))))
                dev = abs((phi - th + 180.0) % 360.0 - 180.0)
                if dev > 5 + 1e-6:
                    bad.append((f"template of {rd['resname']} reported as optimised: improper dihedral {names[i]}-{names[j]}-{names[k]}-{names[l]} is "
                                f"{phi:.2f}, target {th}", None))
                    break
        vol = out['volumes'].get(h)
        if vol is None or not math.isfinite(vol) or vol <= 0:
            bad.append((f"size of {rd['resname']} is {vol}", None))
        elif b is not None and b['volume'] == d and abs(vol - b['value']) > 1e-12:
            shadowed = (b['template'] is not None and b['template'] != d and not b['split']
                        and defs[b['template']]['resname'] == rd['resname'])
            bad.append((f"the size {b['value']} given in the build file for {rd['resname']} is not the one used ({vol})",
                        'F23' if shadowed else None))
    seen, res_out = set(), []
    for msg, f in bad:
        if (f or msg) not in seen:
            seen.add(f or msg)
            res_out.append((msg, f))
    return res_out


def validate_kernels(ctx, n):
    """translated virtual-site constructions (PrimFloat) vs the functions of virtual_site_builder"""
    import polyply.src.virtual_site_builder as vb
    from vermouth.molecule import Interaction
    rng = ctx.rng
    exprs, impl = [], []
    for _ in range(n):
        p = [[rng.uniform(-1, 1) for _ in range(3)] for _ in range(4)]
        a, b, c = rng.uniform(0.1, 0.9), rng.uniform(0.1, 0.9), rng.uniform(-1, 1)
        th = rng.uniform(60, 150)
        pos = {k: np.array(p[k]) for k in range(4)}

        def v(x):
            return f"({flit(x[0])}, {flit(x[1])}, {flit(x[2])})"
        exprs.append(f"[vs3fd {v(p[0])} {v(p[1])} {v(p[2])} {flit(a)} {flit(b)}; "
                     f"vs3fad {v(p[0])} {v(p[1])} {v(p[2])} {flit(b)} {flit(math.cos(math.radians(th)))} {flit(math.sin(math.radians(th)))}; "
                     f"vs3out {v(p[0])} {v(p[1])} {v(p[2])} {flit(a)} {flit(b)} {flit(c)}; "
                     f"vs4fdn {v(p[0])} {v(p[1])} {v(p[2])} {v(p[3])} {flit(a)} {flit(b)} {flit(c)}]")
        impl.append([vb.vs3fd(Interaction(atoms=['s', 0, 1, 2], parameters=['2', a, b], meta={}), pos),
                     vb.vs3fad(Interaction(atoms=['s', 0, 1, 2], parameters=['3', th, b], meta={}), pos),
                     vb.vs3out(Interaction(atoms=['s', 0, 1, 2], parameters=['4', a, b, c], meta={}), pos),
                     vb.vs4fdn(Interaction(atoms=['s', 0, 1, 2, 3], parameters=['2', a, b, c], meta={}), pos)])
    res = core.coq_eval_cases(ctx, 'vsk', PRELUDE, exprs, chunk=100)
    mism = 0
    for r, im in zip(res, impl):
        for mv, iv in zip(r, im):
            if any(not core.close(float(x), float(y), rel=1e-9, abs_=1e-9) for x, y in zip(mv, iv)):
                mism += 1
    ctx.extra['kernel_validation'] = {'cases': len(exprs), 'mismatches': mism}
    if mism:
        ctx.note(f"translated virtual-site kernels disagree with the implementation on {mism} evaluations")
        ctx.broken.append('correspondence:translator-validation virtual sites')


F9_CASE = {'defs': [{'resname': 'RA', 'atoms': [{'name': 'A0', 'atype': 'P1', 'mass': 72.0}, {'name': 'A1', 'atype': 'P2', 'mass': 12.0},
                                                 {'name': 'AV', 'atype': 'P1', 'mass': 0.0}],
                     'bonds': [(0, 1, 0.4)], 'angles': [],
                     'vs': {'kind': 'vsn', 'site': 2, 'atoms': [0, 1], 'params': [], 'func': 2, 'masses': [72.0, 12.0]}}],
           'moltypes': [('MA', [0])], 'build': None}


F23_CASE = {'defs': [{'resname': 'RA', 'atoms': [{'name': 'X0', 'atype': 'P1', 'mass': 72.0}, {'name': 'X1', 'atype': 'P2', 'mass': 72.0}],
                      'bonds': [(0, 1, 0.35)], 'angles': [], 'vs': None},
                     {'resname': 'RA', 'atoms': [{'name': 'Y0', 'atype': 'P1', 'mass': 72.0}, {'name': 'Y1', 'atype': 'P2', 'mass': 72.0},
                                                 {'name': 'Y2', 'atype': 'P2', 'mass': 72.0}],
                      'bonds': [(0, 1, 0.35), (1, 2, 0.3)], 'angles': [], 'vs': None}],
            'moltypes': [('MA', [0, 1])],
            'build': {'template': 0, 'volume': 1, 'value': 0.527, 'split': False, 'coords': [[0.0, 0.0, 0.0], [0.3, 0.1, 0.0]]}}


def run(ctx):
    ctx.correspondences += ['translated virtual-site constructions (PrimFloat) vs virtual_site_builder functions (1e-9)',
                            'template keys of the real grouping vs model group on the hash sequence',
                            'every template of GenerateTemplates / load_build_files re-judged: centred, atoms, virtual sites (GROMACS formulas), verdict, size, user values']
    try:
        validate_kernels(ctx, ctx.n(150, 1500))
    except core.CoqEvalError as exc:
        ctx.note(str(exc)[:600])
        ctx.broken.append('correspondence:translator-validation (evaluation failed)')
    rng = ctx.rng
    cases = [F9_CASE, F23_CASE] + [c for _, c in core.corpus_cases('C15')] + [nested_case(rng) for _ in range(ctx.n(10, 80))] + \
        [gen_case(rng) for _ in range(ctx.n(40, 400))] + [frustrated_case(rng, constraints=k % 2 == 0) for k in range(ctx.n(4, 20))]
    exprs, keep = [], []
    with systems.Workdir() as wd:
        for case in cases:
            out = run_templates(case, wd)
            fp = json.dumps(case, sort_keys=True, default=str)
            ntempl = len(out.get('templates', {}))
            has_vs = any(case['defs'][d]['vs'] for _, s in case['moltypes'] for d in s)
            ctx.case(fp, nontrivial=ntempl >= 2 or has_vs or case['build'] is not None,
                     sample={'moltypes': case['moltypes'], 'residues': [(d['resname'], len(d['atoms']), d['vs'] and d['vs']['kind']) for d in case['defs']],
                             'build': case['build'] and {k: case['build'][k] for k in ('template', 'volume', 'value', 'split')}, 'templates': ntempl})
            for d in {d for _, s in case['moltypes'] for d in s}:
                if case['defs'][d]['vs']:
                    ctx.feature('vs_' + case['defs'][d]['vs']['kind'])
                if case['defs'][d].get('vs2nd'):
                    ctx.feature('vs_nested_' + case['defs'][d]['vs2nd']['kind'])
            if case['build']:
                ctx.feature('build_file_split' if case['build']['split'] else 'build_file')
                if case['build'].get('repeat'):
                    ctx.feature('template_repeated_in_a_later_build_file')
            if 'error' in out:
                ctx.feature('runs_failed')
            else:
                ctx.feature('runs_ok')
                if any('Failed to optimize' in m for m in out['log']):
                    ctx.feature('optimisation_failed_reported')
            if any(d.get('as_constraints') for d in case['defs']):
                ctx.feature('residue_with_constraints')
            if case['defs'][0]['resname'] == 'RF':
                ctx.feature('frustrated_' + ('constraints' if case['defs'][0]['as_constraints'] else 'bonds'))
            for msg, finding in judge(case, out)[:3]:
                ctx.violation('spec', f"C15 fails on the implementation: {msg}", {'case': case, 'failure': msg}, finding=finding)
            if 'error' not in out:
                hashes = [r['template'] for r in out['residues']]
                idx = {}
                for h in list(out['templates']) + hashes:
                    idx.setdefault(h, len(idx))
                exprs.append(f"grp [] {lit([idx[h] for h in hashes], num='nat')}")
                keep.append((case, hashes, idx))
    # an optimisation that never succeeds is reported (warning) and the unoptimised template is used: no crash,
    # and no template passes as optimised
    with systems.Workdir() as wd:
        for case in [gen_case(rng) for _ in range(ctx.n(3, 20))]:
            case['build'] = None
            out = run_templates(case, wd, fail_optimisation=True)
            ctx.case(('failopt', json.dumps(case, sort_keys=True, default=str)), nontrivial=True)
            ctx.feature('forced_optimisation_failure')
            if 'error' in out:
                ctx.violation('spec', f"template generation crashes when the optimisation does not succeed: {out['error']}", {'case': case, 'fail_optimisation': True})
            elif not any('Failed to optimize' in m for m in out['log']):
                ctx.violation('spec', "a template whose optimisation never succeeded is not reported as unoptimised", {'case': case, 'fail_optimisation': True})
            else:
                for msg, finding in judge(case, out)[:1]:
                    ctx.violation('spec', f"C15 fails on the implementation: {msg}", {'case': case, 'fail_optimisation': True}, finding=finding)
    try:
        res = core.coq_eval_cases(ctx, 'grp', PRELUDE, exprs, chunk=100)
    except core.CoqEvalError as exc:
        ctx.note(str(exc)[:600])
        ctx.broken.append('correspondence:grouping vs model (evaluation failed)')
        return
    mism = 0
    for (case, hashes, idx), r in zip(keep, res):
        keys, tags = r
        if list(tags) != [idx[h] for h in hashes] or sorted(set(keys)) != sorted(set(idx[h] for h in hashes)):
            mism += 1
    ctx.extra['grouping'] = {'cases': len(keep), 'mismatches': mism}
    if mism:
        ctx.broken.append('correspondence:group_residues_by_hash vs model/Templates.v')


def search(ctx):
    return


def replay(ctx, data):
    print(json.dumps(data, indent=1, default=str)[:2500])
    case = data.get('case')
    if not case:
        return 0
    for d in case['defs']:
        d['bonds'] = [tuple(b) for b in d['bonds']]
        d['angles'] = [tuple(a) for a in d['angles']]
        d['impropers'] = [tuple(a) for a in d.get('impropers', [])]
    case['moltypes'] = [(n, s) for n, s in case['moltypes']]
    with systems.Workdir() as wd:
        out = run_templates(case, wd, fail_optimisation=bool(data.get('fail_optimisation')))
    bad = judge(case, out)
    print('replay:', bad[:3] or 'statement satisfied')
    return 1 if bad else 0
