"""C10 -- every residue-graph edge is realised by a bond or reported as missing.

Proof: Props/C10.v over model/Missing.v (degree filter + edge lookup of find_connecting_edges):
a record is produced iff no atom-level edge joins the two residues, under the fragment-graph
invariant (validated on every implementation state the check produces).
Correspondence (tie D): generated force fields with and without applicable links x residue
graphs through the real MapToMolecule + ApplyLinks, then the real find_missing_edges vs the model
on the implementation's graphs; gen_params warnings (one per record); independent recount of
inter-residue atom edges; the connectivity gate of gen_coords on connected / disconnected
molecules (an atom bonded to nothing inside a connected residue is known finding F6)."""
import io
import json
import logging
import os
import pathlib

from harness import core, ffgen, systems
from harness.coqio import lit

META = {
    'level': 'proof',
    'technique': 'Coq proof that the degree-filter + edge-lookup of find_missing_edges is exact under the fragment-graph invariant; differential correspondence on generated force fields / residue graphs; gate probed on generated topologies',
    'gen_deps': [],
    'eval_deps': ['theories/model/Missing.vo'],
    'level_text': ("Theorem in Coq (Props/C10.v), for every molecule graph and residue pair whose fragment graphs satisfy the invariant "
                   "kept by add_blocks and by regrouping (fragment = the residue's atoms with only molecule edges between them): the "
                   "model of find_missing_edges yields a record for a residue-graph edge iff no atom-level edge joins the two "
                   "residues (the degree filter never drops an atom with an edge leaving its residue, by a counting argument on "
                   "neighbour sets); consequently every residue-graph edge is either realised by an exhibited bond or reported, never "
                   "both, and the records are a sub-sequence of the residue-graph edges in their order, at most one per edge, without "
                   "any cap on their number and additive over the edge list. Tied to the code by comparing the records of the real find_missing_edges with the model on the "
                   "implementation's own graphs for generated force fields with and without applicable links, by recounting "
                   "inter-residue edges independently, and by matching gen_params' warnings one to one with the records. The "
                   "connectivity gate of gen_coords is probed on generated topologies; it inspects the residue graph only (F6)."),
    'level_note': ("Trusted: Coq kernel, harness, networkx degree/has_edge (modelled via neighbour sets). No axioms. The invariant is a "
                   "hypothesis of the theorem and is checked on every implementation state used."),
    'rule': ("cases = generated force fields (0-4 links, some not applicable) x residue graphs of 2-7 residues (path/tree/ring); "
             "non-trivial = at least one residue edge with and one without an atom-level edge, or a link that applies; distinct by "
             "(force-field text, graph)"
             "; directed / added families (waves 10-12): multi-residue (from_itp) blocks with interleaved atoms"),
}

PRELUDE = """From PV Require Import Graph Missing.
Open Scope Z_scope.
"""


def extract(meta):
    mol_edges = sorted(tuple(sorted((int(a), int(b)))) for a, b in meta.molecule.edges)
    residues = []
    for n in meta.nodes:
        gph = meta.nodes[n]['graph']
        residues.append((int(n), sorted(int(a) for a in gph.nodes), sorted(tuple(sorted((int(a), int(b)))) for a, b in gph.edges)))
    res_edges = [(int(a), int(b)) for a, b in meta.edges]
    return mol_edges, residues, res_edges


def run(ctx):
    from polyply.src.graph_utils import find_missing_edges
    ctx.correspondences += ['find_missing_edges vs model/Missing.v on the implementation graphs',
                            'independent recount of inter-residue atom edges; fragment-graph invariant checked',
                            'gen_params warnings matched one to one with the records',
                            'connectivity gate of gen_coords on generated topologies']
    rng = ctx.rng
    cases = [(c['ff'], c['graph']) for _, c in core.corpus_cases('C10')]
    for _ in range(ctx.n(150, 1500)):
        ff = ffgen.gen_ff(rng, uniform_nrexcl=1)
        g = ffgen.gen_resgraph(rng, ff, nres=rng.randint(2, 7))
        if rng.random() < 0.4:
            g = ffgen.permute_graph(rng, g)
        cases.append((ff, g))
    exprs, keep = [], []
    for ff, g in cases:
        text = ffgen.render_ff(ff)
        out = ffgen.run_pipeline(text, g)
        if 'error' in out:
            ctx.violation('spec', f"the pipeline failed on a generated input: {out['error']}", {'ff': ff, 'graph': g})
            ctx.case(json.dumps([text, g], sort_keys=True), nontrivial=False)
            continue
        meta = out['meta']
        records = sorted((int(r['idxA']), int(r['idxB'])) for r in find_missing_edges(meta, meta.molecule))
        mol_edges, residues, res_edges = extract(meta)
        resid_of = {int(n): int(meta.nodes[n]['resid']) for n in meta.nodes}
        atoms_of = {k: set(nodes) for k, nodes, _ in residues}
        bad = []
        # invariant (hypothesis of the theorem)
        for k, nodes, edges in residues:
            if sorted(a['key'] for a in out['links']['atoms'] if a['resid'] == resid_of[k]) != nodes:
                bad.append(f"fragment graph of residue {resid_of[k]} holds atoms {nodes}")
            for e in edges:
                if e not in mol_edges:
                    bad.append(f"fragment graph of residue {resid_of[k]} has edge {e} that is not a molecule edge")
        # independent recount
        exp = []
        for a, b in res_edges:
            joined = any((u in atoms_of[a] and v in atoms_of[b]) or (u in atoms_of[b] and v in atoms_of[a]) for u, v in mol_edges)
            if not joined:
                exp.append((resid_of[a], resid_of[b]))
        if sorted(tuple(sorted(x)) for x in exp) != sorted(tuple(sorted(x)) for x in records):
            bad.append(f"missing-link records {records} but the residue pairs without any atom-level edge are {sorted(exp)}")
        for b in bad[:1]:
            ctx.violation('spec', f"C10 fails on the implementation: {b}", {'ff': ff, 'graph': g, 'failure': b})
        ctx.feature('records', len(records))
        ctx.feature('residue_edges', len(res_edges))
        ctx.case(json.dumps([text, g], sort_keys=True), nontrivial=0 < len(records) < len(res_edges) or (len(res_edges) > 0 and not records),
                 sample={'resnames': g['resnames'], 'records': records, 'residue_edges': len(res_edges)})
        rs = "[" + "; ".join(f"Build_residue {lit(k)} {lit(nodes)} {lit(edges)}" for k, nodes, edges in residues) + "]"
        exprs.append(f"missing {lit(mol_edges)} {rs} {lit(res_edges)}")
        keep.append((ff, g, sorted(tuple(sorted((resid_of[a], resid_of[b]))) for a, b in [])
                     , records, resid_of))
    try:
        res = core.coq_eval_cases(ctx, 'missing', PRELUDE, exprs, chunk=150)
    except core.CoqEvalError as exc:
        ctx.note(str(exc)[:800])
        ctx.broken.append('correspondence:find_missing_edges vs model (evaluation failed)')
        return
    mism = 0
    for (ff, g, _, records, resid_of), r in zip(keep, res):
        model = sorted(tuple(sorted((resid_of[a], resid_of[b]))) for a, b in r)
        if model != sorted(tuple(sorted(x)) for x in records):
            mism += 1
            if mism <= 3:
                ctx.note(f"correspondence: model {model} != impl {records}")
                ctx.extra.setdefault('disagreements', []).append({'ff': ff, 'graph': g})
    ctx.extra['correspondence'] = {'cases': len(keep), 'mismatches': mism}
    if mism:
        ctx.broken.append('correspondence:find_missing_edges vs model/Missing.v')
    warnings_case(ctx)
    interleaved_blocks(ctx, ctx.n(30, 300))
    removal_finding(ctx)
    gate(ctx)


def warnings_case(ctx):
    """gen_params emits one warning per record, naming both residues"""
    import polyply.src.gen_itp as gi
    rng = ctx.rng
    for k in range(ctx.n(12, 100)):
        if k < 2:
            # a long chain without any applicable link: many records in one run, each needs its own warning
            ff = ffgen.gen_ff(rng, nlinks=0, uniform_nrexcl=1)
            g = ffgen.gen_resgraph(rng, ff, nres=rng.randint(55, 130), shape='path')
        elif k % 3 == 2:
            # residues joined only by a bond that a by_atom_id link makes (ring closure / end group attached by atom number)
            ff = ffgen.gen_ff(rng, uniform_nrexcl=1, nlinks=rng.randint(0, 1))
            g = ffgen.gen_resgraph(rng, ff, nres=rng.randint(2, 5), shape='path')     # -seq gives a linear residue graph
            by = {b['name']: b for b in ff['blocks']}
            first, off = [], 1
            for n in g['resnames']:
                first.append(off)
                off += len(by[n]['atoms'])
            rows = []
            for a, b in g['edges']:
                if rng.random() < 0.6:
                    rows.append({'atoms': [first[a] + len(by[g['resnames'][a]]['atoms']) - 1, first[b]], 'params': ['1', '0.400', '3000.000']})
            if rows:
                ff['explicit_links'] = [{'bonds': rows}]
                ctx.feature('residues_joined_by_atom_id_link')
        else:
            ff = ffgen.gen_ff(rng, uniform_nrexcl=1)
            g = ffgen.gen_resgraph(rng, ff, nres=rng.randint(2, 5), shape='path')
        g['r0'] = 1
        text = ffgen.render_ff(ff)
        plain = ffgen.run_pipeline(text, g)
        if 'error' in plain:
            continue
        from polyply.src.graph_utils import find_missing_edges
        exp = sorted((int(r['idxA']), int(r['idxB'])) for r in find_missing_edges(plain['meta'], plain['meta'].molecule))
        msgs = []

        class H(logging.Handler):
            def emit(self, record):
                if record.levelno >= logging.WARNING:
                    msgs.append(record.getMessage())
        h = H()
        logger = logging.getLogger('polyply')
        logger.addHandler(h)
        with systems.Workdir() as wd:
            p = os.path.join(wd, 't.ff')
            with open(p, 'w') as fh:
                fh.write(text)
            seq = [f"{n}:1" for n in g['resnames']]
            sink = io.StringIO()
            import contextlib
            try:
                with contextlib.redirect_stderr(sink), contextlib.redirect_stdout(sink):
                    gi.gen_params(name='x', outpath=pathlib.Path(wd) / 'o.itp', inpath=[pathlib.Path(p)], lib=None, seq=seq)
            except Exception as exc:  # noqa
                ctx.violation('spec', f"gen_params failed on a generated input: {type(exc).__name__}: {exc}", {'ff': ff, 'graph': g, 'gen_params': True})
                continue
            finally:
                logger.removeHandler(h)
        got = [m for m in msgs if 'Missing a link' in m]
        ctx.case(('warnings', text, json.dumps(g)), nontrivial=bool(exp))
        names = []
        for a, b in exp:
            names.append(f"Missing a link between residue {a} {g['resnames'][a - 1]} and residue {b} {g['resnames'][b - 1]}.")
        if sorted(got) != sorted(names):
            ctx.violation('spec', f"gen_params warnings {got} do not match the missing-link records {names}",
                          {'ff': ff, 'graph': g, 'gen_params': True})
        # the statement, recounted on the finished molecule: a residue-graph edge is warned about exactly if no atom-level
        # edge joins the two residues
        resid_of = {a['key']: a['resid'] for a in plain['links']['atoms']}
        joined = {frozenset((resid_of[a], resid_of[b])) for a, b in plain['links']['edges'] if resid_of[a] != resid_of[b]}
        for a, b in g['edges']:
            ra, rb = sorted((g['r0'] + a, g['r0'] + b))
            warned = any(m.startswith(f"Missing a link between residue {ra} ") and f" and residue {rb} " in m for m in got) or \
                any(m.startswith(f"Missing a link between residue {rb} ") and f" and residue {ra} " in m for m in got)
            if warned == (frozenset((ra, rb)) in joined):
                ctx.violation('spec', f"residues {ra} and {rb} are connected in the residue graph: joined by an atom-level edge = "
                              f"{frozenset((ra, rb)) in joined}, reported as missing by gen_params = {warned} (exactly one must hold)",
                              {'ff': ff, 'graph': g, 'gen_params': True})
                break


def interleaved_blocks(ctx, n, extra=()):
    """residues that stem from a multi-residue block (from_itp) whose atoms are not listed residue by residue (backbone
    beads first, side-chain beads later): every residue-graph edge is realised by a bond or reported, from a recount on
    the finished molecule that does not use the fragment graphs"""
    import contextlib
    import networkx as nx
    from polyply import MetaMolecule, MapToMolecule, ApplyLinks
    from polyply.src.graph_utils import find_missing_edges
    rng = ctx.rng
    todo = list(extra)
    for _ in range(n):
        nres = rng.randint(2, 4)
        sizes = [rng.randint(1, 3) for _ in range(nres)]
        atoms = [(r, k) for r in range(nres) for k in range(sizes[r])]
        if rng.random() < 0.8:
            rng.shuffle(atoms)
        # the block ends on an atom of its highest residue (vermouth takes the residue offset from the last atom)
        last = rng.choice([a for a in atoms if a[0] == nres - 1])
        atoms.remove(last)
        atoms.append(last)
        index = {a: i + 1 for i, a in enumerate(atoms)}
        bonds = [(index[(r, k)], index[(r, k + 1)]) for r in range(nres) for k in range(sizes[r] - 1)]
        redges = []
        for r in range(1, nres):
            q = rng.randrange(r)
            if rng.random() < 0.85:       # otherwise the two residues are joined in the residue graph only
                bonds.append((index[(q, rng.randrange(sizes[q]))], index[(r, rng.randrange(sizes[r]))]))
            redges.append((q, r))
        todo.append({'atoms': [[r, k] for r, k in atoms], 'bonds': bonds, 'redges': redges, 'tail': rng.randint(0, 2), 'link': rng.random() < 0.7})
    for case in todo:
        atoms = [tuple(a) for a in case['atoms']]
        nres = 1 + max(r for r, _ in atoms)
        text = ['[ moleculetype ]', 'FRG 1', '[ atoms ]']
        for i, (r, k) in enumerate(atoms):
            text.append(f"{i + 1} P1 {r + 1} R{'ABCD'[r]} {'ABC'[k]}{r} {i + 1} 0.0 45")
        text.append('[ bonds ]')
        text += [f'{a} {b} 1 0.3 1000' for a, b in case['bonds']]
        text += ['[ moleculetype ]', 'PEO 1', '[ atoms ]', '1 P1 1 PEO EO 1 0.0 45']
        if case['link']:
            text += ['[ link ]', 'resname "PEO"', '[ bonds ]', 'EO +EO 1 0.33 7000']
        g = nx.Graph()
        for r in range(nres):
            g.add_node(r, resname=f"R{'ABCD'[r]}", resid=r + 1, from_itp='FRG')
        g.add_edges_from(tuple(e) for e in case['redges'])
        for t in range(case['tail']):
            g.add_node(nres + t, resname='PEO', resid=nres + t + 1)
            g.add_edge(nres + t - 1, nres + t)
        sink = io.StringIO()
        ctx.case(('interleaved', json.dumps(case, sort_keys=True)), nontrivial=atoms != sorted(atoms), sample={'block_atoms': case['atoms'][:8]})
        ctx.feature('multi_residue_block_atoms_interleaved' if [r for r, _ in atoms] != sorted(r for r, _ in atoms) else 'multi_residue_block_atoms_contiguous')
        try:
            with contextlib.redirect_stderr(sink), contextlib.redirect_stdout(sink):
                vff = ffgen.load_ff('\n'.join(text) + '\n')
                meta = MetaMolecule(g, force_field=vff, mol_name='m')
                MapToMolecule(vff).run_molecule(meta)
                ApplyLinks().run_molecule(meta)
                records = sorted(tuple(sorted((int(r['idxA']), int(r['idxB'])))) for r in find_missing_edges(meta, meta.molecule))
        except Exception as exc:  # noqa
            ctx.violation('spec', f"the pipeline failed on a multi-residue block with interleaved atoms: {type(exc).__name__}: {exc}",
                          {'interleaved': case})
            continue
        mol = meta.molecule
        joined = {tuple(sorted((int(mol.nodes[a]['resid']), int(mol.nodes[b]['resid'])))) for a, b in mol.edges
                  if mol.nodes[a]['resid'] != mol.nodes[b]['resid']}
        want = sorted(tuple(sorted((int(g.nodes[a]['resid']), int(g.nodes[b]['resid'])))) for a, b in g.edges
                      if tuple(sorted((int(g.nodes[a]['resid']), int(g.nodes[b]['resid'])))) not in joined)
        if records != want:
            ctx.violation('spec', f"C10 fails on the implementation: missing-link records {records}, but the residue-graph edges without any "
                          f"atom-level edge between the two residues are {want} (multi-residue block, atoms listed in the order {case['atoms']})",
                          {'interleaved': case})


def removal_finding(ctx):
    """(F44, repaired) after a link removed an atom the residue graph is regenerated: residue pairs that the requested graph
    connects and no bond joins are still reported as missing"""
    from polyply.src.graph_utils import find_missing_edges
    text = '\n'.join(['[ moleculetype ]', 'AAA 1', '[ atoms ]', '1 P1 1 AAA A1 1 0.0 72', '2 P1 1 AAA H 2 0.0 1', '[ bonds ]', 'A1 H 1 0.3 1000',
                      '[ moleculetype ]', 'BBB 1', '[ atoms ]', '1 P1 1 BBB B1 1 0.0 72',
                      '[ moleculetype ]', 'CCC 1', '[ atoms ]', '1 P1 1 CCC C1 1 0.0 72',
                      '[ link ]', 'resname "AAA|BBB"', '[ atoms ]', 'H {"replace": {"atomname": null}}', '[ bonds ]', 'A1 +B1 1 0.35 1250']) + '\n'
    g = {'nres': 3, 'shape': 'path', 'resnames': ['AAA', 'BBB', 'CCC'], 'edges': [(0, 1), (1, 2)], 'r0': 1, 'keys': [0, 1, 2],
         'order': [0, 1, 2], 'edge_order': [0, 1], 'flip': [False, False]}
    out = ffgen.run_pipeline(text, g)
    ctx.case(('finding', 'F44'), nontrivial=True)
    if 'error' in out:
        ctx.note(f"F44 probe: pipeline failed: {out['error'][:200]}")
        return
    records = sorted(tuple(sorted((int(r['idxA']), int(r['idxB'])))) for r in find_missing_edges(out['meta'], out['meta'].molecule))
    if (2, 3) not in records:
        ctx.violation('spec', f"residues 2 (BBB) and 3 (CCC) are connected in the requested residue graph and joined by no bond, but not reported as "
                      f"missing (records {records}): the AAA-BBB link removed an atom and the residue graph was rebuilt from the atom-level edges",
                      {'finding_probe': 'F44'})


def gate(ctx):
    """gen_coords refuses disconnected molecules; F6: only at the residue level"""
    import numpy as np
    rng = ctx.rng
    mt = systems.gen_moltype(rng, 'MA', nres=3, shape='path')
    cases = []
    # residues not connected: drop the bond between residue 2 and 3
    broken = dict(mt, bonds=[b for b in mt['bonds'] if b != (2, 3)])
    cases.append(('disconnected_residues', broken, True, None))
    # an atom bonded to nothing inside a connected residue
    mt2 = systems.gen_moltype(rng, 'MA', nres=3, shape='path')
    extra = dict(mt2['atoms'][1], idx=4, name='X', cgnr=4)
    loose = dict(mt2, atoms=mt2['atoms'] + [extra])
    cases.append(('unbonded_atom_in_residue', loose, True, 'F6'))
    cases.append(('connected', mt2, False, None))
    # generated: chains (also with residue numbering that restarts inside the molecule: merged chains) from which one
    # inter-residue bond is taken out, as the only or as the second molecule type; and connected controls
    for k in range(ctx.n(8, 40)):
        n = rng.randint(3, 6)
        g = systems.gen_moltype(rng, 'MA', nres=n, shape='path', multi_atom=rng.random() < 0.4, restart=rng.random() < 0.6)
        resof = {a['idx']: a['res'] for a in g['atoms']}
        inter = [b for b in g['bonds'] if resof[b[0]] != resof[b[1]]]
        if k % 4 == 3:
            cases.append((f'connected chain {k} (numbering restarts: {len({a["resid"] for a in g["atoms"]}) < n})', g, False, None))
        else:
            cut = rng.choice(inter)
            # where the numbering restarts: the bond that joins the two chains of a merged molecule
            resid_of_res = {a['res']: a['resid'] for a in g['atoms']}
            joins = [b for b in inter if resid_of_res[max(resof[b[0]], resof[b[1]])] == 1]
            if joins and rng.random() < 0.7:
                cut = joins[0]
            cases.append((f'chain {k} without the bond {cut} (numbering restarts: {len({a["resid"] for a in g["atoms"]}) < n})',
                          dict(g, bonds=[b for b in g['bonds'] if b != cut]), True, None))
    for kind, m, must_refuse, fid in cases:
        top = systems.top_text([m], [('MA', 1)])
        if kind.startswith('chain') and rng.random() < 0.4:
            other = systems.gen_moltype(rng, 'MB', nres=2, shape='path')
            top = systems.top_text([other, m], [('MB', 1), ('MA', 1)])
        with systems.Workdir() as wd:
            res = systems.run_gen_coords(wd, top, box=np.array([5.0, 5.0, 5.0]), timeout=40)
        refused = (not res['ok']) and res.get('exc_type') in ('OSError', 'IOError')
        ctx.case(('gate', kind), nontrivial=True, sample={'gate_case': kind, 'refused': refused, 'exception': res.get('exc_type')})
        if must_refuse and not refused:
            ctx.violation('spec', f"gen_coords built a molecule whose atoms are not all connected ({kind}): "
                          f"{'a structure was written' if res['ok'] else res.get('exc_type')}", {'gate_case': kind, 'top': top}, finding=fid)
        if not must_refuse and not res['ok']:
            ctx.violation('spec', f"gen_coords refused a connected molecule: {res.get('exc_type')}: {res.get('exception')}", {'gate_case': kind, 'top': top})


def search(ctx):
    return


def replay(ctx, data):
    print(json.dumps(data, indent=1, default=str)[:3000])
    if 'gate_case' in data:
        import numpy as np
        with systems.Workdir() as wd:
            res = systems.run_gen_coords(wd, data['top'], box=np.array([5.0, 5.0, 5.0]), timeout=40)
        print('replay: gen_coords', 'succeeded' if res['ok'] else f"raised {res.get('exc_type')}")
        return 1 if res['ok'] else 0
    if 'interleaved' in data:
        before = len(ctx.violations)
        interleaved_blocks(ctx, 0, extra=[data['interleaved']])
        print('replay:', ctx.violations[-1]['what'][:300] if len(ctx.violations) > before else 'statement satisfied on this input')
        return 1 if len(ctx.violations) > before else 0
    return 0
