"""C20 -- outputs appear only after success and never clobber existing files.

Proof: Props/C20.v -- crash-point theorem over the effect model (model/Effects.v) applied to the
statement skeletons regenerated from gen_itp.py / gen_coords.py / gen_seq.py (tie T: every
statement before the flush of the deferred writer is invisible to the output directory; for
gen_seq the open-for-writing and dump are the last two statements), and the backup theorem for
the flush.
Correspondence (fault enumeration, tie D): for each program every stage function named in the
skeleton is made to raise in turn, with and without a pre-existing output file; the directory
listing and contents before / after are compared with the model (unchanged); success runs check
complete content and the Gromacs-style backup chain against the model's write_file."""
import contextlib
import io
import json
import os
import pathlib
import shutil
import tempfile

from harness import core, systems
from harness.coqio import lit

META = {
    'level': 'proof',
    'technique': 'Coq crash-point theorem over effect skeletons regenerated from the three programs, backup theorem for the deferred writer; fault enumeration at every stage as correspondence',
    'gen_deps': ['Gen_effects'],
    'eval_deps': ['theories/model/Effects.vo', 'theories/gen/Gen_effects.vo'],
    'level_text': ("Theorems in Coq (Props/C20.v): for every program (list of statement kinds), every crash point not beyond its first "
                   "statement that can touch the output directory, every initial directory: the prefix runs and leaves the directory "
                   "exactly as it was; the skeletons of gen_params and gen_coords regenerated from the source on every run have the "
                   "shape (invisible)* flush (non-writing)*, that of gen_seq (stages)* open dump; the flush puts the complete content in "
                   "place, keeps a previous file under the first free #name.k# with its content and touches nothing else. The model is "
                   "tied to the code by fault enumeration: each stage of each program is made to raise, with and without an existing "
                   "output file, and the directory is compared before/after; successful runs are compared with the model's flush "
                   "including chains of existing backups."),
    'level_note': ("Trusted: Coq kernel, the skeleton extractor (which statements count as file effects), harness. No axioms. "
                   "The window inside json.dump of gen_seq (file already truncated) is outside the statement ('fails before writing') "
                   "and recorded in the evidence. A failing call followed by a successful one in the SAME process flushes the failed "
                   "call's queued temporary file (vermouth's writer is a process-wide singleton): known finding F15."),
    'rule': ("cases = program x stage made to raise (every stage function named in the regenerated skeleton) x pre-existing output file "
             "or not, plus success runs with 0-3 existing backups; non-trivial = a crash case with a pre-existing file or a success "
             "case with a backup; distinct by (program, stage, pre-existing state); plus inputs that fail or succeed on their own "
             "(no injected fault: unknown names, malformed macros, bad connect records, missing files, branched / disconnected / "
             "cyclic sequences) x output names with several extensions x pre-existing file or not"
             "; directed / added families (waves 10-12): same-process histories starting from gen_coords failures; backup chains with holes"),
}

FF = """[ moleculetype ]
PEO 1
[ atoms ]
1 P1 1 PEO EC 1 0.0 72
[ link ]
resname "PEO"
[ bonds ]
EC +EC 1 0.33 7000
"""

STAGES = {
    'gen_params': [
        ('polyply.src.gen_itp:load_ff_library', 'load_ff_library'),
        ('polyply.src.gen_itp:MetaMolecule.from_monomer_seq_linear', 'if seq:'),
        ('polyply.src.gen_itp:complement_dsDNA', 'if dsdna:'),
        ('polyply.src.map_to_molecule:MapToMolecule.run_molecule', 'MapToMolecule'),
        ('polyply.src.apply_links:ApplyLinks.run_molecule', 'ApplyLinks'),
        ('polyply.src.apply_modifications:ApplyModifications.run_molecule', 'ApplyModifications'),
        ('polyply.src.gen_itp:find_missing_edges', 'find_missing_edges'),
        ('polyply.src.gen_itp:citation_formatter', None),
        ('vermouth.gmx.itp:write_molecule_itp', 'write_molecule_itp'),
    ],
    'gen_coords': [
        ('polyply.src.topology:Topology.from_gmx_topfile', 'from_gmx_topfile'),
        ('polyply.src.topology:Topology.preprocess', 'preprocess'),
        ('polyply.src.gen_coords:_check_molecules', '_check_molecules'),
        ('polyply.src.gen_coords:load_build_files', 'load_build_files'),
        ('polyply.src.gen_coords:find_starting_node_from_spec', 'find_starting_node_from_spec'),
        ('polyply.src.generate_templates:GenerateTemplates.run_system', 'GenerateTemplates'),
        ('polyply.src.annotate_ligands:AnnotateLigands.run_system', 'ligand_annotator.run_system'),
        ('polyply.src.gen_coords:_initialize_cylces', '_initialize_cylces'),
        ('polyply.src.build_system:BuildSystem.run_system', 'BuildSystem'),
        ('polyply.src.annotate_ligands:AnnotateLigands.split_ligands', 'split_ligands'),
        ('polyply.src.backmap:Backmap.run_system', 'Backmap'),
        ('polyply.src.topology:Topology.convert_to_vermouth_system', 'convert_to_vermouth_system'),
        ('vermouth.gmx.gro:write_gro', 'write_gro'),
        ('vermouth.gmx.gro:write_gro@mid', 'write_gro'),
        ('vermouth.gmx.gro:write_gro@real', 'write_gro'),
    ],
    'gen_seq': [
        ('polyply.src.gen_seq:MacroString', 'for macro_string in macro_strings'),
        ('polyply.src.gen_seq:generate_seq_graph', 'generate_seq_graph'),
        ('polyply.src.gen_seq:_apply_termini_modifications', '_apply_termini_modifications'),
        ('polyply.src.gen_seq:_tag_nodes', '_tag_nodes'),
        ('polyply.src.gen_seq:json_graph.node_link_data', 'node_link_data'),
    ],
}


class Injected(Exception):
    pass


def reset_writer():
    import vermouth.file_writer as fw
    # emulate a fresh process: empty the queue of the process-wide writer (deferred_open is bound to
    # this very instance at import time, so the instance itself must stay)
    fw.DeferredFileWriter().close()


def listing(d):
    out = {}
    for fn in sorted(os.listdir(d)):
        p = os.path.join(d, fn)
        if os.path.isfile(p):
            with open(p, 'rb') as fh:
                out[fn] = fh.read().decode('utf8', 'replace')
    return out


def run_program(prog, wd, outname, fail_target=None, fresh_writer=True):
    """run one program in-process on a tiny fixed input, optionally with one stage raising"""
    import numpy as np
    if fresh_writer:
        reset_writer()
    hooks = {}
    if fail_target and fail_target.endswith('@mid'):
        # failure in the middle of serialisation: the deferred temporary file is already open and partly written
        def factory_mid(real):
            def boom(system, outpath, *a, **k):
                from vermouth.file_writer import deferred_open
                with deferred_open(outpath, 'w') as fh:
                    fh.write('PARTIAL CONTENT')
                    raise Injected(fail_target)
            return boom
        hooks[fail_target[:-4]] = factory_mid
    elif fail_target and fail_target.endswith('@real'):
        # the REAL writer, called as the program calls it (its own arguments), fails in the middle of serialisation:
        # the last atom of the system has no position
        def factory_real(real):
            def boom(system, outpath, *a, **k):
                mol = system.molecules[-1]
                del mol.nodes[list(mol.nodes)[-1]]['position']
                try:
                    return real(system, outpath, *a, **k)
                except KeyError as exc:
                    raise Injected(fail_target) from exc
            return boom
        hooks[fail_target[:-5]] = factory_real
    elif fail_target:
        def factory(real):
            def boom(*a, **k):
                raise Injected(fail_target)
            return boom
        hooks[fail_target] = factory
    out = pathlib.Path(wd) / 'out' / outname
    sink = io.StringIO()
    exc = None
    try:
        with contextlib.redirect_stderr(sink), contextlib.redirect_stdout(sink), systems.patches(hooks), systems.watchdog(60):
            if prog == 'gen_params':
                import polyply.src.gen_itp as gi
                gi.gen_params(name='x', outpath=out, inpath=[pathlib.Path(wd) / 'in' / 't.ff'], lib=None, seq=['PEO:3'], dsdna=False if fail_target != 'polyply.src.gen_itp:complement_dsDNA' else True)
            elif prog == 'gen_coords':
                import polyply.src.gen_coords as gc
                gc.gen_coords(toppath=pathlib.Path(wd) / 'in' / 'system.top', outpath=out, name='generated',
                              box=np.array([5.0, 5.0, 5.0]), cycles=['MA'] if False else [])
            else:
                import polyply.src.gen_seq as gs
                gs.gen_seq(name='s', outpath=out, seq=['A', 'B'], macro_strings=['A:3:1:PEO-1.0', 'B:2:1:PS-1.0'],
                           connects=['0:1:2-0'], modifications=['0:PEOT'], tags=['0:chiral:R-1.0'])
    except Injected as e:
        exc = 'injected'
    except Exception as e:  # noqa
        exc = f'{type(e).__name__}: {e}'
    return exc


def prepare(wd, rng):
    os.makedirs(os.path.join(wd, 'in'))
    os.makedirs(os.path.join(wd, 'out'))
    with open(os.path.join(wd, 'in', 't.ff'), 'w') as fh:
        fh.write(FF)
    mts = [systems.gen_moltype(rng, 'MA', nres=3, shape='path')]
    with open(os.path.join(wd, 'in', 'system.top'), 'w') as fh:
        fh.write(systems.top_text(mts, [('MA', 2)]))


OUTNAME = {'gen_params': 'out.itp', 'gen_coords': 'out.gro', 'gen_seq': 'out.json'}

PRELUDE = """From PV Require Import EffectKinds Effects Gen_effects.
Open Scope string_scope.
Definition kinds (p : list (stmt_kind * string)) := map fst p.
Definition bk (n : string) (k : nat) : string :=
  "#" ++ n ++ "." ++ (match k with 1 => "1" | 2 => "2" | 3 => "3" | 4 => "4" | 5 => "5" | _ => "9" end)%nat ++ "#".
Definition prog_of (p : string) := if String.eqb p "gen_params" then kinds prog_gen_params
   else if String.eqb p "gen_coords" then kinds prog_gen_coords else kinds prog_gen_seq.
Definition texts_of (p : string) := if String.eqb p "gen_params" then map snd prog_gen_params
   else if String.eqb p "gen_coords" then map snd prog_gen_coords else map snd prog_gen_seq.
(* directory after the first k statements / after the whole program; content = string *)
Definition after (p : string) (k : nat) (out : string) (f : list (string * string)) :=
  match run string "" bk out "NEW" (firstn k (prog_of p)) {| e_fs := f; e_queue := [] |} with
  | Some s => Some (e_fs string s) | None => None end.
"""


def run(ctx):
    ctx.correspondences += ['fault enumeration: every stage of gen_params / gen_coords / gen_seq raising, directory compared with the model',
                            'success runs: content and backup chain compared with the model flush']
    rng = ctx.rng
    # the stage table must name statements of the regenerated skeleton (keeps the table in sync with the source)
    try:
        texts = core.coq_eval_cases(ctx, 'texts', PRELUDE, [f'(texts_of {lit(p)}, first_visible (prog_of {lit(p)}))' for p in STAGES], chunk=10)
    except core.CoqEvalError as exc:
        ctx.note(str(exc)[:600])
        ctx.broken.append('correspondence:C20 model evaluation failed')
        texts = None          # the runs below still judge the implementation (search for a concrete failing input)
    skeleton = {p: (list(t[0]), t[1]) for p, t in zip(STAGES, texts)} if texts else None
    for prog, stages in STAGES.items():
        for target, needle in stages:
            if skeleton and needle and not any(needle in t for t in skeleton[prog][0]):
                ctx.broken.append(f'correspondence:stage {needle} of {prog} is not in the regenerated skeleton')
                ctx.note(f"stage table out of date: {needle} not found in {prog} skeleton")
    exprs, observed, descr = [], [], []
    for prog, stages in STAGES.items():
        outname = OUTNAME[prog]
        nvis = skeleton[prog][1] if skeleton else 0
        for target, needle in stages:
            for pre in (None, 'OLD CONTENT'):
                with systems.Workdir() as wd:
                    prepare(wd, rng)
                    if pre is not None:
                        with open(os.path.join(wd, 'out', outname), 'w') as fh:
                            fh.write(pre)
                        if rng.random() < 0.5:
                            with open(os.path.join(wd, 'out', f'#{outname}.1#'), 'w') as fh:
                                fh.write('OLDER')
                    before = listing(os.path.join(wd, 'out'))
                    exc = run_program(prog, wd, outname, fail_target=target)
                    after = listing(os.path.join(wd, 'out'))
                ctx.feature(f'{prog}_crash')
                ctx.case((prog, target, pre is not None), nontrivial=pre is not None,
                         sample={'program': prog, 'stage_raising': target, 'pre_existing': sorted(before), 'exception': exc, 'after': sorted(after)})
                if exc != 'injected':
                    # the stage was not reached on this input (e.g. citation_formatter without citations): nothing to compare
                    if exc is None:
                        ctx.feature('stage_not_reached')
                        continue
                    ctx.note(f"{prog}: unexpected exception with {target} patched: {exc}")
                if after != before:
                    ctx.violation('spec', f"{prog} failed in stage {target} but the output directory changed: before {sorted(before)} after {sorted(after)}",
                                  {'program': prog, 'stage': target, 'before': before, 'after': after})
                # model: a crash at any statement index k <= first visible leaves the directory unchanged
                if skeleton:
                    exprs.append(f"after {lit(prog)} {nvis}%nat {lit(outname)} {lit(sorted(before.items()))}")
                    observed.append(sorted(after.items()))
                    descr.append((prog, target))
    # success runs with backup chains
    for prog in STAGES:
        outname = OUTNAME[prog]
        for nb in (0, 1, 2, 3, 'gap'):
            gap = nb == 'gap'
            if gap:
                nb = 1        # a backup chain with a hole: #name.2# exists, #name.1# was deleted; the first free name is #name.1#
            with systems.Workdir() as wd:
                prepare(wd, rng)
                if nb >= 1:
                    with open(os.path.join(wd, 'out', outname), 'w') as fh:
                        fh.write('OLD CONTENT')
                for k in ([2, 4] if gap else range(1, nb)):
                    with open(os.path.join(wd, 'out', f'#{outname}.{k}#'), 'w') as fh:
                        fh.write(f'BACKUP {k}')
                before = listing(os.path.join(wd, 'out'))
                exc = run_program(prog, wd, outname)
                after = listing(os.path.join(wd, 'out'))
            ctx.feature(f'{prog}_success')
            if gap:
                ctx.feature('success_with_a_hole_in_the_backup_chain')
            ctx.case((prog, 'success', 'gap' if gap else nb), nontrivial=nb >= 1, sample={'program': prog, 'existing': sorted(before), 'after': sorted(after)})
            if exc is not None:
                ctx.violation('spec', f"{prog} failed on a valid input: {exc}", {'program': prog, 'success_case': nb, 'exception': exc})
                continue
            new = after.get(outname)
            if not new or new == 'OLD CONTENT' or (prog == 'gen_seq' and not new.rstrip().endswith('}')):
                ctx.violation('spec', f"{prog} succeeded but {outname} is missing or incomplete", {'program': prog, 'after': after})
            if prog != 'gen_seq':
                # Gromacs-style backup: old content under the first free #name.k#, everything else untouched
                if skeleton:
                    exprs.append(f"after {lit(prog)} 1000%nat {lit(outname)} {lit(sorted(before.items()))}")
                    observed.append(sorted((k, 'NEW' if k == outname else v) for k, v in after.items()))
                    descr.append((prog, f'success with {nb} existing'))
                if nb >= 1 and after.get(f'#{outname}.{nb}#') != 'OLD CONTENT':
                    ctx.violation('spec', f"{prog}: the previous {outname} was not kept as #{outname}.{nb}#: {sorted(after)}",
                                  {'program': prog, 'before': before, 'after': after})
                for k, v in before.items():
                    if k != outname and after.get(k) != v:
                        ctx.violation('spec', f"{prog}: existing file {k} was modified", {'program': prog, 'before': before, 'after': after})
    if not skeleton:
        same_process(ctx)
        return
    try:
        res = core.coq_eval_cases(ctx, 'fs', PRELUDE, exprs, chunk=200)
    except core.CoqEvalError as exc:
        ctx.note(str(exc)[:600])
        ctx.broken.append('correspondence:C20 model evaluation failed')
        return
    mism = 0
    for d, obs, r in zip(descr, observed, res):
        model = None if r is None else sorted((a, b) for a, b in r[1])
        if model != [tuple(x) for x in obs]:
            mism += 1
            if mism <= 3:
                ctx.note(f"correspondence {d}: model {str(model)[:200]} != impl {str(obs)[:200]}")
    ctx.extra['correspondence'] = {'cases': len(exprs), 'mismatches': mism}
    ctx.extra['gen_seq_truncate_window'] = 'a failure inside json.dump leaves a truncated file; outside the statement (fails before writing)'
    if mism:
        ctx.broken.append('correspondence:programs vs model/Effects.v')
    same_process(ctx)
    natural_failures(ctx)


def same_process(ctx):
    """a failing call followed by a successful one in ONE process: whatever stage the first call failed in, the later call
    must not create (or replace) the file at the failed call's output path.  F15: a failure inside the serialisation itself
    leaves the temporary file in the process-wide queue"""
    rng = ctx.rng
    for first, outname, second, second_out in (('gen_params', 'failed.itp', 'gen_coords', 'out.gro'), ('gen_coords', 'failed.gro', 'gen_params', 'out.itp'),
                                                ('gen_coords', 'failed.gro', 'gen_coords', 'out.gro')):
        for target, _ in STAGES[first]:
            for pre in (False, True):
                if first == 'gen_coords' and second == 'gen_coords' and pre:
                    continue
                with systems.Workdir() as wd:
                    prepare(wd, rng)
                    outdir = os.path.join(wd, 'out')
                    if pre:
                        with open(os.path.join(outdir, outname), 'w') as fh:
                            fh.write('OLD CONTENT')
                    reset_writer()
                    exc1 = run_program(first, wd, outname, fail_target=target, fresh_writer=False)
                    mid = listing(outdir)
                    exc2 = run_program(second, wd, second_out, fresh_writer=False)
                    after = listing(outdir)
                    reset_writer()
                if exc1 is None:
                    continue        # the stage is not reached on this input
                ctx.case(('same_process', first, second, target, pre), nontrivial=True)
                ctx.feature(f'same_process_histories_{first}_then_{second}')
                want = {outname: 'OLD CONTENT'} if pre else {}
                rep = {'same_process': True, 'first': first, 'second': second, 'stage': target, 'pre_existing': pre}
                if mid != want:
                    ctx.violation('spec', f"{first} failed in {target.split(':')[1]} but the output directory changed: {sorted(mid)}", dict(rep, listing=sorted(mid)))
                got = {k: v for k, v in after.items() if k != second_out}
                if got != want:
                    ctx.violation('spec', f"{first} failed in {target.split(':')[1]}; a later successful {second} call in the same process "
                                  f"{'replaced the file' if pre else 'created a file'} at the failed call's output path (directory now: {sorted(after)})",
                                  dict(rep, listing=sorted(after)),
                                  finding='F15' if first == 'gen_params' and target == 'vermouth.gmx.itp:write_molecule_itp' else
                                  'F15b' if first == 'gen_coords' and target.startswith('vermouth.gmx.gro:write_gro@') else None)


NATURAL_SEQ = [
    # (label, kwargs): inputs of gen_seq that succeed or fail on their own (no injected fault)
    ('linear', dict(seq=['A', 'B'], macro_strings=['A:3:1:PEO-1.0', 'B:2:1:PS-1.0'], connects=['0:1:2-0'])),
    ('branched macro', dict(seq=['A'], macro_strings=['A:3:2:PEO-1.0'], connects=[])),
    ('two blocks, no connect record (disconnected)', dict(seq=['A', 'B'], macro_strings=['A:3:1:PEO-1.0', 'B:2:1:PS-1.0'], connects=[])),
    ('ring closed by two connect records', dict(seq=['A', 'B'], macro_strings=['A:3:1:PEO-1.0', 'B:3:1:PS-1.0'], connects=['0:1:2-0', '0:1:0-2'])),
    ('unknown macro in -seq', dict(seq=['A', 'C'], macro_strings=['A:3:1:PEO-1.0'], connects=['0:1:2-0'])),
    ('connect record beyond the block', dict(seq=['A', 'B'], macro_strings=['A:3:1:PEO-1.0', 'B:2:1:PS-1.0'], connects=['0:1:7-0'])),
    ('malformed macro', dict(seq=['A'], macro_strings=['A:3:PEO'], connects=[])),
    ('modification of a block that does not exist', dict(seq=['A'], macro_strings=['A:3:1:PEO-1.0'], connects=[], modifications=['4:PEOT'])),
]


def natural_failures(ctx):
    """inputs that fail (or succeed) on their own, for several output names and with / without a file at the output
    path: a call that raises must leave the output directory exactly as it was; a call that returns must leave a
    complete file"""
    import numpy as np
    import polyply.src.gen_seq as gs
    import polyply.src.gen_itp as gi
    import polyply.src.gen_coords as gc
    rng = ctx.rng
    runs = []
    for label, kw in NATURAL_SEQ:
        for outname in ('out.json', 'seq.txt', 'graph.dat'):
            runs.append(('gen_seq', label, outname, lambda out, wd, kw=kw: gs.gen_seq(name='s', outpath=out, **kw)))
    for label, kw in [('unknown residue name', dict(seq=['XYZ:3'])), ('negative count', dict(seq=['PEO:-1'])), ('ok', dict(seq=['PEO:3'])),
                      ('missing definitions file', dict(seq=['PEO:3'], missing=True))]:
        for outname in ('out.itp', 'out.top'):
            def call(out, wd, kw=kw):
                inp = [pathlib.Path(wd) / 'in' / ('nothere.ff' if kw.get('missing') else 't.ff')]
                gi.gen_params(name='x', outpath=out, inpath=inp, lib=None, seq=kw['seq'], dsdna=False)
            runs.append(('gen_params', label, outname, call))
    for label, top in [('missing include', 'bad_include.top'), ('molecule name without type', 'bad_name.top'), ('ok', 'system.top')]:
        for outname in ('out.gro', 'out.pdb'):
            def call(out, wd, top=top):
                gc.gen_coords(toppath=pathlib.Path(wd) / 'in' / top, outpath=out, name='generated', box=np.array([5.0, 5.0, 5.0]))
            runs.append(('gen_coords', label, outname, call))
    # the same runs with the output directory reached through a symbolic link or a path with '..'
    for prog, label, outname, call in list(runs):
        if label in ('ok', 'linear', 'unknown residue name', 'missing include', 'unknown macro in -seq'):
            runs.append((prog, label, 'via:lnk/' + outname, call))
            runs.append((prog, label, 'via:out/../out/' + outname, call))
    for prog, label, outname, call in runs:
        via = None
        if outname.startswith('via:'):
            via, outname = outname[4:].rsplit('/', 1)
        for pre in (False, True):
            with systems.Workdir() as wd:
                prepare(wd, rng)
                with open(os.path.join(wd, 'in', 'system.top')) as fh:
                    good = fh.read()
                with open(os.path.join(wd, 'in', 'bad_include.top'), 'w') as fh:
                    fh.write('#include "nothere.itp"\n' + good)
                with open(os.path.join(wd, 'in', 'bad_name.top'), 'w') as fh:
                    fh.write(good + 'NOSUCH 1\n')
                outdir = os.path.join(wd, 'out')
                if pre:
                    with open(os.path.join(outdir, outname), 'w') as fh:
                        fh.write('OLD CONTENT')
                before = listing(outdir)
                reset_writer()
                sink = io.StringIO()
                exc = None
                target = pathlib.Path(outdir) / outname
                if via:
                    if via == 'lnk':
                        os.symlink(outdir, os.path.join(wd, 'lnk'))
                    target = pathlib.Path(wd) / via / outname
                try:
                    with contextlib.redirect_stderr(sink), contextlib.redirect_stdout(sink), systems.watchdog(60):
                        call(target, wd)
                except BaseException as e:  # noqa
                    exc = f'{type(e).__name__}: {str(e)[:80]}'
                after = listing(outdir)
                reset_writer()
            ctx.case(('natural', prog, label, outname, pre, via), nontrivial=exc is not None and pre)
            ctx.feature('natural_failure' if exc else 'natural_success')
            if via:
                ctx.feature('output_directory_via_symlink_or_dotdot')
            rep = {'natural': True, 'program': prog, 'input': label, 'outname': outname, 'pre_existing': pre, 'via': via}
            if exc is not None and after != before:
                changed = sorted(k for k in set(before) | set(after) if before.get(k) != after.get(k))
                ctx.violation('spec', f"{prog} failed on its own input ({label}: {exc}) but the output directory changed: {changed} "
                              f"(file at the output path before: {'OLD CONTENT' if pre else 'none'}, after: "
                              f"{repr(after.get(outname, 'none'))[:40]})", rep)
            if exc is None:
                new = after.get(outname)
                if not new or new == 'OLD CONTENT':
                    ctx.violation('spec', f"{prog} returned normally ({label}) but no complete file is at the output path {(via + '/') if via else ''}{outname}", rep)
                elif prog != 'gen_seq' and pre and 'OLD CONTENT' not in [v for k, v in after.items() if k != outname]:
                    ctx.violation('spec', f"{prog} returned normally ({label}) but the previous file at {outname} is not kept under a backup name", rep)


def search(ctx):
    return


def replay(ctx, data):
    print(json.dumps(data, indent=1, default=str)[:3000])
    import random
    if data.get('natural'):
        class N:
            rng = random.Random(0)
            violations = []

            def case(self, *a, **k):
                pass

            def feature(self, *a, **k):
                pass

            def violation(self, kind, what, rep, finding=None):
                if all(rep.get(k) == data.get(k) for k in ('program', 'input', 'outname', 'pre_existing', 'via')):
                    self.violations.append(what)
        n = N()
        natural_failures(n)
        print('replay:', n.violations or 'the directory is unchanged / the file is complete')
        return 1 if n.violations else 0
    if data.get('same_process'):
        class C:
            rng = random.Random(0)
            violations = []

            def case(self, *a, **k):
                pass

            def feature(self, *a, **k):
                pass

            def violation(self, kind, what, rep, finding=None):
                if rep.get('stage') == data.get('stage') and rep.get('pre_existing') == data.get('pre_existing') and \
                        rep.get('first') == data.get('first', 'gen_params') and rep.get('second') == data.get('second', 'gen_coords'):
                    self.violations.append(what)
        c = C()
        same_process(c)
        print('replay:', c.violations or 'no file from the failed call')
        return 1 if c.violations else 0
    if 'stage' in data:
        with systems.Workdir() as wd:
            prepare(wd, random.Random(0))
            outname = OUTNAME[data['program']]
            for k, v in data['before'].items():
                with open(os.path.join(wd, 'out', k), 'w') as fh:
                    fh.write(v)
            before = listing(os.path.join(wd, 'out'))
            run_program(data['program'], wd, outname, fail_target=data['stage'])
            after = listing(os.path.join(wd, 'out'))
        print('replay: before', sorted(before), 'after', sorted(after))
        return 0 if before == after else 1
    return 0
