"""C17 -- failed placements are rolled back completely; accepted ones never move.

Proof: Props/C17.v over model/Walk.v (the while loop of RandomWalk._random_walk with _rewind,
and BuildSystem._handle_random_walk), for every oracle stream of placement outcomes.
Correspondence (tie D): the real RandomWalk / _handle_random_walk on a real NonBondEngine with
RandomWalk.update_positions replaced by a scripted outcome (placing at distinct dummy points)
versus the model: sequence of (prev, current) calls, positioned set before each call, final
positioned set, placed_nodes, success flag.  The implementation is also judged directly:
prev positioned / current unpositioned at every call, other molecules' rows untouched,
success => every residue positioned exactly once."""
import contextlib
import io
import itertools
import json
import os

import numpy as np

from harness import core, systems
from harness.coqio import lit, Raw

META = {
    'level': 'proof',
    'technique': 'Coq invariant proof over a model of the rewind loop quantified over all outcome streams; scripted-schedule differential correspondence with RandomWalk/_handle_random_walk',
    'gen_deps': ['Gen_build'],
    'eval_deps': ['theories/model/Walk.vo', 'theories/gen/Gen_build.vo'],
    'level_text': ("Theorems in Coq (Props/C17.v) about the model of the placement loop, for every success/failure stream, every "
                   "rewind depth >= 1, every retry limit and every search-tree edge list in discovery order: at every reachable "
                   "state the recorded placements are exactly the buildable steps before the step counter, the positioned set is the "
                   "pre-positioned residues plus the recorded placements, every call grows an unpositioned residue from a "
                   "positioned one (no crash state is reachable), a rewind removes exactly the residues placed at the discarded "
                   "steps, and a run that ends successfully has positioned every residue exactly once. The model is tied to the "
                   "code by scripted schedules (exhaustive up to a length bound on small graphs in the thorough tier, sampled in the "
                   "quick tier) run through the real RandomWalk and _handle_random_walk on a real NonBondEngine, comparing the call "
                   "sequence and engine state; positions of other molecules are checked unchanged on the implementation."),
    'level_note': ("Trusted: Coq kernel + vm_compute, harness, the monkeypatch that scripts update_positions/_is_overlap. No axioms. "
                   "Hypotheses of the theorems (validated on every generated case against the real search tree): the path lists "
                   "tree edges in discovery order with distinct targets, residues flagged build=False carry a position and "
                   "buildable ones do not, nrewind >= 1. Engine rows are related to the positioned set by C16."),
    'rule': ("cases = residue graphs of 2-8 residues (paths, stars, random trees, one ring) x pre-positioned subsets x nrewind in "
             "{1,2,3,5} x maxiter in {1,2,3,50} x outcome scripts (random strings; all strings up to the bound in the thorough tier); "
             "non-trivial = at least one failure followed by a rewind or an abandoned attempt; distinct by (graph, flags, parameters, script)"
             "; directed / added families (waves 10-12): copies of one chain in a real BuildSystem (first copy partly supplied, scripted failures; 5001+ positioned residues before the chains)"),
}


class Crash(Exception):
    pass


class ScriptEnd(Exception):
    pass


def gen_graph(rng):
    n = rng.randint(2, 8)
    shape = rng.choice(['path', 'star', 'tree', 'tree', 'ring'])
    keys = list(range(n))
    if rng.random() < 0.4:
        keys = rng.sample(range(0, 3 * n), n)
    if shape == 'path':
        edges = [(i, i + 1) for i in range(n - 1)]
    elif shape == 'star':
        edges = [(0, i) for i in range(1, n)]
    elif shape == 'ring' and n >= 3:
        edges = [(i, i + 1) for i in range(n - 1)] + [(0, n - 1)]
    else:
        edges = [(rng.randrange(i), i) for i in range(1, n)]
    rng.shuffle(edges)
    return keys, [(keys[a], keys[b]) for a, b in edges]


def gen_case(rng, script=None):
    keys, edges = gen_graph(rng)
    n = len(keys)
    pre = [k for k in keys if rng.random() < 0.25]
    if len(pre) == n:
        pre = pre[:-1]
    case = {'keys': keys, 'edges': edges, 'pre': pre,
            'nrewind': rng.choice([1, 2, 3, 5]), 'maxiter': rng.choice([1, 2, 3, 50]),
            'dfs': rng.random() < 0.5,
            'first_ok': rng.random() < 0.9,
            'script': script if script is not None else [rng.random() < 0.6 for _ in range(rng.randint(1, 30))]}
    return case


def point_for(key, attempt=0):
    return np.array([0.05 + 0.011 * key + 0.3 * (attempt % 7), 0.07 + 0.013 * key, 0.09 + 0.017 * key])


def build_world(case, extra_molecule=True):
    import networkx as nx
    from polyply import MetaMolecule
    import polyply.src.nonbond_engine as nbe
    g = nx.Graph()
    for k in case['keys']:
        g.add_node(k, resname='A', resid=k + 1)
    g.add_edges_from(case['edges'])
    meta = MetaMolecule(g)
    meta.mol_name = 'mol'
    meta.dfs = case['dfs']
    for k in case['keys']:
        if k in case['pre']:
            meta.nodes[k]['position'] = point_for(k) + np.array([5.0, 0, 0])
            meta.nodes[k]['build'] = False
        else:
            meta.nodes[k]['build'] = True
    mols = [meta]
    if extra_molecule:
        g2 = nx.Graph()
        for k in range(3):
            g2.add_node(k, resname='A', resid=k + 1)
        g2.add_edges_from([(0, 1), (1, 2)])
        other = MetaMolecule(g2)
        other.mol_name = 'other'
        for k in range(3):
            other.nodes[k]['position'] = np.array([1.0 + k, 8.0, 8.0])
            other.nodes[k]['build'] = False
        mols.append(other)

    class Top:
        volumes = {'A': 0.4}
        bending = {}
        molecules = mols          # the engine addresses molecules by their index in the topology
    eng = nbe.NonBondEngine.from_topology(mols, Top, np.array([10.0, 10.0, 10.0]))
    return meta, mols, eng


def positioned(eng, mol_idx, keys):
    return sorted(int(k) for k in keys if np.all(np.isfinite(eng.get_point(mol_idx, k))))


def run_impl(case, handle=False):
    """run the real loop with scripted outcomes; returns observation dict"""
    import polyply.src.random_walk as rw
    import polyply.src.build_system as bs
    meta, mols, eng = build_world(case)
    keys = case['keys']
    scripts = case['attempts'] if handle else [(case['first_ok'], case['script'])]
    state = {'attempt': -1, 'script': None, 'calls': [], 'bad': []}
    other_before = [eng.get_point(1, k).copy() for k in range(3)]

    def scripted_update(self, vector_bundle, current_node, prev_node):
        pos_before = positioned(self.nonbond_matrix, self.mol_idx, keys)
        state['calls'].append((int(prev_node), int(current_node), pos_before))
        if prev_node not in pos_before:
            raise Crash()
        if current_node in pos_before:
            state['bad'].append(f"update_positions called for residue {current_node} which already has a position")
        if not state['script']:
            raise ScriptEnd()
        ok = state['script'].pop(0)
        if ok:
            self.nonbond_matrix.add_positions(point_for(current_node, state['attempt']), self.mol_idx, current_node, start=False)
        return ok

    def scripted_overlap(self, point, node, nrexcl=1):
        return not state['first_ok']

    real_run = rw.RandomWalk.run_molecule

    def counting_run(self, meta_molecule):
        state['attempt'] += 1
        if state['attempt'] >= len(scripts):
            raise ScriptEnd()
        state['first_ok'], sc = scripts[state['attempt']]
        state['script'] = list(sc)
        state['calls'].append(('attempt', state['attempt'], positioned(self.nonbond_matrix, self.mol_idx, keys)))
        state['walker'] = self
        return real_run(self, meta_molecule)

    saved = (rw.RandomWalk.update_positions, rw.RandomWalk._is_overlap, rw.RandomWalk.run_molecule)
    rw.RandomWalk.update_positions = scripted_update
    rw.RandomWalk._is_overlap = scripted_overlap
    rw.RandomWalk.run_molecule = counting_run
    out = {'end': None}
    try:
        path = [(int(a), int(b)) for a, b in meta.search_tree.edges]
        root = int(next(iter(meta.nodes)))
        out['path'], out['root'] = path, root
        try:
            if handle:
                b = bs.BuildSystem.__new__(bs.BuildSystem)
                b.box_grid = np.array([[0.5, 0.5, 0.5], [2.5, 2.5, 2.5]])
                b.nonbond_matrix = eng
                b.box = np.array([10.0, 10.0, 10.0])
                b.start_dict = {0: None}
                b.rwargs = {'nrewind': case['nrewind'], 'maxiter': case['maxiter']}
                b.maxiter = case['attempts_max']
                ok, _ = b._handle_random_walk(meta, 0, np.array([[1.0, 0, 0]]))
                out['end'] = 'done'
                out['success'] = bool(ok)
            else:
                proc = rw.RandomWalk(0, eng, start=np.array([0.5, 0.5, 0.5]), maxdim=np.array([10.0] * 3),
                                     vector_sphere=np.array([[1.0, 0, 0]]), nrewind=case['nrewind'], maxiter=case['maxiter'])
                proc.run_molecule(meta)
                out['end'] = 'done'
                out['success'] = bool(proc.success)
                out['placed'] = [(int(s), int(nn)) for s, nn in proc.placed_nodes]
        except Crash:
            out['end'] = 'crash'
        except ScriptEnd:
            out['end'] = 'script_end'
        out['calls'] = state['calls']
        out['pos'] = positioned(eng, 0, keys)
        other_after = [eng.get_point(1, k) for k in range(3)]
        if not all(np.array_equal(a, b) for a, b in zip(other_before, other_after)):
            state['bad'].append("positions of another molecule changed")
        # judge the statement on the implementation
        if out['end'] == 'done' and out.get('success'):
            if out['pos'] != sorted(keys):
                state['bad'].append(f"successful run but positioned residues are {out['pos']} of {sorted(keys)}")
            flat = [g for l in eng.defined_idxs for g in l]
            if len(flat) != len(set(flat)):
                state['bad'].append("a residue is listed twice in the engine")
        # path hypothesis: discovery order, distinct targets
        tg = [b for _, b in path]
        if len(set(tg)) != len(tg) or any(a != root and a not in tg[:i] for i, (a, _) in enumerate(path)):
            state['bad'].append(f"search-tree edge list {path} is not in discovery order from root {root}")
        out['bad'] = state['bad']
        return out
    finally:
        rw.RandomWalk.update_positions, rw.RandomWalk._is_overlap, rw.RandomWalk.run_molecule = saved


PRELUDE = """From PV Require Import Walk Gen_build.
Open Scope Z_scope.
Definition show (r : res) :=
  match r with
  | Finished s => (0%nat, w_pos s, w_placed s, w_success s)
  | Crashed s => (1%nat, w_pos s, w_placed s, false)
  | Running s => (2%nat, w_pos s, w_placed s, false)
  | OutOfFuel => (3%nat, [], [], false)
  end.
Definition showh (r : hres) :=
  match r with HDone ok p => (0%nat, p, ok) | HCrashed p => (1%nat, p, false) | HOut => (3%nat, [], false) end.
"""


def coq_walk(case, path, root):
    build = "(fun n => negb (existsb (Z.eqb n) " + lit(case['pre']) + "))"
    return (f"show (walk {lit(path)} {build} {case['nrewind']}%nat {case['maxiter']}%nat 400%nat {lit(root)} "
            f"{lit(root in case['pre'])} {lit(sorted(case['pre']))} {lit(case['first_ok'])} {lit(case['script'])})")


def coq_handle(case, path, root):
    build = "(fun n => negb (existsb (Z.eqb n) " + lit(case['pre']) + "))"
    att = "[" + "; ".join(f"({lit(f)}, {lit(s)})" for f, s in case['attempts']) + "]"
    return (f"showh (handle {lit(path)} {build} {case['nrewind']}%nat {case['maxiter']}%nat {case['attempts_max']}%nat 400%nat "
            f"{lit(root)} {lit(root in case['pre'])} (if cleanup_all then {lit(case['keys'])} else {lit([k for k in case['keys'] if k not in case['pre']])}) "
            f"{lit(sorted(case['pre']))} 0%nat {att})")


# ------------------------------------------------------------------ several copies of one molecule type in a real BuildSystem
def copies_run(case):
    """copies of one chain, the first k residues of copy 0 supplied by a residue-resolution coordinate file; scripted
    placement failures in later copies; the engine is judged at the start of every attempt and at the end"""
    import random as _random
    import textwrap
    from vermouth.forcefield import ForceField
    from polyply.src.topology import Topology
    from polyply.src.top_parser import read_topology
    from polyply.src.build_system import BuildSystem
    import polyply.src.random_walk as rw
    nres, ncopies = case['nres'], case['ncopies']
    nsol = case.get('solvent', 0)
    atoms = "\n".join(f"{i} N0 {i} PEO BB {i} 0.00 45" for i in range(1, nres + 1))
    bonds = "\n".join(f"{i} {i + 1} 1 0.47 2000" for i in range(1, nres))
    lines = (["[ defaults ]", "1 1 no 1.0 1.0", "[ atomtypes ]", "N0 45.0 0.000 A 0.0 0.0", "[ nonbond_params ]", "N0 N0 1 4.7e-01 3.7e+00",
              "[ moleculetype ]", "PEO 1", "[ atoms ]"] + atoms.split("\n") + ["[ bonds ]"] + bonds.split("\n") +
             (["[ moleculetype ]", "SOL 1", "[ atoms ]", "1 N0 1 SOL W 1 0.00 45"] if nsol else []) +
             ["[ system ]", "s", "[ molecules ]"] + ([f"SOL {nsol}"] if nsol else []) + [f"PEO {ncopies}"])
    _random.seed(case['seed'])
    np.random.seed(case['seed'])
    sink = io.StringIO()
    bad = []
    with contextlib.redirect_stderr(sink), contextlib.redirect_stdout(sink):
        topology = Topology(ForceField("t"))
        read_topology(lines=lines, topology=topology, cwdir="./")
        topology.preprocess()
        topology.volumes = {"PEO": 0.43, "SOL": 0.43}
        box = np.array([8.0, 8.0, 8.0]) if not nsol else np.array([10.5, 10.5, 10.5])
        if case['supplied'] or nsol:
            with systems.Workdir() as wd:
                gro = os.path.join(wd, 'partial.gro')
                with open(gro, 'w') as fh:
                    fh.write("partial\n%5d\n" % (case['supplied'] + nsol))
                    side = int(np.ceil(nsol ** (1.0 / 3.0))) if nsol else 0
                    for k in range(nsol):
                        # the solvent the newest KD-tree is filled with: on a lattice in the upper part of the box
                        x, y, z = k % side, (k // side) % side, k // (side * side)
                        fh.write("{:5d}{:<5s}{:>5s}{:5d}{:8.3f}{:8.3f}{:8.3f}\n".format((k + 1) % 100000, "SOL", "W", (k + 1) % 100000,
                                                                                      0.25 + 0.55 * x, 0.25 + 0.55 * y, 2.6 + 0.43 * z))
                    for i in range(case['supplied']):
                        fh.write("{:5d}{:<5s}{:>5s}{:5d}{:8.3f}{:8.3f}{:8.3f}\n".format(i + 1, "PEO", "BB", i + 1, 1.0 + 0.47 * i, 1.0, 1.0))
                    fh.write("{:10.5f}{:10.5f}{:10.5f}\n".format(*box))
                topology.add_positions_from_file(gro, resolution="meta_mol")
        user = {(mi, n): np.array(mol.nodes[n]['position'], dtype=float) for mi, mol in enumerate(topology.molecules) for n in mol.nodes
                if not mol.nodes[n].get('build', True)}
        builder = BuildSystem(topology, density=None, start_dict={i: None for i in range(ncopies + nsol)}, box=box,
                              grid_spacing=1.0 if not nsol else 0.5, maxiter=50)
        attempts, calls, reached = {}, {}, {}

        def registered(engine, gndx):
            return sum(list(idxs).count(gndx) for idxs in engine.defined_idxs)

        real_run, real_update = rw.RandomWalk.run_molecule, rw.RandomWalk.update_positions

        def run_molecule(self, meta_molecule):
            mi, engine = self.mol_idx, self.nonbond_matrix
            attempts[mi] = attempts.get(mi, 0) + 1
            for node in topology.molecules[mi].nodes:
                if (mi, node) in user:
                    continue
                gndx = engine.nodes_to_gndx[(mi, node)]
                if np.all(np.isfinite(engine.positions[gndx])) or registered(engine, gndx):
                    bad.append(f"attempt {attempts[mi]} for molecule {mi} starts while residue {node} of an abandoned attempt is still "
                               f"in the system (registered {registered(engine, gndx)}x)")
            return real_run(self, meta_molecule)

        def update_positions(self, vector_bundle, current_node, prev_node):
            key = (self.mol_idx, attempts[self.mol_idx])
            calls[key] = calls.get(key, 0) + 1
            # attempts are counted from the first one that reaches a growth step (earlier ones ended at the start residue)
            first = reached.setdefault(self.mol_idx, attempts[self.mol_idx])
            if [self.mol_idx, attempts[self.mol_idx] - first + 1, calls[key]] in case['fail']:
                return False
            return real_update(self, vector_bundle, current_node, prev_node)
        rw.RandomWalk.run_molecule, rw.RandomWalk.update_positions = run_molecule, update_positions
        try:
            with systems.watchdog(60):
                builder.run_system(topology.molecules)
        finally:
            rw.RandomWalk.run_molecule, rw.RandomWalk.update_positions = real_run, real_update
        engine = builder.nonbond_matrix
        for mi, mol in enumerate(topology.molecules):
            for node in mol.nodes:
                gndx = engine.nodes_to_gndx[(mi, node)]
                if not np.all(np.isfinite(engine.positions[gndx])):
                    bad.append(f"end: residue {node} of molecule {mi} has no position")
                elif registered(engine, gndx) != 1:
                    bad.append(f"end: residue {node} of molecule {mi} is registered {registered(engine, gndx)} times in the engine")
        for (mi, node), ref in user.items():
            if not np.array_equal(engine.positions[engine.nodes_to_gndx[(mi, node)]], ref):
                bad.append(f"end: supplied residue {node} of molecule {mi} moved")
    return bad, attempts


def copies_cases(ctx, n, extra=()):
    rng = ctx.rng
    todo = list(extra)
    for _ in range(n):
        nres, ncopies = rng.randint(4, 6), rng.randint(2, 4)
        fail = [[rng.randint(0 if rng.random() < 0.3 else 1, ncopies - 1), 1, rng.randint(1, nres - 1)] for _ in range(rng.randint(1, 2))]
        todo.append({'nres': nres, 'ncopies': ncopies, 'supplied': rng.choice([0, 1, 2, nres - 1]), 'fail': fail, 'seed': rng.randrange(10 ** 6)})
    if n:
        # more than 5000 positioned residues when a chain starts: its start residue opens a new KD-tree of the engine; the
        # first growth step of the first attempt fails
        for _ in range(1 if n < 50 else 3):
            nsol = rng.randint(5001, 5040)
            todo.append({'nres': rng.randint(4, 6), 'ncopies': 2, 'supplied': 0, 'solvent': nsol, 'fail': [[nsol, 1, 1], [nsol + 1, 1, rng.randint(1, 3)]],
                         'seed': rng.randrange(10 ** 6)})
    for case in todo:
        try:
            bad, attempts = copies_run(case)
        except Exception as exc:  # noqa
            ctx.note(f"copies of one molecule type: {type(exc).__name__}: {str(exc)[:200]}")
            ctx.case(('copies', json.dumps(case, sort_keys=True)), nontrivial=False)
            continue
        ctx.case(('copies', json.dumps(case, sort_keys=True)), nontrivial=any(v > 1 for v in attempts.values()), sample=case)
        ctx.feature('copies_with_partly_supplied_first_copy' if case['supplied'] else 'copies_all_built')
        if case.get('solvent'):
            ctx.feature('copies_started_with_more_than_5000_positions_in_the_newest_tree')
        if any(v > 1 for v in attempts.values()):
            ctx.feature('copies_with_abandoned_attempt')
        for b in bad[:1]:
            ctx.violation('spec', f"C17 fails on the implementation: {b} ({case['ncopies']} copies of a {case['nres']}-residue chain, "
                          f"{case['supplied']} residues of copy 0 supplied, scripted failures [molecule, attempt, call] {case['fail']})", {'copies': case})


def run(ctx):
    copies_cases(ctx, ctx.n(12, 120))
    ctx.correspondences += ['RandomWalk._random_walk with scripted outcomes vs model/Walk.v walk (positioned set, placed_nodes, success)',
                            'BuildSystem._handle_random_walk with scripted attempts vs model/Walk.v handle',
                            'implementation judged directly at every update_positions call (prev positioned, current not; other molecules untouched; success => all positioned once)']
    rng = ctx.rng
    corpus = [c for _, c in core.corpus_cases('C17')]
    cases = [c for c in corpus if 'attempts' not in c]
    cases += [gen_case(rng) for _ in range(ctx.n(400, 1500))]
    if not ctx.quick:
        # exhaustive schedules up to length 10 on a few small graphs
        for _ in range(6):
            base = gen_case(rng)
            for L in range(1, 11):
                for bits in itertools.product([True, False], repeat=L):
                    cases.append(dict(base, script=list(bits)))
    exprs, outs = [], []
    for case in cases:
        out = run_impl(case)
        outs.append(out)
        for b in out['bad'][:2]:
            ctx.violation('spec', f"C17 fails on the implementation: {b}", {'case': case, 'failure': b, 'calls': out['calls']})
        if out['end'] == 'crash':
            ctx.violation('spec', "C17 fails on the implementation: a residue was grown from a neighbour without a position",
                          {'case': case, 'failure': 'grown from unpositioned neighbour', 'calls': out['calls']})
        exprs.append(coq_walk(case, out['path'], out['root']))
        nrew = sum(1 for ok in case['script'] if not ok)
        ctx.feature('end_' + out['end'])
        ctx.case(json.dumps(case, sort_keys=True), nontrivial=(nrew > 0 and out['end'] == 'done' and len(out['calls']) > 2),
                 sample={'path': out['path'], 'pre': case['pre'], 'nrewind': case['nrewind'], 'maxiter': case['maxiter'],
                         'script': ''.join('S' if b else 'F' for b in case['script']), 'end': out['end'], 'success': out.get('success')})
    hcases = [dict(c, attempts=[(a, list(b)) for a, b in c['attempts']]) for c in corpus if 'attempts' in c]
    for _ in range(ctx.n(150, 1000)):
        c = gen_case(rng)
        c['attempts_max'] = rng.choice([0, 1, 2, 5])
        c['attempts'] = [(rng.random() < 0.8, [rng.random() < 0.55 for _ in range(rng.randint(1, 14))]) for _ in range(rng.randint(1, 6))]
        hcases.append(c)
    hexprs, houts = [], []
    for case in hcases:
        out = run_impl(case, handle=True)
        houts.append(out)
        for b in out['bad'][:2]:
            ctx.violation('spec', f"C17 fails on the implementation (molecule attempts): {b}", {'case': case, 'failure': b, 'handle': True})
        if out['end'] == 'crash':
            ctx.violation('spec', "C17 fails on the implementation (molecule attempts): a residue was grown from a neighbour without a position",
                          {'case': case, 'failure': 'grown from unpositioned neighbour', 'handle': True})
        hexprs.append(coq_handle(case, out['path'], out['root']))
        ctx.feature('handle_end_' + out['end'])
        ctx.case(json.dumps(case, sort_keys=True), nontrivial=len([c for c in out['calls'] if c[0] == 'attempt']) > 1)
    try:
        res = core.coq_eval_cases(ctx, 'walk', PRELUDE, exprs, chunk=250)
        hres = core.coq_eval_cases(ctx, 'handle', PRELUDE, hexprs, chunk=250)
    except core.CoqEvalError as exc:
        ctx.note(str(exc)[:800])
        ctx.broken.append('correspondence:RandomWalk vs model (evaluation failed)')
        return
    mism = 0
    for case, out, r in zip(cases, outs, res):
        code, pos, placed, succ = r
        mend = {0: 'done', 1: 'crash', 2: 'running', 3: 'script_end'}[code]
        model = {'end': mend, 'pos': sorted(pos)}
        impl = {'end': out['end'], 'pos': out['pos']}
        if mend == 'done' and out['end'] == 'done':
            model.update(success=succ, placed=[tuple(x) for x in placed])
            impl.update(success=out['success'], placed=out['placed'])
        if mend == 'script_end' or out['end'] == 'script_end':
            model = {'end': mend}
            impl = {'end': out['end']}
        if model != impl:
            mism += 1
            if mism <= 3:
                ctx.note(f"correspondence(walk): model {model} != impl {impl} for {json.dumps(case)[:300]}")
                ctx.extra.setdefault('disagreements', []).append({'case': case, 'model': model, 'impl': impl})
    hm = 0
    for case, out, r in zip(hcases, houts, hres):
        code, pos, ok = r
        mend = {0: 'done', 1: 'crash', 3: 'script_end'}[code]
        model = {'end': mend}
        impl = {'end': out['end']}
        if mend == 'done' and out['end'] == 'done':
            model.update(pos=sorted(pos), success=ok)
            impl.update(pos=out['pos'], success=out['success'])
        if model != impl:
            hm += 1
            if hm <= 3:
                ctx.note(f"correspondence(handle): model {model} != impl {impl} for {json.dumps(case)[:300]}")
                ctx.extra.setdefault('disagreements', []).append({'case': case, 'model': model, 'impl': impl, 'handle': True})
    ctx.extra['correspondence'] = {'walk_cases': len(cases), 'walk_mismatches': mism, 'handle_cases': len(hcases), 'handle_mismatches': hm}
    if mism:
        ctx.broken.append('correspondence:RandomWalk._random_walk vs model/Walk.v')
    if hm:
        ctx.broken.append('correspondence:BuildSystem._handle_random_walk vs model/Walk.v')


def search(ctx):
    """after a broken obligation / correspondence: directed schedules judged on the implementation
    (chains and trees with a pre-positioned residue inside the rewind window, one failure at
    every position, every rewind depth)"""
    rng = ctx.rng
    tried = 0
    for n in range(4, 9):
        for nrewind in (1, 2, 3, 5):
            for pre_pos in [None] + list(range(0, n)):
                for fail_at in range(1, n + 2):
                    keys = list(range(n))
                    case = {'keys': keys, 'edges': [(i, i + 1) for i in range(n - 1)],
                            'pre': [] if pre_pos is None else [pre_pos],
                            'nrewind': nrewind, 'maxiter': 50, 'dfs': False, 'first_ok': True,
                            'script': [True] * (fail_at - 1) + [False] + [True] * (3 * n)}
                    out = run_impl(case)
                    tried += 1
                    if out['bad']:
                        ctx.violation('search', f"C17 fails on the implementation: {out['bad'][0]}",
                                      {'case': case, 'failure': out['bad'][0], 'calls': out['calls'], 'broken': ctx.broken})
                        return
                    if out['end'] == 'crash':
                        ctx.violation('search', "a residue was grown from a neighbour without a position",
                                      {'case': case, 'failure': 'grown from unpositioned neighbour', 'calls': out['calls'], 'broken': ctx.broken})
                        return
    for _ in range(1500):
        c = gen_case(rng)
        out = run_impl(c)
        if out['bad'] or out['end'] == 'crash':
            ctx.violation('search', f"C17 fails on the implementation: {(out['bad'] or ['grown from unpositioned neighbour'])[0]}",
                          {'case': c, 'failure': (out['bad'] or ['crash'])[0], 'broken': ctx.broken})
            return
    ctx.note(f"search: {tried} directed schedules and 1500 random ones satisfied the statement on the implementation")


def replay(ctx, data):
    if 'copies' in data:
        bad, _ = copies_run(data['copies'])
        print('replay:', bad[:2] or 'no residue of an abandoned attempt is left, every residue registered once')
        return 1 if bad else 0
    print(json.dumps(data, indent=1, default=str)[:3000])
    case = data.get('case')
    if not case:
        return 0
    if 'attempts' in case:
        case['attempts'] = [(a, list(b)) for a, b in case['attempts']]
    out = run_impl(case, handle=bool(data.get('handle')))
    bad = out['bad'] or (['grown from unpositioned neighbour'] if out['end'] == 'crash' else [])
    print('replay:', bad or 'statement satisfied on this schedule')
    return 1 if bad else 0
