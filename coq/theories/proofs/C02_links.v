(* C02: lemmas about the link-application model (model/Links.v). *)
From Coq Require Import ZArith String List Bool Lia Setoid.
From PV Require Import Links.
Import ListNotations.
Open Scope Z_scope.

(* ---- relative order: the table of vermouth's match_order, read declaratively ---- *)
Lemma sgn_spec z : (sgn z = 1 <-> 0 < z) /\ (sgn z = -1 <-> z < 0) /\ (sgn z = 0 <-> z = 0).
Proof.
  unfold sgn. destruct (z <? 0) eqn:E1; [apply Z.ltb_lt in E1|apply Z.ltb_ge in E1];
  [|destruct (0 <? z) eqn:E2; [apply Z.ltb_lt in E2|apply Z.ltb_ge in E2]]; repeat split; intros; try lia.
Qed.

Theorem order_numbers a b r1 r2 : match_order (ONum a) r1 (ONum b) r2 = true <-> r2 - r1 = b - a.
Proof. cbn. rewrite Z.eqb_eq. lia. Qed.

Theorem order_after n r1 r2 : 0 < n -> (match_order (ONum 0) r1 (OArrow n) r2 = true <-> r1 < r2).
Proof.
  intros Hn. cbn. rewrite Z.eqb_eq. destruct (sgn_spec n) as (Hn1 & _ & _). destruct (sgn_spec (r2 - r1)) as (H1 & H2 & H3).
  rewrite (proj2 Hn1 Hn). rewrite H1. lia.
Qed.

Theorem order_before n r1 r2 : n < 0 -> (match_order (ONum 0) r1 (OArrow n) r2 = true <-> r2 < r1).
Proof.
  intros Hn. cbn. rewrite Z.eqb_eq. destruct (sgn_spec n) as (_ & Hn2 & _). destruct (sgn_spec (r2 - r1)) as (H1 & H2 & H3).
  rewrite (proj2 Hn2 Hn). rewrite H2. lia.
Qed.

Theorem order_other n r1 r2 : match_order (ONum 0) r1 (OStar n) r2 = true <-> r1 <> r2.
Proof. cbn. rewrite negb_true_iff, Z.eqb_neq. tauto. Qed.

Theorem order_arrows a b r1 r2 : a < b -> (match_order (OArrow a) r1 (OArrow b) r2 = true <-> r1 < r2).
Proof.
  intros Hab. cbn. rewrite Z.eqb_eq. destruct (sgn_spec (b - a)) as (Hn1 & _ & _). destruct (sgn_spec (r2 - r1)) as (H1 & _ & _).
  rewrite (proj2 Hn1 ltac:(lia)). rewrite H1. lia.
Qed.

Lemma sgn_opp z : sgn (- z) = - sgn z.
Proof. unfold sgn. destruct (z <? 0) eqn:E1, (0 <? z) eqn:E2, (- z <? 0) eqn:E3, (0 <? - z) eqn:E4; lia. Qed.

(* the check does not depend on the order in which the two residues are presented *)
Theorem match_order_sym o1 r1 o2 r2 : match_order o1 r1 o2 r2 = match_order o2 r2 o1 r1.
Proof.
  destruct o1 as [a|a|a], o2 as [b|b|b]; cbn; try reflexivity; unfold sgn;
  repeat match goal with
         | |- context [?x <? ?y] => destruct (Z.ltb_spec x y)
         | |- context [?x =? ?y] => destruct (Z.eqb_spec x y)
         end; cbn; try reflexivity; try lia.
Qed.

(* ---- last writer wins ---- *)
Lemma zlist_eqb_refl a : zlist_eqb a a = true.
Proof. induction a; cbn; [reflexivity|]. rewrite Z.eqb_refl. exact IHa. Qed.
Lemma zlist_eqb_eq a b : zlist_eqb a b = true -> a = b.
Proof.
  revert b; induction a as [|x r IH]; intros [|y s] H; cbn in H; try discriminate; [reflexivity|].
  apply andb_true_iff in H. destruct H as [H1 H2]. apply Z.eqb_eq in H1. subst. f_equal. apply IH. exact H2.
Qed.
Lemma ikey_eqb_eq a b : ikey_eqb a b = true <-> a = b.
Proof.
  destruct a as [[s1 a1] v1], b as [[s2 a2] v2]. unfold ikey_eqb. rewrite !andb_true_iff, String.eqb_eq, Z.eqb_eq. split.
  - intros [[-> H] ->]. apply zlist_eqb_eq in H. subst. reflexivity.
  - intros E. injection E as -> -> ->. repeat split. apply zlist_eqb_refl.
Qed.

Lemma alookup_aset_same m k v : alookup (aset m k v) k = Some v.
Proof.
  induction m as [|[k' v'] r IH]; cbn.
  - destruct (ikey_eqb k k) eqn:E; [reflexivity|]. assert (ikey_eqb k k = true) by (apply ikey_eqb_eq; reflexivity). congruence.
  - destruct (ikey_eqb k' k) eqn:E; cbn; rewrite E; [reflexivity|exact IH].
Qed.
Lemma alookup_aset_other m k k2 v : k2 <> k -> alookup (aset m k v) k2 = alookup m k2.
Proof.
  intros Hne. induction m as [|[k' v'] r IH]; cbn.
  - destruct (ikey_eqb k k2) eqn:E; [apply ikey_eqb_eq in E; congruence|reflexivity].
  - destruct (ikey_eqb k' k) eqn:E; cbn.
    + apply ikey_eqb_eq in E. subst k'. destruct (ikey_eqb k k2) eqn:E2; [apply ikey_eqb_eq in E2; congruence|reflexivity].
    + destruct (ikey_eqb k' k2); [reflexivity|exact IH].
Qed.

(* value of the last write to key k, if any *)
Fixpoint last_write (ws : list (ikey * ival)) (k : ikey) : option ival :=
  match ws with
  | [] => None
  | (k', v) :: r => match last_write r k with Some x => Some x | None => if ikey_eqb k' k then Some v else None end
  end.

Theorem fold_last_wins ws : forall m k,
  alookup (fold_left (fun m w => aset m (fst w) (snd w)) ws m) k =
  match last_write ws k with Some v => Some v | None => alookup m k end.
Proof.
  induction ws as [|[k' v] r IH]; intros m k; cbn [fold_left last_write fst snd]; [reflexivity|].
  rewrite IH. destruct (last_write r k) as [x|]; [reflexivity|].
  destruct (ikey_eqb k' k) eqn:E.
  - apply ikey_eqb_eq in E. subst. apply alookup_aset_same.
  - apply alookup_aset_other. intros ->. assert (ikey_eqb k' k' = true) by (apply ikey_eqb_eq; reflexivity). congruence.
Qed.

(* an interaction is in the result iff something wrote its key, and it then carries the
   parameters of the LAST writer: block interactions first, links in force-field order *)
Theorem apply_links_last_wins g blocks links k :
  alookup (apply_links g blocks links) k = last_write (all_writes g blocks links) k.
Proof. unfold apply_links. rewrite fold_last_wins. destruct (last_write _ k); reflexivity. Qed.

Lemma last_write_app ws1 ws2 k :
  last_write (ws1 ++ ws2) k = match last_write ws2 k with Some v => Some v | None => last_write ws1 k end.
Proof.
  induction ws1 as [|[k' v] r IH]; cbn [app last_write]; [destruct (last_write ws2 k); reflexivity|].
  rewrite IH. destruct (last_write ws2 k); [reflexivity|]. reflexivity.
Qed.

Lemma last_write_none_iff ws k : last_write ws k = None <-> forall v, ~ In (k, v) ws.
Proof.
  induction ws as [|[k' v'] r IH]; cbn [last_write].
  - split; [intros _ v []|reflexivity].
  - destruct (last_write r k) as [x|] eqn:El.
    + split; [discriminate|]. intros H. exfalso.
      assert (Hn : Some x = None); [|discriminate]. apply IH. intros v Hin. apply (H v). right; exact Hin.
    + destruct (ikey_eqb k' k) eqn:E.
      * split; [discriminate|]. intros H. apply ikey_eqb_eq in E. subst. exfalso. apply (H v'). left; reflexivity.
      * split; [|reflexivity]. intros _ v [Ein|Hin].
        -- injection Ein as -> ->. assert (ikey_eqb k k = true) by (apply ikey_eqb_eq; reflexivity). congruence.
        -- apply (proj1 IH eq_refl v). exact Hin.
Qed.

(* a block interaction survives with its own parameters unless a link writes the same key;
   different versions are different keys and are all kept *)
Theorem block_interaction_frame g blocks links k :
  (forall v, ~ In (k, v) (flat_map (link_writes g) links)) ->
  alookup (apply_links g blocks links) k = last_write blocks k.
Proof.
  intros H. rewrite apply_links_last_wins. unfold all_writes. rewrite last_write_app.
  apply last_write_none_iff in H. rewrite H. reflexivity.
Qed.

(* nothing is present that no block and no matching link wrote *)
Theorem nothing_invented g blocks links k :
  (forall v, ~ In (k, v) (all_writes g blocks links)) -> alookup (apply_links g blocks links) k = None.
Proof. intros H. rewrite apply_links_last_wins. apply last_write_none_iff. exact H. Qed.

(* ---- residue-level matches: exactly the injective, induced, order-respecting assignments ---- *)
Lemma assignments_spec orders nodes mu :
  In mu (assignments orders nodes) <->
  map fst mu = orders /\ NoDup (map snd mu) /\ (forall n, In n (map snd mu) -> In n nodes).
Proof.
  revert mu; induction orders as [|o rest IH]; intros mu; cbn [assignments].
  - split.
    + intros [<-|[]]. repeat split; [constructor|intros n []].
    + intros (H & _ & _). destruct mu; [left; reflexivity|discriminate].
  - rewrite in_flat_map. split.
    + intros (mu' & Hmu' & Hin). apply in_flat_map in Hin. destruct Hin as (n & Hn & Hin).
      destruct (existsb (fun p => snd p =? n) mu') eqn:E; [destruct Hin|]. destruct Hin as [<-|[]].
      apply IH in Hmu'. destruct Hmu' as (H1 & H2 & H3). cbn [map fst snd]. repeat split.
      * rewrite H1. reflexivity.
      * constructor; [|exact H2]. intros Hin. apply in_map_iff in Hin. destruct Hin as (p & Ep & Hp).
        assert (existsb (fun p => snd p =? n) mu' = true); [|congruence].
        apply existsb_exists. exists p. split; [exact Hp|apply Z.eqb_eq; exact Ep].
      * intros x [<-|Hx]; [exact Hn|apply H3; exact Hx].
    + intros (H1 & H2 & H3). destruct mu as [|[o' n] mu']; [discriminate|]. cbn [map fst snd] in *.
      injection H1 as -> H1. inversion H2 as [|? ? Hnot H2']; subst.
      exists mu'. split; [apply IH; split; [reflexivity|split; [exact H2'|intros x Hx; apply H3; right; exact Hx]]|].
      apply in_flat_map. exists n. split; [apply H3; left; reflexivity|].
      destruct (existsb (fun p => snd p =? n) mu') eqn:E; [|left; reflexivity].
      exfalso. apply existsb_exists in E. destruct E as (p & Hp & Ep). apply Z.eqb_eq in Ep. apply Hnot. rewrite <- Ep. apply in_map. exact Hp.
Qed.

Lemma insert_sorted_in {A} (leb : A -> A -> bool) x l y : In y (insert_sorted leb x l) <-> y = x \/ In y l.
Proof.
  induction l as [|z r IH]; cbn [insert_sorted]; [cbn; intuition|]. destruct (leb x z); cbn [In]; [intuition|]. rewrite IH. intuition.
Qed.
Lemma isort_by_in {A} (leb : A -> A -> bool) l y : In y (isort_by leb l) <-> In y l.
Proof.
  induction l as [|x r IH]; cbn [isort_by]; [reflexivity|]. rewrite insert_sorted_in, IH. cbn [In]. intuition.
Qed.

Theorem residue_matches_exact g l mu :
  In mu (residue_matches g l) <->
  (map fst mu = l_res_nodes l /\ NoDup (map snd mu) /\ (forall n, In n (map snd mu) -> In n (map mn_key (m_nodes g)))) /\
  induced_ok g l mu = true /\ order_ok g mu = true.
Proof. unfold residue_matches. rewrite isort_by_in, filter_In, assignments_spec, andb_true_iff. tauto. Qed.

(* induced sub-graph AND edge labels: between any two residues of a match the link's residue graph
   has an edge exactly if the molecule's has, and where it has, the 'linktype' labels coincide --
   an unlabelled link edge matches only an unlabelled residue edge and a labelled one only its label *)
Lemma olabel_eqb_eq a b : olabel_eqb a b = true <-> a = b.
Proof.
  destruct a as [x|], b as [y|]; cbn [olabel_eqb]; split; try discriminate; try reflexivity.
  - intros H. apply String.eqb_eq in H. subst. reflexivity.
  - intros H. injection H as ->. apply String.eqb_refl.
Qed.

Theorem induced_ok_spec g l mu :
  induced_ok g l mu = true <->
  forall o1 n1 o2 n2, In (o1, n1) mu -> In (o2, n2) mu -> order_eqb o1 o2 = false ->
    has_ledge l o1 o2 = has_medge g n1 n2 /\ (has_ledge l o1 o2 = true -> llabel l o1 o2 = mlabel g n1 n2).
Proof.
  unfold induced_ok. rewrite forallb_forall. split.
  - intros H o1 n1 o2 n2 H1 H2 Hne. specialize (H (o1, n1) H1). rewrite forallb_forall in H. specialize (H (o2, n2) H2).
    cbn [fst snd] in H. rewrite Hne in H. apply andb_true_iff in H. destruct H as [Ha Hb]. split.
    + apply eqb_prop. exact Ha.
    + intros Hl. rewrite Hl in Hb. apply olabel_eqb_eq. exact Hb.
  - intros H [o1 n1] H1. rewrite forallb_forall. intros [o2 n2] H2. cbn [fst snd].
    destruct (order_eqb o1 o2) eqn:Hne; [reflexivity|]. destruct (H o1 n1 o2 n2 H1 H2 Hne) as [Ha Hb].
    apply andb_true_iff. split; [rewrite Ha; apply eqb_reflx|].
    destruct (has_ledge l o1 o2); [apply olabel_eqb_eq, Hb; reflexivity|reflexivity].
Qed.

Theorem match_respects_edge_labels g l mu o1 n1 o2 n2 :
  In mu (residue_matches g l) -> In (o1, n1) mu -> In (o2, n2) mu -> order_eqb o1 o2 = false ->
  has_ledge l o1 o2 = true -> has_medge g n1 n2 = true /\ mlabel g n1 n2 = llabel l o1 o2.
Proof.
  intros Hmu H1 H2 Hne Hl. apply residue_matches_exact in Hmu. destruct Hmu as (_ & Hind & _).
  destruct (proj1 (induced_ok_spec g l mu) Hind o1 n1 o2 n2 H1 H2 Hne) as [Ha Hb]. split; [congruence|symmetry; apply Hb; exact Hl].
Qed.

(* an atom is a candidate for a link atom exactly if it has the link atom's name, one of its residue names and every
   further attribute the link atom states (attributes of a residue in the sequence are attributes of all its atoms) *)
Theorem atom_ok_spec la a :
  atom_ok la a = true <->
  ra_name a = la_name la /\ In (ra_resname a) (la_resnames la) /\ (forall kv, In kv (la_attrs la) -> In kv (ra_attrs a)).
Proof.
  unfold atom_ok. rewrite !andb_true_iff, String.eqb_eq, existsb_exists, forallb_forall. split.
  - intros [[Hn (x & Hx & Ex)] Ha]. apply String.eqb_eq in Ex. subst x. split; [exact Hn|]. split; [exact Hx|].
    intros [k v] Hkv. specialize (Ha (k, v) Hkv). unfold has_attr in Ha. apply existsb_exists in Ha.
    destruct Ha as ([k' v'] & Hin & E). cbn [fst snd] in E. apply andb_true_iff in E. destruct E as [E1 E2].
    apply String.eqb_eq in E1, E2. subst. exact Hin.
  - intros (Hn & Hr & Ha). split; [split; [exact Hn|exists (ra_resname a); split; [exact Hr|apply String.eqb_refl]]|].
    intros [k v] Hkv. unfold has_attr. apply existsb_exists. exists (k, v). split; [apply Ha; exact Hkv|].
    cbn [fst snd]. rewrite !String.eqb_refl. reflexivity.
Qed.

(* every link atom identifies exactly one atom, else the match contributes nothing *)
Theorem match_atoms_unique g mu las m :
  match_atoms g mu las = Some m ->
  Forall2 (fun la p => fst p = la_key la /\
             exists nk n a, mu_get mu (la_order la) = Some nk /\ find_mnode (m_nodes g) nk = Some n /\
                            filter (atom_ok la) (mn_atoms n) = [a] /\ snd p = ra_key a) las m.
Proof.
  revert m; induction las as [|la rest IH]; intros m H; cbn [match_atoms] in H.
  - injection H as <-. constructor.
  - destruct (mu_get mu (la_order la)) as [nk|] eqn:E1; [|discriminate].
    destruct (find_mnode (m_nodes g) nk) as [n|] eqn:E2; [|discriminate].
    destruct (filter (atom_ok la) (mn_atoms n)) as [|a [|b t]] eqn:E3; try discriminate.
    destruct (match_atoms g mu rest) as [m'|] eqn:E4; [|discriminate].
    injection H as <-. constructor; [|apply IH; reflexivity].
    cbn [fst snd]. split; [reflexivity|]. exists nk, n, a. auto.
Qed.

Open Scope string_scope.
Example ex_links :
  let at1 k := {| ra_key := k; ra_name := "EC"; ra_resname := "PEO"; ra_attrs := [] |} in
  let g := {| m_nodes := [{| mn_key := 0; mn_resid := 1; mn_atoms := [at1 0] |}; {| mn_key := 1; mn_resid := 2; mn_atoms := [at1 1] |};
                          {| mn_key := 2; mn_resid := 3; mn_atoms := [at1 2] |}];
              m_edges := [(0, 1); (1, 2)]; m_labels := [] |} in
  let la k o := {| la_key := k; la_name := "EC"; la_order := o; la_resnames := ["PEO"]; la_replace := []; la_attrs := [] |} in
  let l := {| l_atoms := [la "EC" (ONum 0); la "+EC" (ONum 1)];
              l_inters := [{| li_sec := "bonds"; li_atoms := ["EC"; "+EC"]; li_params := ["1"; "0.33"; "7000"]; li_version := 1; li_meta := [] |}];
              l_edges := [("EC", "+EC")]; l_res_nodes := [ONum 0; ONum 1]; l_res_edges := [(ONum 0, ONum 1)]; l_res_labels := [] |} in
  map (fun kv => snd (fst (fst kv))) (apply_links g [] [l]) = [[1; 2]; [0; 1]] \/
  map (fun kv => snd (fst (fst kv))) (apply_links g [] [l]) = [[0; 1]; [1; 2]].
Proof. vm_compute. auto. Qed.
