(* C03: the density box.  Over the translated _compute_box_size formula (Gen_box_R). *)
From Coq Require Import Reals Lra Psatz.
From PV Require Import RNum Gen_box_R.
Open Scope R_scope.

Lemma ncbrt_cube x : 0 < x -> ncbrt x * ncbrt x * ncbrt x = x.
Proof.
  intros Hx. unfold ncbrt.
  assert (Hp : 0 < Rpower x (/ 3)) by (unfold Rpower; apply exp_pos).
  replace (Rpower x (/ 3) * Rpower x (/ 3) * Rpower x (/ 3)) with (Rpower x (/ 3) ^ 3) by ring.
  rewrite <- (Rpower_pow 3 _ Hp). rewrite Rpower_mult. replace (/ 3 * INR 3) with 1 by (simpl; field).
  apply Rpower_1. exact Hx.
Qed.

(* the cube of the edge returned by _compute_box_size is total mass (amu -> kg, cm3 -> nm3
   with 1.6605410) over the density *)
Theorem box_edge_volume m rho : 0 < m -> 0 < rho ->
  box_edge m rho * box_edge m rho * box_edge m rho = m * (1660541 / 1000000) / rho.
Proof.
  intros Hm Hr. unfold box_edge, num in *. apply ncbrt_cube.
  apply Rdiv_lt_0_compat; [|exact Hr]. apply Rmult_lt_0_compat; [exact Hm|lra].
Qed.

Theorem box_edge_pos m rho : 0 < m -> 0 < rho -> 0 < box_edge m rho.
Proof. intros _ _. unfold box_edge, ncbrt, Rpower. apply exp_pos. Qed.

(* BuildSystem rounds the edge to 5 decimals: any e within d of e0 has a cube within
   3 (e0 + d)^2 d of e0^3 *)
Theorem rounded_cube_close e0 e d : 0 < e0 -> 0 <= d -> Rabs (e - e0) <= d -> d <= e0 ->
  Rabs (e * e * e - e0 * e0 * e0) <= 3 * (e0 + d) * (e0 + d) * d.
Proof.
  intros H0 Hd Habs Hde. assert (Hlo : - d <= e - e0 <= d) by (unfold Rabs in Habs; destruct (Rcase_abs (e - e0)); lra).
  destruct Hlo as [Hlo Hhi].
  assert (Hmono : forall a b, 0 <= a -> a <= b -> a * a * a <= b * b * b).
  { intros a b Ha Hab. assert (0 <= (b - a) * (b * b + a * b + a * a)) by (apply Rmult_le_pos; nra). nra. }
  assert (H1 : e * e * e <= (e0 + d) * (e0 + d) * (e0 + d)) by (apply Hmono; lra).
  assert (H2 : (e0 - d) * (e0 - d) * (e0 - d) <= e * e * e) by (apply Hmono; lra).
  assert (Hd2 : 0 <= d * d) by nra. assert (Hd3 : 0 <= d * d * d) by nra. assert (He : 0 <= e0 * d * d) by nra.
  apply Rabs_le. split; nra.
Qed.

Theorem density_box_volume m rho e d : 0 < m -> 0 < rho -> 0 <= d -> d <= box_edge m rho ->
  Rabs (e - box_edge m rho) <= d ->
  Rabs (e * e * e - m * (1660541 / 1000000) / rho) <= 3 * (box_edge m rho + d) * (box_edge m rho + d) * d.
Proof.
  intros Hm Hr Hd Hde Habs. rewrite <- (box_edge_volume m rho Hm Hr).
  apply rounded_cube_close; [apply box_edge_pos; assumption|exact Hd|exact Habs|exact Hde].
Qed.

Example ex_box : box_edge 1000 1000 * box_edge 1000 1000 * box_edge 1000 1000 = 1660541 / 1000000.
Proof. rewrite box_edge_volume by lra. field. Qed.
