(* C01: the molecule built by add_blocks is the concatenation of re-indexed copies of the blocks. *)
From Coq Require Import ZArith String List Bool Lia.
From PV Require Import Blocks.
Import ListNotations.
Open Scope Z_scope.

Lemma number_length k l : length (number k l) = length l.
Proof. revert k; induction l as [|a r IH]; intros k; cbn; auto. Qed.

Lemma number_keys k l x a : In (x, a) (number k l) -> k <= x < k + Z.of_nat (length l).
Proof.
  revert k; induction l as [|b r IH]; intros k H; cbn in *; [destruct H|].
  destruct H as [E|H]; [injection E as <- <-; lia|apply IH in H; lia].
Qed.

(* keys 0 .. n-1 in ascending order *)
Definition contiguous (l : list (Z * atom)) : Prop := map fst l = map Z.of_nat (seq 0 (length l)).

Lemma number_fst k l : map fst (number k l) = map (fun i => k + Z.of_nat i) (seq 0 (length l)).
Proof.
  revert k; induction l as [|a r IH]; intros k; cbn [number map length seq]; [reflexivity|].
  f_equal; [cbn [fst]; lia|]. rewrite IH, <- seq_shift, map_map. apply map_ext. intros i. lia.
Qed.

Lemma contiguous_number l : contiguous (number 0 l).
Proof. unfold contiguous. rewrite number_fst, number_length. apply map_ext. intros; lia. Qed.

Lemma seq_add n m : seq n m = map (fun i => (n + i)%nat) (seq 0 m).
Proof.
  induction n as [|n IH]; [symmetry; rewrite <- (map_id (seq 0 m)) at 2; apply map_ext; intros; reflexivity|].
  rewrite <- seq_shift, IH, map_map. apply map_ext. intros; lia.
Qed.

Lemma contiguous_app l1 l2 : contiguous l1 -> contiguous (l1 ++ number (Z.of_nat (length l1)) l2).
Proof.
  unfold contiguous. intros H. rewrite map_app, app_length, number_length, seq_app, map_app, H. f_equal.
  rewrite number_fst. cbn [plus]. rewrite (seq_add (length l1)), map_map. apply map_ext. intros i. lia.
Qed.

Lemma max_key_contiguous l : contiguous l -> max_key l = Z.of_nat (length l) - 1.
Proof.
  unfold max_key, contiguous. intros H.
  assert (G : forall n (l : list (Z * atom)) m0, map fst l = map Z.of_nat (seq n (length l)) -> m0 <= Z.of_nat n - 1 ->
             fold_left (fun m ka => Z.max m (fst ka)) l m0 = if (length l =? 0)%nat then m0 else Z.of_nat (n + length l) - 1).
  { clear. intros n l; revert n; induction l as [|[k a] r IH]; intros n m0 Hk Hm; cbn [fold_left length]; [reflexivity|].
    cbn [map seq length] in Hk. injection Hk as Hk1 Hk2. cbn [fst].
    rewrite (IH (S n)); [|exact Hk2|lia]. cbn [Nat.eqb]. destruct (length r =? 0)%nat eqn:E.
    - apply Nat.eqb_eq in E. rewrite E. lia.
    - lia. }
  rewrite (G 0%nat l (-1) H ltac:(lia)). destruct l; cbn; lia.
Qed.

Lemma atom_at_last l k a : ~ In k (map fst l) -> atom_at (l ++ [(k, a)]) k = Some a.
Proof.
  induction l as [|[k' b] r IH]; intros H; cbn.
  - rewrite Z.eqb_refl. reflexivity.
  - destruct (k' =? k) eqn:E; [apply Z.eqb_eq in E; exfalso; apply H; left; exact E|].
    apply IH. intros Hin. apply H. right; exact Hin.
Qed.

(* state of the fold: the atoms built so far, the residue id and charge group of the last atom *)
Lemma merge_spec atoms inters b r cg :
  contiguous atoms -> atoms <> [] ->
  (exists pre a, atoms = pre ++ [(Z.of_nat (length atoms) - 1, a)] /\ a_resid a = r /\ a_cg a = cg) ->
  Forall (fun a => a_resid a = 1) (b_atoms b) ->
  merge {| m_atoms := atoms; m_inters := inters |} b =
  {| m_atoms := atoms ++ number (Z.of_nat (length atoms)) (map (fun a => shift_atom (with_resid a (r + 1)) 0 cg) (b_atoms b));
     m_inters := inters ++ map (shift_inter (Z.of_nat (length atoms))) (b_inters b) |}.
Proof.
  intros Hc Hne (pre & a & E & Hr & Hcg) Hres. unfold merge. cbn [m_atoms m_inters].
  rewrite (max_key_contiguous atoms Hc).
  assert (Hat : atom_at atoms (Z.of_nat (length atoms) - 1) = Some a).
  { rewrite E at 1. apply atom_at_last. intros Hin.
    assert (Hlen : length atoms = S (length pre)) by (rewrite E, app_length; cbn; lia).
    unfold contiguous in Hc. rewrite E in Hc at 1. rewrite map_app in Hc.
    assert (Hpre : map fst pre = map Z.of_nat (seq 0 (length pre))).
    { rewrite Hlen, seq_S, map_app in Hc. apply app_inj_tail in Hc. tauto. }
    rewrite Hpre in Hin. apply in_map_iff in Hin. destruct Hin as (i & Ei & Hi). apply in_seq in Hi. lia. }
  rewrite Hat, Hr, Hcg. replace (Z.of_nat (length atoms) - 1 + 1) with (Z.of_nat (length atoms)) by lia.
  f_equal. f_equal. f_equal. apply map_ext_in. intros x Hx. rewrite Forall_forall in Hres. specialize (Hres x Hx).
  unfold shift_atom, with_resid. cbn. f_equal; lia.
Qed.

Lemma last_of_number k (l : list atom) (d : atom -> atom) : l <> [] ->
  exists pre a, number k (map d l) = pre ++ [(k + Z.of_nat (length l) - 1, a)] /\
                exists a0, rev l = a0 :: rev (removelast l) /\ a = d a0.
Proof.
  intros Hne. destruct (exists_last Hne) as (l' & a0 & ->).
  exists (number k (map d l')), (d a0). split.
  - rewrite map_app. cbn [map].
    assert (G : forall k l1 x, number k (l1 ++ [x]) = number k l1 ++ [(k + Z.of_nat (length l1), x)]).
    { clear. intros k l1; revert k; induction l1 as [|y r IH]; intros k x; cbn [app number length].
      - replace (k + Z.of_nat 0) with k by lia. reflexivity.
      - rewrite IH. replace (k + 1 + Z.of_nat (length r)) with (k + Z.of_nat (S (length r))) by lia. reflexivity. }
    rewrite G, map_length, app_length. cbn [length]. replace (k + Z.of_nat (length l' + 1) - 1) with (k + Z.of_nat (length l')) by lia. reflexivity.
  - exists a0. rewrite rev_app_distr, removelast_last. cbn. auto.
Qed.

(* the whole fold equals the declarative layout *)
Theorem add_blocks_layout r0 blocks m :
  Forall (fun b => b_atoms b <> [] /\ Forall (fun a => a_resid a = 1) (b_atoms b)) blocks ->
  add_blocks r0 blocks = Some m ->
  m_atoms m = spec_atoms 0 r0 0 blocks /\ m_inters m = spec_inters 0 blocks.
Proof.
  intros Hall H. destruct blocks as [|b rest]; [discriminate|]. cbn [add_blocks] in H. injection H as <-.
  inversion Hall as [|? ? [Hb1 Hb2] Hrest]; subst.
  assert (G : forall rest atoms inters r cg,
            Forall (fun b => b_atoms b <> [] /\ Forall (fun a => a_resid a = 1) (b_atoms b)) rest ->
            contiguous atoms -> atoms <> [] ->
            (exists pre a, atoms = pre ++ [(Z.of_nat (length atoms) - 1, a)] /\ a_resid a = r /\ a_cg a = cg) ->
            let m := fold_left merge rest {| m_atoms := atoms; m_inters := inters |} in
            m_atoms m = atoms ++ spec_atoms (Z.of_nat (length atoms)) (r + 1) cg rest /\
            m_inters m = inters ++ spec_inters (Z.of_nat (length atoms)) rest).
  { clear. induction rest as [|b rest IH]; intros atoms inters r cg Hall Hc Hne Hlast; cbn [fold_left spec_atoms spec_inters].
    - rewrite !app_nil_r. split; reflexivity.
    - inversion Hall as [|? ? [Hb1 Hb2] Hrest]; subst.
      rewrite (merge_spec atoms inters b r cg Hc Hne Hlast Hb2).
      set (newa := number (Z.of_nat (length atoms)) (map (fun a => shift_atom (with_resid a (r + 1)) 0 cg) (b_atoms b))).
      assert (Hlen : length (atoms ++ newa) = (length atoms + length (b_atoms b))%nat)
        by (subst newa; rewrite app_length, number_length, map_length; reflexivity).
      destruct (last_of_number (Z.of_nat (length atoms)) (b_atoms b) (fun a => shift_atom (with_resid a (r + 1)) 0 cg) Hb1)
        as (pre & a & Ea & a0 & Erev & Ea0).
      specialize (IH (atoms ++ newa) (inters ++ map (shift_inter (Z.of_nat (length atoms))) (b_inters b)) (r + 1) (cg + last_cg b) Hrest).
      destruct IH as [I1 I2].
      + subst newa. apply contiguous_app. exact Hc.
      + intros E. apply app_eq_nil in E. destruct E as [E _]. contradiction.
      + exists (atoms ++ pre), a. split; [|split].
        * fold newa in Ea. rewrite Hlen. rewrite Ea at 1. rewrite app_assoc. f_equal. f_equal. f_equal. lia.
        * subst a. cbn. lia.
        * subst a. cbn. unfold last_cg. rewrite Erev. lia.
      + cbv zeta in I1, I2. split.
        * rewrite I1, <- app_assoc, Hlen, Nat2Z.inj_add. reflexivity.
        * rewrite I2, <- app_assoc, Hlen, Nat2Z.inj_add. reflexivity. }
  unfold first_block. set (atoms0 := number 0 (map (fun a => with_resid a r0) (b_atoms b))).
  destruct (last_of_number 0 (b_atoms b) (fun a => with_resid a r0) Hb1) as (pre & a & Ea & a0 & Erev & Ea0).
  specialize (G rest atoms0 (b_inters b) r0 (last_cg b) Hrest).
  assert (Hl0 : length atoms0 = length (b_atoms b)) by (subst atoms0; rewrite number_length, map_length; reflexivity).
  destruct G as [G1 G2].
  - subst atoms0. apply contiguous_number.
  - subst atoms0. intros E. apply (f_equal (@length _)) in E. rewrite number_length, map_length in E. destruct (b_atoms b); [contradiction|discriminate].
  - exists pre, a. split; [|split].
    + rewrite Hl0. fold atoms0 in Ea. rewrite Ea at 1. f_equal.
    + subst a. reflexivity.
    + subst a. cbn. unfold last_cg. rewrite Erev. reflexivity.
  - cbv zeta in G1, G2. cbn [spec_atoms spec_inters]. split.
    + rewrite G1, Hl0. replace (0 + blen b) with (Z.of_nat (length (b_atoms b))) by (unfold blen; lia).
      replace (0 + last_cg b) with (last_cg b) by lia. f_equal.
      subst atoms0. f_equal. apply map_ext. intros x. unfold shift_atom, with_resid. cbn. f_equal; lia.
    + rewrite G2, Hl0. replace (0 + blen b) with (Z.of_nat (length (b_atoms b))) by (unfold blen; lia). f_equal.
      rewrite <- (map_id (b_inters b)) at 1. apply map_ext. intros i. unfold shift_inter. destruct i as [sec ats prm mt]; cbn. f_equal.
      rewrite <- (map_id ats) at 1. apply map_ext. intros; lia.
Qed.

(* ---- corollaries of the layout: verbatim copies, once per residue, in residue order ---- *)
Definition verbatim (a : atom) := (a_name a, a_type a, a_resname a, a_charge a, a_mass a).

Lemma number_snd k l : map snd (number k l) = l.
Proof. revert k; induction l as [|a r IH]; intros k; cbn; [reflexivity|]. rewrite IH. reflexivity. Qed.

Lemma spec_atoms_verbatim idx r cg blocks :
  map (fun ka => verbatim (snd ka)) (spec_atoms idx r cg blocks) = flat_map (fun b => map verbatim (b_atoms b)) blocks.
Proof.
  revert idx r cg; induction blocks as [|b rest IH]; intros idx r cg; cbn [spec_atoms flat_map]; [reflexivity|].
  rewrite map_app, IH. f_equal. rewrite <- (map_map snd verbatim), number_snd, map_map. apply map_ext. intros a. reflexivity.
Qed.

Fixpoint spec_resids (r : Z) (blocks : list block) : list Z :=
  match blocks with [] => [] | b :: rest => (repeat r (length (b_atoms b)) ++ spec_resids (r + 1) rest)%list end.

Lemma spec_atoms_resids idx r cg blocks :
  map (fun ka => a_resid (snd ka)) (spec_atoms idx r cg blocks) = spec_resids r blocks.
Proof.
  revert idx r cg; induction blocks as [|b rest IH]; intros idx r cg; cbn [spec_atoms spec_resids]; [reflexivity|].
  rewrite map_app, IH. f_equal. rewrite <- (map_map snd a_resid), number_snd, map_map.
  clear. induction (b_atoms b) as [|a l IHl]; cbn [map length repeat]; [reflexivity|]. rewrite IHl. f_equal. cbn. lia.
Qed.

Lemma spec_atoms_keys idx r cg blocks :
  map fst (spec_atoms idx r cg blocks) =
  map (fun i => idx + Z.of_nat i) (seq 0 (length (flat_map b_atoms blocks))).
Proof.
  revert idx r cg; induction blocks as [|b rest IH]; intros idx r cg; cbn [spec_atoms flat_map]; [reflexivity|].
  rewrite map_app, IH, number_fst, map_length, app_length, seq_app, map_app. f_equal.
  cbn [plus]. rewrite (seq_add (length (b_atoms b))), map_map. apply map_ext. intros i. unfold blen. lia.
Qed.

Lemma spec_inters_params idx blocks :
  map (fun i => (i_sec i, i_params i, i_meta i)) (spec_inters idx blocks) =
  flat_map (fun b => map (fun i => (i_sec i, i_params i, i_meta i)) (b_inters b)) blocks.
Proof.
  revert idx; induction blocks as [|b rest IH]; intros idx; cbn [spec_inters flat_map]; [reflexivity|].
  rewrite map_app, IH, map_map. reflexivity.
Qed.

Open Scope string_scope.
Example ex_blocks :
  let a n := {| a_name := n; a_type := "P1"; a_resid := 1; a_resname := "RA"; a_cg := 1; a_charge := "0"; a_mass := "72" |} in
  let b := {| b_atoms := [a "BB"; a "SC"]; b_inters := [{| i_sec := "bonds"; i_atoms := [0; 1]; i_params := ["1"; "0.3"]; i_meta := [] |}]; b_nrexcl := 1 |} in
  match add_blocks 17 [b; b] with
  | Some m => map fst (m_atoms m) = [0; 1; 2; 3] /\ map (fun ka => a_resid (snd ka)) (m_atoms m) = [17; 17; 18; 18] /\
              map i_atoms (m_inters m) = [[0; 1]; [2; 3]]
  | None => False
  end.
Proof. vm_compute. repeat split. Qed.
