(* C06: theorems about the translated rotation (Gen_linalg_R.rotate_xyz), the translated
   placement expression (Gen_backmap_R.place_atom) and the hand-written lookup model. *)
From Coq Require Import Reals Lra List Nsatz ZArith String Permutation.
From PV Require Import RNum Rot Backmap Gen_linalg_R Gen_backmap_R.
Import ListNotations.
Open Scope R_scope.

(* ---- gen-dependent obligations ------------------------------------------------- *)

(* the translated function is "multiply every column by one matrix M", M orthogonal, det 1,
   for EVERY sin/cos triple on the unit circle: the optimiser's output is irrelevant *)
(* an elementary rotation matrix is orthogonal with determinant 1 *)
Ltac elem_rot := unfold orth; vunfold; repeat split; nsatz.

Lemma rot_proper sx cx sy cy sz cz :
  cx*cx + sx*sx = 1 -> cy*cy + sy*sy = 1 -> cz*cz + sz*sz = 1 ->
  exists M, (forall cols, rotate_xyz cols sx cx sy cy sz cz = mcols M cols) /\ orth M /\ mdet M = 1.
Proof.
  intros Hx Hy Hz.
  refine (ex_intro _ ?[M] (conj _ _)).
  - intros cols. unfold rotate_xyz. cbv zeta. reflexivity.
  - (* fast path: the source multiplies three elementary matrices; fallback: the expanded
       polynomial identities (slow, used after a refactoring of the source) *)
    first [ split;
            [ apply orth_mmul; [apply orth_mmul|]; elem_rot
            | rewrite !mdet_mmul;
              match goal with |- ?a * ?b * ?c = 1 =>
                let Ha := fresh in let Hb := fresh in let Hc := fresh in
                assert (Ha : a = 1) by (vunfold; nsatz);
                assert (Hb : b = 1) by (vunfold; nsatz);
                assert (Hc : c = 1) by (vunfold; nsatz);
                rewrite Ha, Hb, Hc; ring end ]
          | split; [unfold orth; vunfold; repeat split; nsatz | vunfold; nsatz] ].
Qed.

(* the placement expression is cg + fudge * v, whichever way the source spells it *)
Lemma place_atom_affine cg v f : place_atom cg v f = vadd cg (vscale f v).
Proof. unfold place_atom. vdestruct; vunfold; apply vec_eq; ring. Qed.

(* ---- gen-independent consequences ---------------------------------------------- *)
Definition placeM (M : mat) (f : R) (cg v : vec) : vec := vadd cg (vscale f (mvmul M v)).

Lemma placeM_diff M f cg a b :
  vsub (placeM M f cg a) (placeM M f cg b) = vscale f (mvmul M (vsub a b)).
Proof. unfold placeM. rewrite mvmul_sub. vdestruct; vunfold; apply vec_eq; ring. Qed.

Lemma vdot_scale f a b : vdot (vscale f a) (vscale f b) = f * f * vdot a b.
Proof. vdestruct; vunfold; ring. Qed.

Lemma congruent M f cg a b : orth M ->
  let d := vsub (placeM M f cg a) (placeM M f cg b) in
  vdot d d = (f * f) * vdot (vsub a b) (vsub a b).
Proof. intros HO d; subst d. rewrite placeM_diff, vdot_scale, orth_isometry by exact HO. reflexivity. Qed.

Lemma congruent_norm M f cg a b : orth M ->
  vnorm (vsub (placeM M f cg a) (placeM M f cg b)) = Rabs f * vnorm (vsub a b).
Proof.
  intros HO. unfold vnorm. rewrite (congruent M f cg a b HO).
  rewrite sqrt_mult_alt by nra. change (f * f) with (Rsqr f). rewrite sqrt_Rsqr_abs. reflexivity.
Qed.

Lemma vcross_scale f a b : vcross (vscale f a) (vscale f b) = vscale (f * f) (vcross a b).
Proof. vdestruct; vunfold; apply vec_eq; ring. Qed.
Lemma vdot_scale_l f g a b : vdot (vscale f a) (vscale g b) = f * g * vdot a b.
Proof. vdestruct; vunfold; ring. Qed.

(* signed volume of four placed atoms = fudge^3 * det M * signed volume in the template *)
Lemma handed M f cg a b c d :
  let P := placeM M f cg in
  vdot (vsub (P b) (P a)) (vcross (vsub (P c) (P a)) (vsub (P d) (P a)))
  = f * f * f * mdet M * vdot (vsub b a) (vcross (vsub c a) (vsub d a)).
Proof.
  intros P; subst P. rewrite !placeM_diff, vcross_scale, vdot_scale_l, triple_det. ring.
Qed.

Lemma vsum_place M f cg (ts : list vec) :
  vsum (map (placeM M f cg) ts) = vadd (vscale (INR (List.length ts)) cg) (vscale f (mvmul M (vsum ts))).
Proof.
  induction ts as [|t ts IH].
  - cbn [map vsum fold_right List.length INR]. rewrite mvmul_zero. vdestruct; vunfold; apply vec_eq; ring.
  - cbn [map]. change (vsum (placeM M f cg t :: map (placeM M f cg) ts))
      with (vadd (placeM M f cg t) (vsum (map (placeM M f cg) ts))).
    rewrite IH. change (vsum (t :: ts)) with (vadd t (vsum ts)).
    rewrite mvmul_add. cbn [List.length]. rewrite S_INR. unfold placeM.
    destruct (mvmul M t) as [[? ?] ?], (mvmul M (vsum ts)) as [[? ?] ?].
    vdestruct; vunfold; apply vec_eq; ring.
Qed.

(* centre of geometry of the placed copies of a centred template is cg *)
Lemma centred M f cg ts : vsum ts = vzero ->
  vsum (map (placeM M f cg) ts) = vscale (INR (List.length ts)) cg.
Proof.
  intros H0. rewrite vsum_place, H0, mvmul_zero. vdestruct; vunfold; apply vec_eq; ring.
Qed.

(* ---- the lookup model: own name, own residue ----------------------------------- *)
Section Lookup.
  Variables (M : nat -> mat) (f : R).
  Let place (cg v : vec) := place_atom cg v f.
  Let rot (i : nat) (v : vec) := mvmul (M i) v.

  Lemma place_is_placeM i cg v : place cg (rot i v) = placeM (M i) f cg v.
  Proof. unfold place, rot, placeM. apply place_atom_affine. Qed.

  (* each written atom receives the vector keyed by its own name in the template handed
     to its own residue *)
  Lemma place_atoms_own_name i cg t atoms out :
    place_atoms place rot i cg t atoms = Some out ->
    Forall2 (fun an w => fst w = fst an /\
                         exists v, lookup t (snd an) = Some v /\ snd w = placeM (M i) f cg v)
            atoms out.
  Proof.
    revert out; induction atoms as [|[a n] r IH]; intros out H; cbn [place_atoms] in H.
    - injection H as <-. constructor.
    - destruct (lookup t n) as [v|] eqn:Hl; [|discriminate].
      destruct (place_atoms place rot i cg t r) as [o|] eqn:Hr; [|discriminate].
      injection H as <-. constructor.
      + cbn [fst snd]. split; [reflexivity|]. exists v. split; [exact Hl|apply place_is_placeM].
      + apply IH. reflexivity.
  Qed.

  Lemma lookup_in (t : list (string * vec)) n v : lookup t n = Some v -> In (n, v) t.
  Proof.
    induction t as [|[k w] r IH]; cbn [lookup]; [discriminate|].
    destruct (String.eqb k n) eqn:E; intros H.
    - apply String.eqb_eq in E. injection H as <-. subst. left; reflexivity.
    - right; auto.
  Qed.

  Lemma lookup_nodup (t : list (string * vec)) n v :
    NoDup (map fst t) -> In (n, v) t -> lookup t n = Some v.
  Proof.
    induction t as [|[k w] r IH]; cbn [map fst lookup]; intros ND HI; [destruct HI|].
    inversion ND as [|? ? Hnotin ND']; subst.
    destruct HI as [E|HI].
    - injection E as -> ->. rewrite String.eqb_refl. reflexivity.
    - destruct (String.eqb k n) eqn:E.
      + apply String.eqb_eq in E; subst. exfalso. apply Hnotin.
        change n with (fst (n, v)). apply in_map. exact HI.
      + apply IH; assumption.
  Qed.

  Lemma vadd_comm a b : vadd a b = vadd b a.
  Proof. vdestruct; vunfold; apply vec_eq; ring. Qed.
  Lemma vadd_assoc a b c : vadd a (vadd b c) = vadd (vadd a b) c.
  Proof. vdestruct; vunfold; apply vec_eq; ring. Qed.

  Lemma vsum_perm (l l' : list vec) : Permutation l l' -> vsum l = vsum l'.
  Proof.
    induction 1 as [|x l l' _ IH|x y l|l l' l'' _ IH1 _ IH2].
    - reflexivity.
    - change (vadd x (vsum l) = vadd x (vsum l')). rewrite IH. reflexivity.
    - change (vadd y (vadd x (vsum l)) = vadd x (vadd y (vsum l))).
      rewrite !vadd_assoc, (vadd_comm y x). reflexivity.
    - congruence.
  Qed.

  Lemma lookup_keys (t : list (string * vec)) :
    NoDup (map fst t) -> map (lookup t) (map fst t) = map (fun kv => Some (snd kv)) t.
  Proof.
    intros ND. rewrite map_map. apply map_ext_in. intros [k v] HI. cbn [fst snd].
    apply lookup_nodup; assumption.
  Qed.

  Lemma place_atoms_vectors i cg t atoms out :
    place_atoms place rot i cg t atoms = Some out ->
    exists vs, map Some vs = map (lookup t) (map snd atoms) /\
               map snd out = map (placeM (M i) f cg) vs /\ map fst out = map fst atoms.
  Proof.
    revert out; induction atoms as [|[a n] r IH]; intros out H; cbn [place_atoms] in H.
    - injection H as <-. exists []. repeat split.
    - destruct (lookup t n) as [v|] eqn:Hl; [|discriminate].
      destruct (place_atoms place rot i cg t r) as [o|] eqn:Hr; [|discriminate].
      injection H as <-. destruct (IH o eq_refl) as (vs & H1 & H2 & H3).
      exists (v :: vs). cbn [map fst snd]. rewrite Hl, H1, H2, H3, place_is_placeM. repeat split.
  Qed.

  Lemma map_Some_inj (A : Type) (l l' : list A) : map Some l = map Some l' -> l = l'.
  Proof.
    revert l'; induction l as [|x l IH]; intros [|y l'] H; try discriminate; [reflexivity|].
    cbn [map] in H. injection H as -> H. f_equal; auto.
  Qed.

  (* C06 "centre of geometry equals the residue position": atom names = template keys,
     each once; template centred; any rotation, any fudge *)
  Theorem residue_centred i cg t atoms out :
    NoDup (map fst t) -> Permutation (map snd atoms) (map fst t) ->
    vsum (map snd t) = vzero ->
    place_atoms place rot i cg t atoms = Some out ->
    vsum (map snd out) = vscale (INR (List.length out)) cg /\ List.length out = List.length atoms.
  Proof.
    intros ND HP H0 H. destruct (place_atoms_vectors _ _ _ _ _ H) as (vs & H1 & H2 & H3).
    assert (Hperm : Permutation vs (map snd t)).
    { apply (Permutation_map (lookup t)) in HP. rewrite lookup_keys in HP by exact ND.
      rewrite <- H1 in HP.
      replace (map (fun kv : string * vec => Some (snd kv)) t) with (map Some (map snd t)) in HP
        by (rewrite map_map; reflexivity).
      apply Permutation_sym in HP.
      destruct (Permutation_map_inv _ _ HP) as (l3 & E & HP3).
      apply map_Some_inj in E. subst l3. exact HP3. }
    assert (Hlen : List.length out = List.length vs).
    { rewrite <- (List.map_length snd out), H2, List.map_length. reflexivity. }
    split.
    - rewrite H2, Hlen. apply centred. rewrite (vsum_perm _ _ Hperm). exact H0.
    - rewrite <- (List.map_length fst out), H3, List.map_length. reflexivity.
  Qed.

  (* success is guaranteed when every atom name is a template key *)
  Lemma place_atoms_total i cg t atoms :
    (forall an, In an atoms -> exists v, lookup t (snd an) = Some v) ->
    exists out, place_atoms place rot i cg t atoms = Some out.
  Proof.
    induction atoms as [|[a n] r IH]; intros Hall; cbn [place_atoms].
    - eexists; reflexivity.
    - destruct (Hall (a, n) (or_introl eq_refl)) as (v & Hv). cbn [snd] in Hv. rewrite Hv.
      destruct IH as (o & Ho). { intros an Hin. apply Hall. right; exact Hin. }
      rewrite Ho. eexists; reflexivity.
  Qed.

  (* frame: residues flagged backmap = false cause no write at all *)
  Lemma backmap_skips_unflagged i (r : residue vec) rest :
    r_backmap r = false ->
    backmap_from place rot i (r :: rest) = backmap_from place rot (S i) rest.
  Proof. intros H. cbn [backmap_from]. rewrite H. reflexivity. Qed.

  Lemma backmap_writes_only_flagged i rs ws :
    backmap_from place rot i rs = Some ws ->
    forall a, In a (map fst ws) ->
      exists r, In r rs /\ r_backmap r = true /\ In a (map fst (r_atoms r)).
  Proof.
    revert i ws; induction rs as [|r rest IH]; intros i ws H a Ha; cbn [backmap_from] in H.
    - injection H as <-. destruct Ha.
    - destruct (r_backmap r) eqn:Hb.
      + destruct (place_atoms place rot i (r_cg r) (r_template r) (r_atoms r)) as [w|] eqn:Hw; [|discriminate].
        destruct (backmap_from place rot (S i) rest) as [ws'|] eqn:Hr; [|discriminate].
        injection H as <-. rewrite map_app, in_app_iff in Ha. destruct Ha as [Ha|Ha].
        * exists r. split; [left; reflexivity|]. split; [exact Hb|].
          destruct (place_atoms_vectors _ _ _ _ _ Hw) as (_ & _ & _ & H3). rewrite <- H3. exact Ha.
        * destruct (IH _ _ Hr a Ha) as (r' & Hin & Hb' & Ha'). exists r'. split; [right; exact Hin|]. auto.
      + destruct (IH _ _ H a Ha) as (r' & Hin & Hb' & Ha'). exists r'. split; [right; exact Hin|]. auto.
  Qed.

End Lookup.

Lemma rot_nonvacuous : exists M, orth M /\ mdet M = 1 /\ mvmul M (1, 0, 0) = (0, 1, 0).
Proof.
  exists ((0, -1, 0), (1, 0, 0), (0, 0, 1)).
  unfold orth. vunfold. repeat split; try lra. apply vec_eq; lra.
Qed.

(* and the translated rotation itself, at theta_z = 90 degrees, is that matrix *)
Lemma rot_nonvacuous_gen : rotate_xyz (cons (1,0,0) nil) 0 1 0 1 1 0 = cons (0,1,0) nil.
Proof. unfold rotate_xyz. cbv zeta. unfold mcols. cbn [map]. rewrite !mvmul_mmul. f_equal. vunfold. apply vec_eq; ring. Qed.
