(* C16/C05: real-number lemmas about the kernels translated from nonbond_engine.py
   (Gen_engine_R): Lennard-Jones force = minus gradient, minimum-image distance. *)
From Coq Require Import Reals Lra Lia ZArith List.
From Coquelicot Require Import Coquelicot.
From PV Require Import RNum Tproj Gen_engine_R.
Open Scope R_scope.

Lemma Int_part_spec x : IZR (Int_part x) <= x < IZR (Int_part x) + 1.
Proof. destruct (base_Int_part x) as [H1 H2]. lra. Qed.

Lemma Int_part_unique x (z : Z) : IZR z <= x < IZR z + 1 -> Int_part x = z.
Proof.
  intros [H1 H2]. destruct (Int_part_spec x) as [H3 H4].
  assert (IZR (Int_part x) < IZR z + 1) by lra. assert (IZR z < IZR (Int_part x) + 1) by lra.
  rewrite <- plus_IZR in *. apply lt_IZR in H, H0. lia.
Qed.

Lemma Int_part_add x (k : Z) : Int_part (x + IZR k) = (Int_part x + k)%Z.
Proof. apply Int_part_unique. rewrite plus_IZR. destruct (Int_part_spec x). lra. Qed.

Lemma nmod_range x L : 0 < L -> 0 <= nmod x L < L.
Proof.
  intros HL. unfold nmod, nfloor. destruct (Int_part_spec (x / L)) as [H1 H2].
  assert (x = L * (x / L)) by (field; lra). 
  split.
  - apply Rmult_le_compat_l with (r := L) in H1; lra.
  - apply Rmult_lt_compat_l with (r := L) in H2; lra.
Qed.

Lemma nmod_add x L k : L <> 0 -> nmod (x + IZR k * L) L = nmod x L.
Proof.
  intros HL. unfold nmod, nfloor. replace ((x + IZR k * L) / L) with (x / L + IZR k) by (field; exact HL).
  rewrite Int_part_add, plus_IZR. ring.
Qed.

Lemma nmod_le_nonneg x L : 0 < L -> 0 <= x -> nmod x L <= x.
Proof.
  intros HL Hx. unfold nmod, nfloor.
  assert (0 <= x / L) by (apply Rmult_le_pos; [lra|left; apply Rinv_0_lt_compat; lra]).
  assert (0 <= IZR (Int_part (x / L))).
  { destruct (Int_part_spec (x / L)) as [H1 H2].
    assert (-1 < IZR (Int_part (x / L))) by lra. change (-1) with (IZR (-1)) in H0.
    apply lt_IZR in H0. apply IZR_le. lia. }
  assert (0 <= L * IZR (Int_part (x / L))) by (apply Rmult_le_pos; lra). lra.
Qed.

Lemma min_image_comp x L : 0 < L -> 0 <= Rmin (nmod x L) (nmod (-x) L) <= Rabs x.
Proof.
  intros HL. pose proof (nmod_range x L HL). pose proof (nmod_range (-x) L HL). split.
  - apply Rmin_glb; lra.
  - destruct (Rle_dec 0 x) as [Hx|Hx].
    + rewrite Rabs_right by lra. eapply Rle_trans; [apply Rmin_l|]. apply nmod_le_nonneg; lra.
    + rewrite Rabs_left by lra. eapply Rle_trans; [apply Rmin_r|]. apply nmod_le_nonneg; lra.
Qed.

Definition LJ sig eps r := 4 * eps * ((sig / r)^12 - (sig / r)^6).
Definition F sig eps d := 24 * eps / d * (2 * (sig / d)^12 - (sig / d)^6).
Lemma lj_deriv sig eps d : 0 < d -> is_derive (LJ sig eps) d (- F sig eps d).
Proof.
  intros Hd. unfold LJ, F. auto_derive. lra. field. lra.
Qed.

(* ---- gen-dependent: the translated force ---- *)
Lemma lj_force_is_scaled_unit sig eps d p r : d <> 0 ->
  lj_force d p r (sig, eps) = vscale (F sig eps d) (vdivs (vsub p r) d).
Proof.
  intros Hd. unfold lj_force, F, tproj2_0, tproj2_1. cbv zeta. cbn [fst snd].
  destruct p as [[p0 p1] p2], r as [[r0 r1] r2]. vunfold. apply vec_eq; field; exact Hd.
Qed.

(* pair force on the point = -dV/dr along the unit vector from the neighbour to the point *)
Lemma lj_force_minus_gradient sig eps d p r : 0 < d ->
  lj_force d p r (sig, eps) = vscale (F sig eps d) (vdivs (vsub p r) d) /\
  is_derive (LJ sig eps) d (- F sig eps d).
Proof. intros Hd. split; [apply lj_force_is_scaled_unit; lra|apply lj_deriv; exact Hd]. Qed.

(* ---- gen-dependent: the translated minimum-image vector ---- *)
Lemma pbc_min_vec_components a b L :
  pbc_min_vec a b L =
  (Rmin (nmod (v0 a - v0 b) (v0 L)) (nmod (v0 b - v0 a) (v0 L)),
   Rmin (nmod (v1 a - v1 b) (v1 L)) (nmod (v1 b - v1 a) (v1 L)),
   Rmin (nmod (v2 a - v2 b) (v2 L)) (nmod (v2 b - v2 a) (v2 L))).
Proof. unfold pbc_min_vec. destruct a as [[? ?] ?], b as [[? ?] ?], L as [[? ?] ?]. vunfold. reflexivity. Qed.

Lemma nmod_eq x y : RNum.nmod x y = nmod x y.
Proof. reflexivity. Qed.

Lemma min_image_symmetric a b L : pbc_min_vec a b L = pbc_min_vec b a L.
Proof. rewrite !pbc_min_vec_components. apply vec_eq; apply Rmin_comm. Qed.

Definition shift (a : vec) (k : Z * Z * Z) (L : vec) : vec :=
  (v0 a + IZR (fst (fst k)) * v0 L, v1 a + IZR (snd (fst k)) * v1 L, v2 a + IZR (snd k) * v2 L).

Lemma min_image_periodic a b L k : v0 L <> 0 -> v1 L <> 0 -> v2 L <> 0 ->
  pbc_min_vec (shift a k L) b L = pbc_min_vec a b L.
Proof.
  intros H0 H1 H2. rewrite !pbc_min_vec_components. destruct k as [[k0 k1] k2]. unfold shift.
  destruct a as [[a0 a1] a2], b as [[b0 b1] b2], L as [[L0 L1] L2]. vunfold.
  apply vec_eq; f_equal.
  - replace (a0 + IZR k0 * L0 - b0) with (a0 - b0 + IZR k0 * L0) by ring. apply nmod_add; assumption.
  - replace (b0 - (a0 + IZR k0 * L0)) with (b0 - a0 + IZR (- k0) * L0) by (rewrite opp_IZR; ring). apply nmod_add; assumption.
  - replace (a1 + IZR k1 * L1 - b1) with (a1 - b1 + IZR k1 * L1) by ring. apply nmod_add; assumption.
  - replace (b1 - (a1 + IZR k1 * L1)) with (b1 - a1 + IZR (- k1) * L1) by (rewrite opp_IZR; ring). apply nmod_add; assumption.
  - replace (a2 + IZR k2 * L2 - b2) with (a2 - b2 + IZR k2 * L2) by ring. apply nmod_add; assumption.
  - replace (b2 - (a2 + IZR k2 * L2)) with (b2 - a2 + IZR (- k2) * L2) by (rewrite opp_IZR; ring). apply nmod_add; assumption.
Qed.

Lemma sq_le_abs u x : 0 <= u <= Rabs x -> u * u <= x * x.
Proof.
  intros [H1 H2]. replace (x * x) with (Rabs x * Rabs x).
  - apply Rmult_le_compat; lra.
  - destruct (Rle_dec 0 x); [rewrite Rabs_right by lra; ring|rewrite Rabs_left by lra; ring].
Qed.

Lemma min_image_le_direct a b L : 0 < v0 L -> 0 < v1 L -> 0 < v2 L ->
  pbc_min_norm (pbc_min_vec a b L) <= vnorm (vsub a b).
Proof.
  intros H0 H1 H2. unfold pbc_min_norm. rewrite pbc_min_vec_components.
  destruct a as [[a0 a1] a2], b as [[b0 b1] b2], L as [[L0 L1] L2]. vunfold.
  apply sqrt_le_1_alt.
  pose proof (min_image_comp (a0 - b0) L0 H0) as C0.
  pose proof (min_image_comp (a1 - b1) L1 H1) as C1.
  pose proof (min_image_comp (a2 - b2) L2 H2) as C2.
  replace (b0 - a0) with (- (a0 - b0)) by ring. replace (b1 - a1) with (- (a1 - b1)) by ring.
  replace (b2 - a2) with (- (a2 - b2)) by ring.
  apply sq_le_abs in C0, C1, C2. lra.
Qed.

(* the wrapped distance is a genuine periodic distance: nonnegative components below the box *)
Lemma min_image_in_box a b L : 0 < v0 L -> 0 < v1 L -> 0 < v2 L ->
  let m := pbc_min_vec a b L in
  0 <= v0 m < v0 L /\ 0 <= v1 m < v1 L /\ 0 <= v2 m < v2 L.
Proof.
  intros H0 H1 H2. cbv zeta. rewrite pbc_min_vec_components.
  destruct a as [[a0 a1] a2], b as [[b0 b1] b2], L as [[L0 L1] L2]. vunfold.
  pose proof (nmod_range (a0 - b0) L0 H0). pose proof (nmod_range (b0 - a0) L0 H0).
  pose proof (nmod_range (a1 - b1) L1 H1). pose proof (nmod_range (b1 - a1) L1 H1).
  pose proof (nmod_range (a2 - b2) L2 H2). pose proof (nmod_range (b2 - a2) L2 H2).
  repeat split; try (apply Rmin_glb; lra); (eapply Rle_lt_trans; [apply Rmin_l|lra]).
Qed.

From PV Require Import Gen_engine_consts.
Lemma gen_threshold_positive : (0 < tree_threshold)%Z.
Proof. vm_compute. reflexivity. Qed.
