(* C15: bookkeeping theorems over model/Templates.v *)
From Coq Require Import List Bool Arith Lia.
From PV Require Import Templates.
Import ListNotations.

Section Templates.
Variables (G H T V : Type).
Variable hash : G -> H.
Variable heqb : H -> H -> bool.
Hypothesis heqb_spec : forall a b, heqb a b = true <-> a = b.

Lemma lookup_app_some {A} k (l1 l2 : list (H * A)) x : lookup heqb k l1 = Some x -> lookup heqb k (l1 ++ l2) = Some x.
Proof.
  induction l1 as [|[k' v] r IH]; cbn [lookup app]; [discriminate|]. destruct (heqb k' k); [trivial|exact IH].
Qed.
Lemma lookup_app_none {A} k (l1 l2 : list (H * A)) : lookup heqb k l1 = None -> lookup heqb k (l1 ++ l2) = lookup heqb k l2.
Proof.
  induction l1 as [|[k' v] r IH]; cbn [lookup app]; [trivial|]. destruct (heqb k' k); [discriminate|exact IH].
Qed.
Lemma heqb_refl a : heqb a a = true. Proof. apply heqb_spec. reflexivity. Qed.

(* every residue is tagged with the hash of its own graph: residues whose graphs hash equally
   (isomorphic atom-name labelled graphs, by the contract of the hash) share key, template, size *)
Theorem group_tags residues : forall seen, snd (group hash heqb seen residues) = map hash residues.
Proof.
  induction residues as [|g r IH]; intros seen; cbn [group map]; [reflexivity|].
  destruct (group hash heqb _ r) as [s tags] eqn:E. cbn [snd]. f_equal.
  specialize (IH (match lookup heqb (hash g) seen with Some _ => seen | None => seen ++ [(hash g, Some g)] end)). rewrite E in IH. exact IH.
Qed.

Theorem iso_share_template g1 g2 residues seen i j :
  hash g1 = hash g2 -> nth_error residues i = Some g1 -> nth_error residues j = Some g2 ->
  nth_error (snd (group hash heqb seen residues)) i = nth_error (snd (group hash heqb seen residues)) j.
Proof.
  intros Hh Hi Hj. rewrite group_tags. rewrite (map_nth_error hash i residues Hi), (map_nth_error hash j residues Hj), Hh. reflexivity.
Qed.

Theorem different_hash_separate g1 g2 residues seen i j :
  hash g1 <> hash g2 -> nth_error residues i = Some g1 -> nth_error residues j = Some g2 ->
  nth_error (snd (group hash heqb seen residues)) i <> nth_error (snd (group hash heqb seen residues)) j.
Proof.
  intros Hh Hi Hj. rewrite group_tags. rewrite (map_nth_error hash i residues Hi), (map_nth_error hash j residues Hj). congruence.
Qed.

(* keys present beforehand (user templates) and first-seen graphs are never replaced *)
Theorem group_keeps_seen residues : forall seen h x,
  lookup heqb h seen = Some x -> lookup heqb h (fst (group hash heqb seen residues)) = Some x.
Proof.
  induction residues as [|g r IH]; intros seen h x Hl; cbn [group]; [exact Hl|].
  destruct (group hash heqb _ r) as [s tags] eqn:E. cbn [fst].
  specialize (IH (match lookup heqb (hash g) seen with Some _ => seen | None => seen ++ [(hash g, Some g)] end) h x).
  rewrite E in IH. cbn [fst] in IH. apply IH. destruct (lookup heqb (hash g) seen); [exact Hl|apply lookup_app_some; exact Hl].
Qed.

Theorem group_covers residues : forall seen g, In g residues -> lookup heqb (hash g) (fst (group hash heqb seen residues)) <> None.
Proof.
  induction residues as [|g0 r IH]; intros seen g Hin; [destruct Hin|]. cbn [group].
  destruct (group hash heqb _ r) as [s tags] eqn:E. cbn [fst].
  set (seen' := match lookup heqb (hash g0) seen with Some _ => seen | None => seen ++ [(hash g0, Some g0)] end) in *.
  destruct Hin as [-> | Hin].
  - assert (Hs : exists x, lookup heqb (hash g) seen' = Some x).
    { subst seen'. destruct (lookup heqb (hash g) seen) as [x|] eqn:El; [exists x; exact El|].
      exists (Some g). rewrite lookup_app_none by exact El. cbn [lookup]. rewrite heqb_refl. reflexivity. }
    destruct Hs as [x Hx]. pose proof (group_keeps_seen r seen' (hash g) x Hx) as Hk. rewrite E in Hk. cbn [fst] in Hk. congruence.
  - specialize (IH seen' g Hin). rewrite E in IH. exact IH.
Qed.

Variable generate : G -> T.
Variable compute_volume : G -> T -> V.
Variable resname : G -> nat.

(* templates supplied by the user are used unchanged, whatever would have been generated *)
Theorem user_templates_win graphs : forall user_t user_v vols h t,
  lookup heqb h user_t = Some t ->
  lookup heqb h (fst (gen_templates heqb generate compute_volume resname user_t user_v vols graphs)) = Some t.
Proof.
  induction graphs as [|[k og] r IH]; intros user_t user_v vols h t Hl; cbn [gen_templates]; [exact Hl|].
  destruct (lookup heqb k user_t) eqn:Ek; [apply IH; exact Hl|]. destruct og as [g|]; [|apply IH; exact Hl].
  apply IH. apply lookup_app_some. exact Hl.
Qed.

(* every key with a graph ends up with a template *)
Theorem every_key_has_template graphs : forall user_t user_v vols h g,
  In (h, Some g) graphs ->
  lookup heqb h (fst (gen_templates heqb generate compute_volume resname user_t user_v vols graphs)) <> None.
Proof.
  induction graphs as [|[k og] r IH]; intros user_t user_v vols h g Hin; [destruct Hin|]. cbn [gen_templates].
  destruct Hin as [E | Hin].
  - injection E as -> ->. destruct (lookup heqb h user_t) as [t|] eqn:Eh.
    + rewrite (user_templates_win r user_t user_v vols h t Eh). discriminate.
    + erewrite user_templates_win; [discriminate|]. rewrite lookup_app_none by exact Eh. cbn [lookup]. rewrite heqb_refl. reflexivity.
  - destruct (lookup heqb k user_t); [eapply IH; exact Hin|]. destruct og; eapply IH; exact Hin.
Qed.

Lemma vols_keep graphs : forall user_t user_v vols h v,
  lookup heqb h vols = Some v ->
  lookup heqb h (snd (gen_templates heqb generate compute_volume resname user_t user_v vols graphs)) = Some v.
Proof.
  induction graphs as [|[k og] r IH]; intros user_t user_v vols h v Hl; cbn [gen_templates]; [exact Hl|].
  destruct (lookup heqb k user_t); [apply IH; exact Hl|]. destruct og as [g|]; [|apply IH; exact Hl].
  apply IH. apply lookup_app_some. exact Hl.
Qed.

(* a size given by the user for the residue name is the size used, whatever would be computed;
   without one the computed size is used *)
Theorem user_volume_wins g user_t user_v vols r :
  lookup heqb (hash g) user_t = None -> lookup heqb (hash g) vols = None ->
  lookup heqb (hash g) (snd (gen_templates heqb generate compute_volume resname user_t user_v vols ((hash g, Some g) :: r))) =
  Some (match find (fun p => Nat.eqb (fst p) (resname g)) user_v with
        | Some p => snd p
        | None => compute_volume g (generate g)
        end).
Proof.
  intros Ht Hv. cbn [gen_templates]. rewrite Ht. apply vols_keep. rewrite lookup_app_none by exact Hv.
  cbn [lookup]. rewrite heqb_refl. reflexivity.
Qed.
End Templates.
