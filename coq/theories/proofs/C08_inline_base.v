(* C08: an unconditional #include of a file that holds only top-level tables (defaults, atom types, type tables, defines,
   nested includes, conditionals, [ system ] / [ molecules ] lists -- no molecule types) is read exactly as if its lines stood in place of
   the #include line: the fresh director the implementation starts for the file and the including director running over
   the same lines go through states that differ in the current-section register only, and the register is re-synchronised
   by the next section header.  (What "textually inlining" means for the model of TOPDirector, model/TopPre.v.) *)
From Coq Require Import String Ascii List Bool Arith Lia.
From PV Require Import TopPre Gen_top C08_top.
Import ListNotations.
Open Scope string_scope.

Definition set_sec (s : dstate) (sec : list string) : dstate :=
  {| d_sec := sec; d_meta := d_meta s; d_itp := d_itp s; d_itps := d_itps s; d_sh := d_sh s |}.

Definition rmap {A B} (f : A -> B) (r : result A) : result B := match r with Ok a => Ok (f a) | Err e => Err e end.

(* no molecule type was begun *)
Definition tbl (s : dstate) : Prop := d_itp s = None /\ d_itps s = [].

Lemma set_sec_id s : set_sec s (d_sec s) = s.
Proof. destruct s; reflexivity. Qed.
Lemma set_sec_twice s a b : set_sec (set_sec s a) b = set_sec s b.
Proof. reflexivity. Qed.
Lemma tbl_set_sec s sec : tbl s -> tbl (set_sec s sec).
Proof. exact (fun H => H). Qed.

Section Inline.
  Variable fs : string -> option (list string).
  Variable rd : string -> list string -> shared -> result shared.
  Let known := top_known_sections.

  (* a top-level section that keeps no molecule state *)
  Definition plain_name (h : string) : bool :=
    mem_sec [h] known && negb (String.eqb h "moleculetype").
  Definition plain_sec (sec : list string) : bool :=
    match sec with [] => true | [x] => plain_name x | _ => false end.
  Definition plain_hdr (line : string) : bool :=
    Ascii.eqb (last_char line " "%char) "]"%char && plain_name (section_name line).

  (* lines of a table-only file: every header opens a plain top-level section; a content line stands only where the
     section register is known to be synchronised (after a header of this file) *)
  Fixpoint tbl_lines (synced : bool) (ls : list string) : bool :=
    match ls with
    | [] => true
    | raw :: r =>
      let line := clean raw in
      if String.eqb line "" then tbl_lines synced r
      else if starts "#" line then tbl_lines synced r
      else if starts "*" line then tbl_lines synced r
      else if starts "[" line then plain_hdr line && tbl_lines true r
      else synced && tbl_lines synced r
    end.

  (* ---- the registered two-level sections all belong to molecule types ---- *)
  Lemma two_level_is_moltype x h : mem_sec [x; h] known = true -> x = "moleculetype".
  Proof.
    unfold known, top_known_sections, mem_sec. cbn [existsb slist_eqb].
    rewrite ?andb_false_r. cbn [orb].
    intros H.
    repeat match type of H with
           | (_ || _)%bool = true => apply orb_prop in H; destruct H as [H|H]
           end;
      try discriminate;
      apply andb_prop in H; destruct H as [H _]; apply String.eqb_eq in H; first [exact H|symmetry; exact H].
  Qed.

  Lemma plain_name_not_moltype h : plain_name h = true -> String.eqb h "moleculetype" = false.
  Proof. unfold plain_name. rewrite !andb_true_iff, !negb_true_iff. tauto. Qed.

  (* ---- a pragma or star line never looks at the section register ---- *)
  Ltac scrut :=
    repeat match goal with
           | |- context [match ?x with _ => _ end] => is_var x; destruct x
           | |- context [match fs ?f with _ => _ end] => destruct (fs f)
           | |- context [match rd ?a ?b ?c with _ => _ end] => destruct (rd a b c)
           end.

  Lemma pragma_sec_indep cwd s sec line :
    (starts "#" line = true \/ starts "*" line = true) ->
    do_line known fs rd cwd (set_sec s sec) line = rmap (fun t => set_sec t sec) (do_line known fs rd cwd s line).
  Proof.
    intros H. unfold do_line.
    change (itp_nonempty (set_sec s sec)) with (itp_nonempty s).
    change (d_meta (set_sec s sec)) with (d_meta s).
    change (active (set_sec s sec)) with (active s).
    change (d_sh (set_sec s sec)) with (d_sh s).
    destruct (starts "#" line) eqn:Eh.
    - generalize (itp_nonempty s) (active s) (d_meta s) (tokens line) (String.eqb line "#endif") (starts "#else" line)
                 (starts "#ifdef" line || starts "#ifndef" line).
      intros b1 b2 m toks b3 b4 b5.
      destruct b3; [destruct b1; [reflexivity|destruct m; reflexivity]|].
      destruct b4; [destruct b1; [reflexivity|destruct m as [[t c]|]; reflexivity]|].
      destruct b5; [destruct b1; [reflexivity|destruct m; [reflexivity|destruct toks as [|c [|t [|? ?]]]; reflexivity]]|].
      scrut; reflexivity.
    - destruct H as [H|H]; [discriminate|]. rewrite H. reflexivity.
  Qed.

  (* ---- and, outside molecule types, changes neither the register nor the molecule state ---- *)
  Lemma pragma_keeps_tbl cwd s line t :
    (starts "#" line = true \/ starts "*" line = true) -> tbl s ->
    do_line known fs rd cwd s line = Ok t -> tbl t /\ d_sec t = d_sec s.
  Proof.
    intros H (H1 & H2). unfold do_line.
    assert (Hn : itp_nonempty s = false) by (unfold itp_nonempty; rewrite H1; reflexivity).
    rewrite Hn.
    destruct (starts "#" line) eqn:Eh.
    - generalize (active s) (d_meta s) (tokens line) (String.eqb line "#endif") (starts "#else" line)
                 (starts "#ifdef" line || starts "#ifndef" line).
      intros b2 m toks b3 b4 b5 E.
      assert (K : forall u, (u = s \/ (exists m', u = with_meta s m') \/ (exists sh, u = with_sh s sh)) -> tbl u /\ d_sec u = d_sec s).
      { intros u [->|[(m' & ->)|(sh & ->)]]; repeat split; assumption. }
      destruct b3; [destruct m; [injection E as <-; apply K; right; left; eexists; reflexivity|discriminate]|].
      destruct b4; [destruct m as [[tg c]|]; [injection E as <-; apply K; right; left; eexists; reflexivity|discriminate]|].
      destruct b5; [destruct m; [discriminate|destruct toks as [|c [|tg [|? ?]]]; try discriminate; injection E as <-; apply K; right; left; eexists; reflexivity]|].
      revert E. scrut; intros E; try discriminate; injection E as <-; apply K;
        first [left; reflexivity|right; right; eexists; reflexivity].
    - destruct H as [H|H]; [discriminate|]. rewrite H. intros E. injection E as <-. repeat split; assumption.
  Qed.

  (* ---- a plain header sets the register to its own section whatever it was ---- *)
  Lemma settle_plain sec h : plain_sec sec = true -> plain_name h = true ->
    settle known (S (List.length sec)) (sec ++ [h]) = [h].
  Proof.
    intros Hs Hh. assert (Hk : mem_sec [h] known = true) by (unfold plain_name in Hh; rewrite !andb_true_iff in Hh; tauto).
    destruct sec as [|x [|y r]]; cbn [plain_sec] in Hs; try discriminate.
    - cbn [List.length app settle]. rewrite Hk. reflexivity.
    - cbn [List.length app settle].
      destruct (mem_sec [x; h] known) eqn:E.
      + apply two_level_is_moltype in E. subst x. apply plain_name_not_moltype in Hs. discriminate.
      + cbn [rev app]. rewrite Hk. reflexivity.
  Qed.

  Lemma header_sync cwd s sec line :
    tbl s -> plain_sec sec = true -> starts "#" line = false -> starts "*" line = false -> starts "[" line = true ->
    plain_hdr line = true ->
    do_line known fs rd cwd (set_sec s sec) line = Ok (set_sec s [section_name line]).
  Proof.
    intros (H1 & H2) Hsec Hh Hst Hbr Hp. unfold plain_hdr in Hp. apply andb_prop in Hp. destruct Hp as [Hl Hn].
    unfold do_line. rewrite Hh, Hst, Hbr, Hl. f_equal. unfold do_header.
    change (d_sec (set_sec s sec)) with sec. rewrite (settle_plain sec _ Hsec Hn).
    assert (Hm : slist_eqb [section_name line] ["moleculetype"] = false).
    { cbn [slist_eqb]. rewrite (plain_name_not_moltype _ Hn). reflexivity. }
    rewrite Hm. unfold set_sec. cbn [d_itp d_meta d_itps d_sh]. rewrite H1. reflexivity.
  Qed.

  (* ---- a content line of a plain section leaves register and molecule state alone ---- *)
  Lemma do_content_plain s line x :
    d_sec s = [x] -> String.eqb x "moleculetype" = false ->
    do_content known s line = Err ErrIO \/ do_content known s line = Ok s \/ exists sh, do_content known s line = Ok (with_sh s sh).
  Proof.
    intros Es H1. unfold do_content. rewrite Es. destruct (negb (mem_sec [x] known)); [left; reflexivity|].
    revert H1. generalize (tokens line). intros toks.
    scrut; intros H1; try discriminate;
      repeat match goal with |- context [if ?b then _ else _] => destruct b end;
      first [left; reflexivity | right; left; reflexivity | right; right; eexists; reflexivity].
  Qed.

End Inline.
