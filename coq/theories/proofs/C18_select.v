(* C18: selection theorems over model/Select.v *)
From Coq Require Import ZArith String Ascii List Bool Lia.
From PV Require Import Select.
Import ListNotations.
Open Scope Z_scope.

(* ---- build file ---- *)
Theorem applies_spec b name idx : applies b name idx = true <-> b_name b = name /\ b_lo b <= idx < b_hi b.
Proof.
  unfold applies, in_range. rewrite !andb_true_iff, String.eqb_eq, Z.leb_le, Z.ltb_lt. tauto.
Qed.
Theorem hits_spec o r : hits o r = true <-> n_resname r = o_resname o /\ o_start o <= n_resid r < o_stop o.
Proof. unfold hits, in_range. rewrite !andb_true_iff, String.eqb_eq, Z.leb_le, Z.ltb_lt. tauto. Qed.

Lemma tag_ident o r : n_resid (tag o r) = n_resid r /\ n_resname (tag o r) = n_resname r.
Proof. unfold tag. destruct (hits o r); [destruct (o_kw o)|]; split; reflexivity. Qed.
Lemma hits_tag o o' r : hits o (tag o' r) = hits o r.
Proof. unfold hits. destruct (tag_ident o' r) as [-> ->]. reflexivity. Qed.

Definition is_kw (k : kw) (o : directive) : bool := kw_eqb (o_kw o) k.

Lemma fold_tag ds : forall r,
  let r' := fold_left (fun r o => tag o r) ds r in
  n_resid r' = n_resid r /\ n_resname r' = n_resname r /\
  n_restraints r' = (n_restraints r ++ map o_id (filter (fun o => is_kw Restraint o && hits o r) ds))%list /\
  n_rw r' = (n_rw r ++ map o_id (filter (fun o => is_kw RwOption o && hits o r) ds))%list.
Proof.
  induction ds as [|o ds IH]; intros r; cbn [fold_left filter map].
  - rewrite !app_nil_r. repeat split.
  - specialize (IH (tag o r)). cbv zeta in IH. destruct IH as (H1 & H2 & H3 & H4). destruct (tag_ident o r) as [E1 E2].
    cbv zeta. rewrite H1, H2, H3, H4, E1, E2. split; [reflexivity|]. split; [reflexivity|].
    assert (Hf : forall k, filter (fun o0 => is_kw k o0 && hits o0 (tag o r)) ds = filter (fun o0 => is_kw k o0 && hits o0 r) ds).
    { intros k. apply filter_ext. intros x. rewrite hits_tag. reflexivity. }
    rewrite !Hf. unfold tag, is_kw. destruct (hits o r) eqn:Eh; [destruct (o_kw o) eqn:Ek|]; cbn [kw_eqb andb n_restraints n_rw map];
      rewrite ?andb_false_r; cbn [map]; rewrite <- ?app_assoc; split; reflexivity.
Qed.

(* a residue carries exactly the directives of the blocks naming its molecule (name and index
   in the half-open range) that name the residue (name and id in the half-open range), in file
   order; nothing else changes *)
Theorem tag_exact blocks name idx nodes k r :
  nth_error nodes k = Some r ->
  exists r', nth_error (tag_molecule blocks name idx nodes) k = Some r' /\
    n_resid r' = n_resid r /\ n_resname r' = n_resname r /\
    n_restraints r' = (n_restraints r ++ map o_id (filter (fun o => is_kw Restraint o && hits o r) (directives_for blocks name idx)))%list /\
    n_rw r' = (n_rw r ++ map o_id (filter (fun o => is_kw RwOption o && hits o r) (directives_for blocks name idx)))%list.
Proof.
  intros H. unfold tag_molecule. rewrite (map_nth_error _ k nodes H). eexists. split; [reflexivity|]. apply fold_tag.
Qed.

Theorem directives_for_spec blocks name idx o :
  In o (directives_for blocks name idx) <-> exists b, In b blocks /\ b_name b = name /\ b_lo b <= idx < b_hi b /\ In o (b_opts b).
Proof.
  unfold directives_for. rewrite in_flat_map. split.
  - intros (b & Hb & Ho). destruct (applies b name idx) eqn:E; [|destruct Ho]. apply applies_spec in E. exists b. tauto.
  - intros (b & Hb & H1 & H2 & Ho). exists b. split; [exact Hb|]. assert (E : applies b name idx = true) by (apply applies_spec; tauto). rewrite E. exact Ho.
Qed.

Theorem untouched_molecule blocks name idx nodes :
  (forall b, In b blocks -> applies b name idx = false) -> tag_molecule blocks name idx nodes = nodes.
Proof.
  intros H. unfold tag_molecule. assert (E : directives_for blocks name idx = []).
  { unfold directives_for. induction blocks as [|b r IH]; [reflexivity|]. cbn [flat_map]. rewrite (H b (or_introl eq_refl)). apply IH.
    intros b' Hb'. apply H. right. exact Hb'. }
  rewrite E. cbn [fold_left]. apply map_id.
Qed.

Lemma enum_from_spec {A} (l : list A) : forall k i x, nth_error l i = Some x -> nth_error (enum_from k l) i = Some (k + Z.of_nat i, x).
Proof.
  induction l as [|y r IH]; intros k i x H; destruct i as [|i]; cbn [nth_error enum_from] in *; try discriminate.
  - injection H as ->. rewrite Z.add_0_r. reflexivity.
  - rewrite (IH (k + 1) i x H). f_equal. f_equal. lia.
Qed.

Theorem apply_build_spec blocks mols i name nodes :
  nth_error mols i = Some (name, nodes) ->
  nth_error (apply_build blocks mols) i = Some (name, tag_molecule blocks name (Z.of_nat i) nodes) /\
  List.length (apply_build blocks mols) = List.length mols.
Proof.
  intros H. unfold apply_build. split.
  - rewrite (map_nth_error _ i _ (enum_from_spec mols 0 i _ H)). reflexivity.
  - rewrite map_length. clear. generalize 0. induction mols as [|x r IH]; intros k; [reflexivity|]. cbn. rewrite IH. reflexivity.
Qed.

(* ---- residue specifications ---- *)
Fixpoint has (c : ascii) (s : string) : bool := match s with EmptyString => false | String a r => Ascii.eqb a c || has c r end.

Lemma split1_none c s : has c s = false -> split1 c s = (s, None).
Proof.
  induction s as [|a r IH]; cbn [has split1]; [reflexivity|]. intros H. apply orb_false_iff in H. destruct H as [H1 H2].
  rewrite H1, (IH H2). reflexivity.
Qed.
Lemma split1_app c s t : has c s = false -> split1 c (s ++ String c t) = (s, Some t).
Proof.
  induction s as [|a r IH]; cbn [has split1 append].
  - intros _. rewrite Ascii.eqb_refl. reflexivity.
  - intros H. apply orb_false_iff in H. destruct H as [H1 H2]. rewrite H1, (IH H2). reflexivity.
Qed.
Lemma has_app c s t : has c (s ++ t) = has c s || has c t.
Proof. induction s as [|a r IH]; cbn [has append]; [reflexivity|]. rewrite IH, orb_assoc. reflexivity. Qed.

Lemma append_nil_r_local s : (s ++ "")%string = s.
Proof. induction s as [|a r IH]; cbn; [reflexivity|]. rewrite IH. reflexivity. Qed.
Lemma append_assoc_local a b c : ((a ++ b) ++ c)%string = (a ++ (b ++ c))%string.
Proof. induction a as [|x r IH]; cbn; [reflexivity|]. rewrite IH. reflexivity. Qed.

Definition plainname (s : string) : Prop := has "-" s = false /\ has "#" s = false.

(* a specification is read back as exactly the fields written; omitted fields are absent *)
Theorem parse_render molname molidx res :
  plainname molname -> (forall i, molidx = Some i -> plainname i) ->
  (forall rn rid, res = Some (rn, rid) -> plainname rn /\ rn <> EmptyString /\ forall i, rid = Some i -> plainname i) ->
  parse_spec (render_spec molname molidx res) =
  {| s_molname := nonempty molname; s_molidx := molidx;
     s_resname := match res with Some (rn, _) => Some rn | None => None end;
     s_resid := match res with Some (_, rid) => rid | None => None end |}.
Proof.
  intros [Hm1 Hm2] Hi Hr. unfold parse_spec, render_spec.
  set (molpart := (molname ++ match molidx with Some i => "#" ++ i | None => "" end)%string).
  assert (Hmp : has "-" molpart = false).
  { subst molpart. rewrite has_app, Hm1. destruct molidx as [i|]; [|reflexivity]. destruct (Hi i eq_refl) as [Hi1 _]. cbn. exact Hi1. }
  assert (Hsp : split1 "#" molpart = (molname, molidx)).
  { subst molpart. destruct molidx as [i|].
    - change ("#" ++ i)%string with (String "#" i). apply split1_app. exact Hm2.
    - rewrite append_nil_r_local. apply split1_none. exact Hm2. }
  destruct res as [[rn rid]|].
  - destruct (Hr rn rid eq_refl) as ([Hr1 Hr2] & Hne & Hrid).
    replace (molname ++ match molidx with Some i => "#" ++ i | None => "" end ++ "-" ++ rn ++ match rid with Some i => "#" ++ i | None => "" end)%string
      with (molpart ++ String "-" (rn ++ match rid with Some i => "#" ++ i | None => "" end))%string
      by (subst molpart; rewrite <- append_assoc_local; reflexivity).
    rewrite (split1_app "-" molpart _ Hmp), Hsp.
    assert (Hsr : split1 "#" (rn ++ match rid with Some i => "#" ++ i | None => "" end)%string = (rn, rid)).
    { destruct rid as [i|]; [change ("#" ++ i)%string with (String "#" i); apply split1_app; exact Hr2|rewrite append_nil_r_local; apply split1_none; exact Hr2]. }
    rewrite Hsr. destruct rn; [contradiction|reflexivity].
  - replace (molname ++ match molidx with Some i => "#" ++ i | None => "" end ++ "")%string with molpart
      by (subst molpart; rewrite append_nil_r_local; reflexivity).
    rewrite (split1_none "-" molpart Hmp), Hsp. reflexivity.
Qed.

(* ---- node lookup ---- *)
Theorem find_nodes_spec resname resid nodes k :
  In k (find_nodes resname resid nodes) <->
  exists r, In (k, r) nodes /\ (forall n, resname = Some n -> n_resname r = n) /\ (forall i, resid = Some i -> n_resid r = i).
Proof.
  unfold find_nodes. rewrite in_map_iff. split.
  - intros ([k' r] & E & Hin). cbn in E. subst k'. apply filter_In in Hin. destruct Hin as [Hin Hm]. exists r. split; [exact Hin|].
    unfold node_matches in Hm. cbn [snd] in Hm. apply andb_true_iff in Hm. destruct Hm as [H1 H2]. split.
    + intros n ->. apply String.eqb_eq. exact H1.
    + intros i ->. apply Z.eqb_eq. exact H2.
  - intros (r & Hin & H1 & H2). exists (k, r). split; [reflexivity|]. apply filter_In. split; [exact Hin|]. unfold node_matches. cbn [snd].
    apply andb_true_iff. split.
    + destruct resname as [n|]; [apply String.eqb_eq, H1; reflexivity|reflexivity].
    + destruct resid as [i|]; [apply Z.eqb_eq, H2; reflexivity|reflexivity].
Qed.

Theorem start_is_first_match resname resid nodes k :
  start_node resname resid nodes = Some k -> In k (find_nodes resname resid nodes) /\
  exists pre post r, nodes = (pre ++ (k, r) :: post)%list /\ Forall (fun p => node_matches resname resid (snd p) = false) pre.
Proof.
  unfold start_node, find_nodes. induction nodes as [|[k' r'] rest IH]; cbn [filter map hd_error]; [discriminate|].
  destruct (node_matches resname resid (snd (k', r'))) eqn:E; cbn [map hd_error].
  - intros H. injection H as <-. split; [left; reflexivity|]. exists [], rest, r'. split; [reflexivity|constructor].
  - intros H. destruct (IH H) as (Hin & pre & post & r & Eq & Hall). split; [exact Hin|]. exists ((k', r') :: pre), post, r.
    split; [rewrite Eq; reflexivity|constructor; assumption].
Qed.

(* ---- splitting ---- *)
Theorem split_keeps_atoms max_resid resname news atoms :
  map a_id (split_atoms max_resid resname news atoms) = map a_id atoms /\
  map a_name (split_atoms max_resid resname news atoms) = map a_name atoms.
Proof.
  unfold split_atoms. rewrite !map_map. split; apply map_ext; intros a; unfold relabel; destruct (new_name resname news a); reflexivity.
Qed.

Theorem split_relabel_spec max_resid resname news a :
  (a_resname a <> resname -> relabel max_resid resname news a = a) /\
  (a_resname a = resname -> (forall nw, In nw news -> ~ In (a_name a) (snd nw)) -> relabel max_resid resname news a = a) /\
  (forall n, new_name resname news a = Some n ->
     a_resname (relabel max_resid resname news a) = n /\ a_resid (relabel max_resid resname news a) = a_resid a + max_resid /\
     exists names, In (n, names) news /\ In (a_name a) names).
Proof.
  unfold relabel, new_name. split; [|split].
  - intros H. destruct (String.eqb_spec (a_resname a) resname); [contradiction|reflexivity].
  - intros _ Hnot. destruct (String.eqb (a_resname a) resname); [|reflexivity].
    destruct (find _ news) as [nw|] eqn:E; [|reflexivity]. apply find_some in E. destruct E as [Hin Hex].
    apply existsb_exists in Hex. destruct Hex as (x & Hx & Ex). apply String.eqb_eq in Ex. subst x. exfalso. exact (Hnot nw Hin Hx).
  - intros n H. destruct (String.eqb (a_resname a) resname); [|discriminate].
    destruct (find _ news) as [nw|] eqn:E; [|discriminate]. injection H as <-. cbn. repeat split.
    apply find_some in E. destruct E as [Hin Hex]. apply existsb_exists in Hex. destruct Hex as (x & Hx & Ex). apply String.eqb_eq in Ex. subst x.
    exists (snd nw). split; [destruct nw; exact Hin|exact Hx].
Qed.

(* ---- ligands ---- *)
Lemma detach_attach next ligs : detach (attach next ligs) = [].
Proof. revert next. induction ligs as [|l r IH]; intros next; cbn [attach detach filter m_ligated]; [reflexivity|]. apply IH. Qed.

Theorem ligand_roundtrip nodes next ligs :
  Forall (fun n => m_ligated n = None) nodes -> detach (with_ligands nodes next ligs) = nodes.
Proof.
  intros H. unfold with_ligands, detach. rewrite filter_app. fold (detach (attach next ligs)). rewrite detach_attach, app_nil_r.
  induction nodes as [|n r IH]; [reflexivity|]. inversion H as [|? ? Hn Hr]; subst. cbn [filter]. rewrite Hn. f_equal. apply IH. exact Hr.
Qed.

Theorem attach_keys next ligs k : In k (map m_key (attach next ligs)) <-> (next <= k < next + List.length ligs)%nat.
Proof.
  revert next. induction ligs as [|l r IH]; intros next; cbn [attach map In List.length m_key]; [split; [intros []|lia]|]. rewrite IH. lia.
Qed.

Example ex_select :
  apply_build [{| b_name := "A"; b_lo := 1; b_hi := 3; b_opts := [{| o_kw := Restraint; o_resname := "R"; o_start := 2; o_stop := 4; o_id := 7%nat |}] |}]
              [("A", [{| n_resid := 2; n_resname := "R"; n_restraints := []; n_rw := [] |}]);
               ("A", [{| n_resid := 2; n_resname := "R"; n_restraints := []; n_rw := [] |}; {| n_resid := 4; n_resname := "R"; n_restraints := []; n_rw := [] |}]);
               ("B", [{| n_resid := 2; n_resname := "R"; n_restraints := []; n_rw := [] |}])]%string
  = [("A", [{| n_resid := 2; n_resname := "R"; n_restraints := []; n_rw := [] |}]);
     ("A", [{| n_resid := 2; n_resname := "R"; n_restraints := [7%nat]; n_rw := [] |}; {| n_resid := 4; n_resname := "R"; n_restraints := []; n_rw := [] |}]);
     ("B", [{| n_resid := 2; n_resname := "R"; n_restraints := []; n_rw := [] |}])]%string.
Proof. vm_compute. reflexivity. Qed.
