(* C15: virtual-site constructions (translated from virtual_site_builder.py), centring of
   templates, optimisation verdict (translated penalties and constants), size positivity. *)
From Coq Require Import Reals Lra Psatz List ZArith String.
From PV Require Import RNum Gen_vsites_R Gen_minimizer_R Gen_minimizer_consts.
Import ListNotations.
Open Scope R_scope.

(* ---- GROMACS manual (virtual interaction sites), written independently ---- *)
Definition d (a b : vec) : vec := vsub b a.                      (* r_ab = r_b - r_a *)
Definition gmx_2 ri rj a := vadd (vscale (1 - a) ri) (vscale a rj).
Definition gmx_3 ri rj rk a b := vadd (vadd (vscale (1 - a - b) ri) (vscale a rj)) (vscale b rk).
Definition gmx_3fd ri rj rk a b :=
  let v := vadd (d ri rj) (vscale a (d rj rk)) in vadd ri (vscale (b / vnorm v) v).
Definition gmx_3fad ri rj rk dd cos_t sin_t :=
  let rij := d ri rj in let rjk := d rj rk in
  let rperp := vsub rjk (vscale (vdot rij rjk / vdot rij rij) rij) in
  vadd (vadd ri (vscale (dd * cos_t / vnorm rij) rij)) (vscale (dd * sin_t / vnorm rperp) rperp).
Definition gmx_3out ri rj rk a b c :=
  vadd (vadd (vadd ri (vscale a (d ri rj))) (vscale b (d ri rk))) (vscale c (vcross (d ri rj) (d ri rk))).
Definition gmx_4fdn ri rj rk rl a b c :=
  let rja := vsub (vscale a (d ri rk)) (d ri rj) in
  let rjb := vsub (vscale b (d ri rl)) (d ri rj) in
  let rm := vcross rja rjb in vadd ri (vscale (c / vnorm rm) rm).

Ltac vec3 := unfold num in *; vunfold; cbn [fst snd]; apply vec_eq.

Theorem vs3fd_is_gromacs ri rj rk a b : vnorm (vadd (d ri rj) (vscale a (d rj rk))) <> 0 ->
  vs3fd ri rj rk a b = gmx_3fd ri rj rk a b.
Proof.
  intros Hn. unfold vs3fd, gmx_3fd, d in *. cbv zeta. set (v := vadd (vsub rj ri) (vscale a (vsub rk rj))) in *. set (n := vnorm v) in *.
  clearbody n. clearbody v. destruct ri as [[x0 x1] x2], v as [[y0 y1] y2]. vec3; field; exact Hn.
Qed.

Theorem vs3out_is_gromacs ri rj rk a b c : vs3out ri rj rk a b c = gmx_3out ri rj rk a b c.
Proof. unfold vs3out, gmx_3out, d. cbv zeta. reflexivity. Qed.

Theorem vs4fdn_is_gromacs ri rj rk rl a b c :
  vnorm (vcross (vsub (vscale a (d ri rk)) (d ri rj)) (vsub (vscale b (d ri rl)) (d ri rj))) <> 0 ->
  vs4fdn ri rj rk rl a b c = gmx_4fdn ri rj rk rl a b c.
Proof.
  intros Hn. unfold vs4fdn, gmx_4fdn, d in *. cbv zeta. set (rm := vcross _ _) in *. set (n := vnorm rm) in *. clearbody n. clearbody rm.
  destruct ri as [[x0 x1] x2], rm as [[m0 m1] m2]. vec3; field; exact Hn.
Qed.

Theorem vs3fad_is_gromacs ri rj rk dd ct st :
  vnorm (d ri rj) <> 0 -> vdot (d ri rj) (d ri rj) <> 0 ->
  vnorm (vsub (d rj rk) (vscale (vdot (d ri rj) (d rj rk) / vdot (d ri rj) (d ri rj)) (d ri rj))) <> 0 ->
  vs3fad ri rj rk dd ct st = gmx_3fad ri rj rk dd ct st.
Proof.
  intros H1 H2 H3. unfold vs3fad, gmx_3fad. cbv zeta. unfold d in *.
  set (rij := vsub rj ri) in *. set (rjk := vsub rk rj) in *.
  assert (E : vsub rjk (vdivs (vscale_r rij (vdot rij rjk)) (vdot rij rij)) = vsub rjk (vscale (vdot rij rjk / vdot rij rij) rij)).
  { clearbody rij rjk. set (p := vdot rij rjk) in *. set (q := vdot rij rij) in *. clearbody p q.
    destruct rij as [[a0 a1] a2], rjk as [[b0 b1] b2]. vec3; field; exact H2. }
  rewrite E. clear E. set (rp := vsub rjk _) in *. set (n1 := vnorm rij) in *. set (n2 := vnorm rp) in *. clearbody n1 n2 rp. clearbody rij.
  destruct ri as [[x0 x1] x2], rij as [[a0 a1] a2], rp as [[p0 p1] p2]. vec3; field; split; assumption.
Qed.

(* constructions depend on the defining atoms only through differences: moving the residue
   moves the site with it (templates are stored relative to their centre) *)
Lemma vsub_shift a b t : vsub (vadd a t) (vadd b t) = vsub a b.
Proof. destruct a as [[a0 a1] a2], b as [[b0 b1] b2], t as [[t0 t1] t2]. vec3; ring. Qed.
Lemma vadd_shift a x t : vadd (vadd a t) x = vadd (vadd a x) t.
Proof. destruct a as [[a0 a1] a2], x as [[b0 b1] b2], t as [[t0 t1] t2]. vec3; ring. Qed.

Theorem vs3fd_translation ri rj rk a b t : vs3fd (vadd ri t) (vadd rj t) (vadd rk t) a b = vadd (vs3fd ri rj rk a b) t.
Proof. unfold vs3fd. cbv zeta. rewrite !vsub_shift. apply vadd_shift. Qed.
Theorem vs3out_translation ri rj rk a b c t : vs3out (vadd ri t) (vadd rj t) (vadd rk t) a b c = vadd (vs3out ri rj rk a b c) t.
Proof. unfold vs3out. cbv zeta. rewrite !vsub_shift. rewrite !(fun a x => vadd_shift a x t). reflexivity. Qed.
Theorem vs4fdn_translation ri rj rk rl a b c t :
  vs4fdn (vadd ri t) (vadd rj t) (vadd rk t) (vadd rl t) a b c = vadd (vs4fdn ri rj rk rl a b c) t.
Proof. unfold vs4fdn. cbv zeta. rewrite !vsub_shift. apply vadd_shift. Qed.
Theorem vs3fad_translation ri rj rk dd ct st t :
  vs3fad (vadd ri t) (vadd rj t) (vadd rk t) dd ct st = vadd (vs3fad ri rj rk dd ct st) t.
Proof. unfold vs3fad. cbv zeta. rewrite !vsub_shift. rewrite !(fun a x => vadd_shift a x t). reflexivity. Qed.

(* the weighted-average sites (virtual_sites2, virtual_sites3, virtual_sitesn as the code
   builds them: np.average with weights) *)
Definition wavg (ws : list R) (xs : list vec) : vec :=
  vscale (/ fold_right Rplus 0 ws) (vsum (map (fun p => vscale (fst p) (snd p)) (combine ws xs))).
Theorem wavg2_is_gromacs ri rj a : wavg [1 - a; a] [ri; rj] = gmx_2 ri rj a.
Proof. unfold wavg, gmx_2. cbn. destruct ri as [[x0 x1] x2], rj as [[y0 y1] y2]. vec3; field; lra. Qed.
Theorem wavg3_is_gromacs ri rj rk a b : wavg [1 - a - b; a; b] [ri; rj; rk] = gmx_3 ri rj rk a b.
Proof. unfold wavg, gmx_3. cbn. destruct ri as [[x0 x1] x2], rj as [[y0 y1] y2], rk as [[z0 z1] z2]. vec3; field; lra. Qed.

(* virtual_sitesn function 2 is GROMACS' centre of mass; the code uses equal weights for
   functions 1, 2 and 3: with unequal masses the constructed point differs (F9) *)
Theorem vsn_com_refuted : exists (m1 m2 : R) (x1 x2 : vec), 0 < m1 /\ 0 < m2 /\ wavg [1; 1] [x1; x2] <> wavg [m1; m2] [x1; x2].
Proof.
  exists 1, 3, (0, 0, 0), (4, 0, 0). repeat split; try lra. unfold wavg. cbn. vunfold. cbn [fst snd]. intros E.
  injection E as E0 _ _. lra.
Qed.

(* ---- templates are stored relative to their centre of geometry ---- *)
Definition mean (l : list vec) : vec := vscale (/ INR (List.length l)) (vsum l).
Definition centre (l : list vec) : list vec := map (fun x => vsub x (mean l)) l.

Lemma vsum_sub_const l c : vsum (map (fun x => vsub x c) l) = vsub (vsum l) (vscale (INR (List.length l)) c).
Proof.
  induction l as [|x r IH]; [cbn; vec3; ring|]. cbn [map vsum fold_right List.length]. fold (vsum (map (fun x => vsub x c) r)). rewrite IH.
  rewrite S_INR. fold (vsum r). destruct x as [[x0 x1] x2], c as [[c0 c1] c2], (vsum r) as [[s0 s1] s2]. vec3; ring.
Qed.

Theorem template_centred l : l <> [] -> vsum (centre l) = vzero.
Proof.
  intros Hne. unfold centre. rewrite vsum_sub_const. unfold mean. set (n := INR (List.length l)).
  assert (Hn : n <> 0) by (subst n; destruct l; [contradiction|cbn [List.length]; rewrite S_INR; pose proof (pos_INR (List.length l)); lra]).
  destruct (vsum l) as [[s0 s1] s2]. vec3; field; exact Hn.
Qed.

Theorem centre_length l : List.length (centre l) = List.length l.
Proof. unfold centre. apply map_length. Qed.

(* ---- optimisation verdict ---- *)
(* the code fails a template iff some penalty > W * tol^2; a penalty is W * (x - ref)^2 (translated);
   so a template that is not failed has every |x - ref| <= tol *)
Theorem verdict_sound w tol x ref : 0 < w -> 0 <= tol ->
  ~ (w * ((x - ref) * (x - ref)) > w * (tol * tol)) -> Rabs (x - ref) <= tol.
Proof.
  intros Hw Ht Hn. apply Rnot_gt_le in Hn. assert (H2 : (x - ref) * (x - ref) <= tol * tol) by nra.
  apply Rabs_le. split; nra.
Qed.

Theorem bond_within_tol c0 c1 w ref tol : 0 < w -> 0 <= tol ->
  ~ (compute_bond c0 c1 w ref > w * (tol * tol)) -> Rabs (vnorm (vsub c0 c1) - ref) <= tol.
Proof. intros Hw Ht H. unfold compute_bond in H. cbv zeta in H. apply (verdict_sound w); assumption. Qed.

Theorem angle_within_tol ang w ref tol : 0 < w -> 0 <= tol ->
  ~ (compute_angle ang w ref > w * (tol * tol)) -> Rabs (ang - ref) <= tol.
Proof. intros Hw Ht H. unfold compute_angle in H. cbv zeta in H. apply (verdict_sound w); assumption. Qed.

(* the constants of the source: all weights positive, tolerances 0.05 nm / 5 degrees *)
Lemma gen_weights : WEIGHTS = [("bonds", (10000, 1)); ("angles", (1, 1)); ("constraints", (10000, 1)); ("dihedrals", (1, 1))]%string%Z.
Proof. reflexivity. Qed.
Lemma gen_tolerance : TOLERANCE = [("angles", (5, 1)); ("dihedrals", (5, 1)); ("bonds", (1, 20)); ("constraints", (1, 20))]%string%Z.
Proof. reflexivity. Qed.
Lemma gen_verdict : verdict_fail_test = "penalty > WEIGHTS[inter_type] * tolerance[inter_type] ** 2.0"%string /\
                    verdict_fail_test_final = "return (True, coords)"%string.
Proof. split; reflexivity. Qed.

(* ---- size: radius of gyration as the code computes it ---- *)
Definition sqdist (a b : vec) : R := vdot (vsub a b) (vsub a b).
Definition pair_sum (l : list vec) : R := fold_right Rplus 0 (map (fun i => fold_right Rplus 0 (map (fun j => sqdist i j) l)) l).
Definition rg (l : list vec) : R := sqrt (1 / (2 * (INR (List.length l) * INR (List.length l))) * pair_sum l).

Lemma sqdist_nonneg a b : 0 <= sqdist a b.
Proof. unfold sqdist, vdot. nra. Qed.
Lemma sqdist_zero a b : sqdist a b = 0 -> a = b.
Proof.
  destruct a as [[a0 a1] a2], b as [[b0 b1] b2]. unfold sqdist, vdot, vsub, v0, v1, v2. cbn [fst snd]. intros H.
  pose proof (Rle_0_sqr (a0 - b0)) as Hs0. pose proof (Rle_0_sqr (a1 - b1)) as Hs1. pose proof (Rle_0_sqr (a2 - b2)) as Hs2. unfold Rsqr in Hs0, Hs1, Hs2.
  assert (Ha : (a0 - b0) * (a0 - b0) = 0) by lra. assert (Hb : (a1 - b1) * (a1 - b1) = 0) by lra. assert (Hc : (a2 - b2) * (a2 - b2) = 0) by lra.
  apply Rmult_integral in Ha. apply Rmult_integral in Hb. apply Rmult_integral in Hc. f_equal; [f_equal|]; lra.
Qed.
Lemma sum_nonneg (f : vec -> R) l : (forall x, 0 <= f x) -> 0 <= fold_right Rplus 0 (map f l).
Proof. intros H. induction l as [|x r IH]; cbn; [lra|]. specialize (H x). lra. Qed.
Lemma sum_pos (f : vec -> R) l x : (forall y, 0 <= f y) -> In x l -> 0 < f x -> 0 < fold_right Rplus 0 (map f l).
Proof.
  intros Hn Hin Hx. induction l as [|y r IH]; [destruct Hin|]. cbn. pose proof (sum_nonneg f r Hn). destruct Hin as [-> | Hin]; [lra|].
  specialize (IH Hin). specialize (Hn y). lra.
Qed.

(* a residue with two atoms at different places has a positive size *)
Theorem rg_positive l a b : In a l -> In b l -> a <> b -> 0 < rg l.
Proof.
  intros Ha Hb Hne. unfold rg. apply sqrt_lt_R0.
  assert (Hlen : 0 < INR (List.length l)) by (destruct l; [destruct Ha|cbn [List.length]; rewrite S_INR; pose proof (pos_INR (List.length l)); lra]).
  apply Rmult_lt_0_compat; [apply Rdiv_lt_0_compat; [lra|nra]|].
  unfold pair_sum. apply (sum_pos (fun i => fold_right Rplus 0 (map (fun j => sqdist i j) l)) l a).
  - intros y. apply sum_nonneg. intros x. apply sqdist_nonneg.
  - exact Ha.
  - apply (sum_pos (fun j => sqdist a j) l b); [intros y; apply sqdist_nonneg|exact Hb|].
    destruct (Rle_lt_or_eq_dec 0 (sqdist a b) (sqdist_nonneg a b)) as [Hlt | Heq]; [exact Hlt|]. symmetry in Heq. apply sqdist_zero in Heq. contradiction.
Qed.

Example ex_centre : vsum (centre [(1, 2, 3); (3, 2, 1); (2, 8, 5)]) = vzero.
Proof. apply template_centred. discriminate. Qed.
