(* C03: rows of the output structure, molecule loop, box choice, density box. *)
From Coq Require Import ZArith String List Bool Arith Lia.
From PV Require Import TopPre Coords Gen_boxsel C08_top.
Import ListNotations.
Close Scope string_scope.
Open Scope nat_scope.
Open Scope list_scope.

(* ---- rows ---- *)
Section Rows.
Variable P : Type.

Lemma number_length (l : list atom) : forall k (pos : nat -> P), length (number k l pos) = length l.
Proof. induction l as [|a r IH]; intros k pos; cbn [number length]; [reflexivity|]. rewrite IH. reflexivity. Qed.

Lemma number_nth (l : list atom) : forall k (pos : nat -> P) i a, nth_error l i = Some a ->
  nth_error (number k l pos) i =
  Some {| w_resid := a_resid a; w_resname := a_resname a; w_name := a_name a; w_idx := S (k + i); w_pos := pos (k + i) |}.
Proof.
  induction l as [|x r IH]; intros k pos i a H; destruct i as [|i]; cbn [nth_error number] in *; try discriminate.
  - injection H as ->. rewrite Nat.add_0_r. reflexivity.
  - rewrite (IH (S k) pos i a H). rewrite Nat.add_succ_r. reflexivity.
Qed.

Definition ident (r : row P) : Z * string * string * nat := (w_resid r, w_resname r, w_name r, w_idx r).

Lemma number_ident (l : list atom) : forall k (pos pos' : nat -> P),
  map ident (number k l pos) = map ident (number k l pos').
Proof. induction l as [|x r IH]; intros k pos pos'; cbn [number map]; [reflexivity|]. rewrite (IH (S k) pos pos'). reflexivity. Qed.
End Rows.

Lemma atoms_of_app tys l1 : forall l2 a b, atoms_of tys l1 = Some a -> atoms_of tys l2 = Some b -> atoms_of tys (l1 ++ l2) = Some (a ++ b).
Proof.
  induction l1 as [|n r IH]; intros l2 a b H1 H2; cbn [atoms_of app] in *.
  - injection H1 as <-. exact H2.
  - destruct (lookup tys n) as [v|]; [|discriminate]. destruct (atoms_of tys r) as [w|] eqn:E; [|discriminate].
    injection H1 as <-. rewrite (IH l2 w b eq_refl H2). rewrite app_assoc. reflexivity.
Qed.

Lemma atoms_of_repeat tys n v c : lookup tys n = Some v -> atoms_of tys (repeat n c) = Some (concat (repeat v c)).
Proof. intros H. induction c as [|c IH]; cbn [repeat atoms_of concat]; [reflexivity|]. rewrite H, IH. reflexivity. Qed.

Definition type_of (tys : mtypes) (n : string) : list atom := match lookup tys n with Some v => v | None => [] end.

(* the atoms are those of the [ molecules ] entries in order, each molecule type repeated
   count times, atoms in the order of the type *)
Lemma atoms_expand tys entries : Forall (fun e => lookup tys (fst e) <> None) entries ->
  atoms_of tys (expand entries) = Some (flat_map (fun e => concat (repeat (type_of tys (fst e)) (snd e))) entries).
Proof.
  induction entries as [|[n c] r IH]; intros H; [reflexivity|]. inversion H as [|? ? Hn Hr]; subst.
  rewrite expand_cons. cbn [flat_map fst snd]. cbn [fst] in Hn.
  destruct (lookup tys n) as [v|] eqn:El; [|contradiction]. unfold type_of at 1. rewrite El.
  apply atoms_of_app; [apply atoms_of_repeat; exact El|apply IH; exact Hr].
Qed.

Lemma atoms_unknown tys entries n c : In (n, c) entries -> 0 < c -> lookup tys n = None -> atoms_of tys (expand entries) = None.
Proof.
  intros Hin Hc Hl. assert (Hx : In n (expand entries)) by (apply expand_in; exists c; auto).
  induction (expand entries) as [|x r IH]; [destruct Hx|]. cbn [atoms_of]. destruct Hx as [-> | Hx].
  - rewrite Hl. reflexivity.
  - destruct (lookup tys x); [|reflexivity]. rewrite (IH Hx). reflexivity.
Qed.

Theorem rows_exact (P : Type) tys entries (pos : nat -> P) rows :
  Forall (fun e => lookup tys (fst e) <> None) entries ->
  gro_rows tys entries pos = Some rows ->
  let atoms := flat_map (fun e => concat (repeat (type_of tys (fst e)) (snd e))) entries in
  length rows = length atoms /\
  (forall i a, nth_error atoms i = Some a ->
     nth_error rows i = Some {| w_resid := a_resid a; w_resname := a_resname a; w_name := a_name a; w_idx := S i; w_pos := pos i |}).
Proof.
  intros Hk H atoms. unfold gro_rows in H. rewrite (atoms_expand tys entries Hk) in H. cbn [option_map] in H. injection H as <-. subst atoms.
  split; [apply number_length|]. intros i a Hi. rewrite (number_nth P _ 0 pos i a Hi). reflexivity.
Qed.

(* identity and order of the rows do not depend on what the placement produced *)
Theorem rows_independent_of_positions (P : Type) tys entries (pos pos' : nat -> P) :
  option_map (map (ident P)) (gro_rows tys entries pos) = option_map (map (ident P)) (gro_rows tys entries pos').
Proof.
  unfold gro_rows. destruct (atoms_of tys (expand entries)) as [l|]; cbn [option_map]; [|reflexivity].
  rewrite (number_ident P l 0 pos pos'). reflexivity.
Qed.

Lemma length_concat_repeat (A : Type) (v : list A) c : length (concat (repeat v c)) = c * length v.
Proof. induction c as [|c IH]; cbn [repeat concat length]; [reflexivity|]. rewrite app_length, IH. lia. Qed.

Theorem rows_count (P : Type) tys entries (pos : nat -> P) rows :
  Forall (fun e => lookup tys (fst e) <> None) entries ->
  gro_rows tys entries pos = Some rows ->
  length rows = fold_right (fun e acc => snd e * length (type_of tys (fst e)) + acc) 0 entries.
Proof.
  intros Hk H. destruct (rows_exact P tys entries pos rows Hk H) as [Hl _]. rewrite Hl. clear.
  induction entries as [|e r IH]; cbn [flat_map fold_right length]; [reflexivity|].
  rewrite app_length, length_concat_repeat, IH. reflexivity.
Qed.

(* ---- the molecule loop ---- *)
Lemma nth_update (l : list bool) idx j : idx < length l ->
  nth j (firstn idx l ++ true :: skipn (S idx) l) false = if j =? idx then true else nth j l false.
Proof.
  intros H. destruct (Nat.eqb_spec j idx) as [-> | Hne].
  - rewrite app_nth2; rewrite firstn_length_le by lia; [|lia]. rewrite Nat.sub_diag. reflexivity.
  - destruct (Nat.lt_ge_cases j idx) as [Hlt | Hge].
    + rewrite app_nth1 by (rewrite firstn_length_le; lia). rewrite <- (firstn_skipn idx l) at 2.
      rewrite app_nth1 by (rewrite firstn_length_le; lia). reflexivity.
    + rewrite app_nth2 by (rewrite firstn_length_le; lia). rewrite firstn_length_le by lia.
      destruct (j - idx) as [|d] eqn:Ed; [lia|]. cbn [nth].
      rewrite <- (firstn_skipn (S idx) l) at 2. rewrite app_nth2 by (rewrite firstn_length; lia).
      rewrite firstn_length_le by lia. replace (j - S idx) with d by lia. reflexivity.
Qed.

Lemma update_length (l : list bool) idx : idx < length l -> length (firstn idx l ++ true :: skipn (S idx) l) = length l.
Proof. intros H. rewrite app_length, firstn_length_le by lia. cbn [length]. rewrite skipn_length. lia. Qed.

(* whatever the outcomes of the attempts: when the loop ends every molecule is positioned,
   none was dropped, and none that had positions lost them *)
Theorem compose_all_positioned fuel oracle : forall attempt idx done out,
  compose fuel oracle attempt idx done = Some out ->
  (forall i, i < idx -> nth i done false = true) ->
  length out = length done /\ (forall i, i < length out -> nth i out false = true).
Proof.
  induction fuel as [|f IH]; intros attempt idx done out H Hinv; cbn [compose] in H; [discriminate|].
  destruct (Nat.leb_spec (length done) idx) as [Hend | Hin].
  - injection H as <-. split; [reflexivity|]. intros i Hi. apply Hinv. lia.
  - destruct (nth idx done false) eqn:En.
    + apply (IH _ _ _ _ H). intros i Hi. destruct (Nat.eq_dec i idx) as [-> | Hne]; [exact En|apply Hinv; lia].
    + destruct (oracle idx attempt).
      * destruct (IH _ _ _ _ H) as [Hl Hall].
        { intros i Hi. rewrite nth_update by exact Hin. destruct (Nat.eqb_spec i idx); [reflexivity|apply Hinv; lia]. }
        rewrite update_length in Hl by exact Hin. split; [exact Hl|exact Hall].
      * apply (IH _ _ _ _ H). exact Hinv.
Qed.

(* the loop ends for every oracle under which each molecule succeeds within K attempts *)
Theorem compose_terminates oracle K : (forall idx, exists a, a < K /\ oracle idx a = true) ->
  forall done, exists out, compose (S (length done * S K)) oracle 0 0 done = Some out.
Proof.
  intros Hor done.
  assert (G : forall rem idx attempt dn, rem = length dn - idx -> (forall a, a < attempt -> oracle idx a = false) -> attempt <= K ->
            forall fuel, fuel >= 1 -> fuel + attempt >= S (rem * S K) -> exists out, compose fuel oracle attempt idx dn = Some out).
  { induction rem as [|rem IH]; intros idx attempt dn Hr Hfail Hk fuel Hf1 Hf.
    - destruct fuel as [|f]; [lia|]. cbn [compose]. destruct (Nat.leb_spec (length dn) idx); [eexists; reflexivity|lia].
    - rewrite Nat.mul_succ_l in Hf. remember (rem * S K) as q eqn:Eq.
      assert (Hnext : forall dn' fuel, length dn' = length dn -> fuel >= S q -> exists out, compose fuel oracle 0 (S idx) dn' = Some out).
      { intros dn' fuel' Hl Hf'. apply (IH (S idx) 0 dn'); [lia|intros a Ha; lia|lia|lia|lia]. }
      clear IH. revert fuel Hf1 Hf Hfail Hk. remember (K - attempt) as m eqn:Em. revert attempt Em.
      induction m as [|m IHm]; intros attempt Em fuel Hf1 Hf Hfail Hk.
      + destruct fuel as [|f]; [lia|]. cbn [compose]. destruct (Nat.leb_spec (length dn) idx); [lia|].
        destruct (nth idx dn false); [apply Hnext; [reflexivity|lia]|].
        destruct (Hor idx) as (a & Ha & Hoa). rewrite (Hfail a) in Hoa by lia. discriminate.
      + destruct fuel as [|f]; [lia|]. cbn [compose]. destruct (Nat.leb_spec (length dn) idx) as [|Hin]; [lia|].
        destruct (nth idx dn false); [apply Hnext; [reflexivity|lia]|].
        destruct (oracle idx attempt) eqn:Eo.
        * apply Hnext; [apply update_length; exact Hin|lia].
        * apply (IHm (S attempt)); [lia|lia|lia| |lia].
          intros a Ha. destruct (Nat.eq_dec a attempt) as [-> | Hne]; [exact Eo|apply Hfail; lia]. }
  apply (G (length done) 0 0 done); [lia|intros a Ha; lia|lia|lia|lia].
Qed.

(* ---- box ---- *)
Section Box.
Variables (B D : Type) (beq : B -> B -> bool).

Theorem box_structure_wins box b dens : box_choice B D beq box (Some b) dens = Some b.
Proof. unfold box_choice. destruct box as [c|]; cbn; [destruct (beq b c)|]; reflexivity. Qed.

Theorem box_cli_otherwise box dens : box_choice B D beq box None dens = box.
Proof. unfold box_choice. destruct box; reflexivity. Qed.
End Box.

Theorem final_box_spec (S D : Type) beq (cli tbox : option (S * S * S)) (dens : option D) (edge : S) :
  init_box S (box_choice (S * S * S) D beq cli tbox dens) edge =
  match tbox, cli with
  | Some b, _ => b
  | None, Some b => b
  | None, None => (edge, edge, edge)
  end.
Proof. destruct tbox as [b|]; [rewrite box_structure_wins|rewrite box_cli_otherwise; destruct cli]; reflexivity. Qed.

(* ---- mass lookup ---- *)
Theorem mass_lookup (M : Type) (e t : option M) :
  (forall m, e = Some m -> atom_mass e t = Some m) /\ (e = None -> atom_mass e t = t).
Proof. split; [intros m ->; reflexivity|intros ->; reflexivity]. Qed.
Lemma gen_mass_guards : explicit_mass_guard = ["'mass' in molecule.nodes[node]"]%string /\
                        type_mass_guard = ["not ('mass' in molecule.nodes[node])"]%string.
Proof. split; reflexivity. Qed.

Example ex_compose : compose 20 (fun idx a => (idx + 1 <=? a)) 0 0 [false; true; false] = Some [true; true; true].
Proof. vm_compute. reflexivity. Qed.
