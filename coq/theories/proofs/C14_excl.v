(* C14: the exclusions generated for mixed exclusion distances are exactly those prescribed by
   the block of at least one of the two atoms. *)
From Coq Require Import ZArith List Bool Arith Lia.
From PV Require Import Graph Excl.
Import ListNotations.
Open Scope Z_scope.

Lemma memz_In x l : memz x l = true <-> In x l.
Proof.
  unfold memz. rewrite existsb_exists. split.
  - intros (y & Hy & E). apply Z.eqb_eq in E. subst. exact Hy.
  - intros H. exists x. split; [exact H|apply Z.eqb_refl].
Qed.

(* unordered membership *)
Definition PIn (p : Z * Z) (l : list (Z * Z)) : Prop := In p l \/ In (snd p, fst p) l.

Lemma pair_eqb_spec p q : pair_eqb p q = true <-> q = p \/ q = (snd p, fst p).
Proof.
  destruct p as [a b], q as [c d]. unfold pair_eqb. cbn [fst snd].
  rewrite orb_true_iff, !andb_true_iff, !Z.eqb_eq. split.
  - intros [[-> ->]|[-> ->]]; auto.
  - intros [E|E]; injection E as -> ->; auto.
Qed.

Lemma pair_in_spec p l : pair_in p l = true <-> PIn p l.
Proof.
  unfold pair_in, PIn. rewrite existsb_exists. split.
  - intros (q & Hq & E). apply pair_eqb_spec in E. destruct E as [-> | ->]; auto.
  - intros [H|H]; [exists p|exists (snd p, fst p)]; (split; [exact H|]); apply pair_eqb_spec; auto.
Qed.

Lemma PIn_app p l1 l2 : PIn p (l1 ++ l2) <-> PIn p l1 \/ PIn p l2.
Proof. unfold PIn. rewrite !in_app_iff. tauto. Qed.

Lemma add_pairs_spec a cand : forall had p,
  PIn p (add_pairs a cand had) <-> PIn p had \/ exists b, In b cand /\ (p = (a, b) \/ p = (b, a)).
Proof.
  unfold add_pairs. induction cand as [|c r IH]; intros had p; cbn [fold_left].
  - split; [auto|]. intros [H|(b & [] & _)]. exact H.
  - rewrite IH. destruct (pair_in (a, c) had) eqn:E.
    + apply pair_in_spec in E. split.
      * intros [H|(b & Hb & Hp)]; [left; exact H|right; exists b; split; [right; exact Hb|exact Hp]].
      * intros [H|(b & [<- | Hb] & Hp)]; [left; exact H| |right; exists b; split; assumption].
        left. destruct Hp as [-> | ->]; [exact E|]. unfold PIn in *. cbn [fst snd] in *. tauto.
    + rewrite PIn_app. split.
      * intros [[H|H]|(b & Hb & Hp)]; [left; exact H| |right; exists b; split; [right; exact Hb|exact Hp]].
        right. exists c. split; [left; reflexivity|]. unfold PIn in H. cbn [In fst snd] in H.
        destruct H as [[<- | []]|[E'|[]]]; [left; reflexivity|right]. destruct p as [x y]. cbn in E'. injection E' as <- <-. reflexivity.
      * intros [H|(b & [<- | Hb] & Hp)]; [left; left; exact H| |right; exists b; split; assumption].
        left. right. unfold PIn. cbn [In fst snd]. destruct Hp as [-> | ->]; cbn; auto.
Qed.

Lemma far_spec g a b mn : far g a b mn = true <-> (mn <= 1)%nat \/ exists j, mn = S (S j) /\ ~ within g a b j.
Proof.
  unfold far. destruct mn as [|[|j]].
  - split; [intros _; left; lia|reflexivity].
  - split; [intros _; left; lia|reflexivity].
  - rewrite negb_true_iff. split.
    + intros H. right. exists j. split; [reflexivity|]. intros Hw. apply ball_spec, memz_In in Hw. congruence.
    + intros [H|(j' & E & Hw)]; [lia|]. injection E as <-. destruct (memz b (ball g a j)) eqn:Em; [|reflexivity].
      exfalso. apply Hw. apply ball_spec, memz_In. exact Em.
Qed.

Lemma hood_spec g a mn mx b :
  In b (hood g a mn mx) <-> within g a b mx /\ far g a b mn = true /\ b <> a.
Proof.
  unfold hood. rewrite filter_In, ball_spec, andb_true_iff, negb_true_iff, Z.eqb_neq. tauto.
Qed.

(* every generated pair: one end x is tagged with e > nrexcl, the other lies within e of it *)
Lemma expand_spec g m tags : forall had p,
  PIn p (expand_excl g m tags had) <->
  PIn p had \/ exists x e y, In (x, e) tags /\ (m < e)%nat /\ In y (hood g x m e) /\ (p = (x, y) \/ p = (y, x)).
Proof.
  induction tags as [|[a e] r IH]; intros had p; cbn [expand_excl].
  - split; [auto|]. intros [H|(x & e & y & [] & _)]. exact H.
  - destruct (m <? e)%nat eqn:E.
    + apply Nat.ltb_lt in E. rewrite IH, add_pairs_spec. split.
      * intros [[H|(b & Hb & Hp)]|(x & e' & y & Hin & H)]; [left; exact H| |].
        -- right. exists a, e, b. split; [left; reflexivity|]. auto.
        -- right. exists x, e', y. split; [right; exact Hin|exact H].
      * intros [H|(x & e' & y & [Ein|Hin] & Hlt & Hy & Hp)]; [left; left; exact H| |].
        -- injection Ein as E1 E2. subst x e'. left. right. exists y. auto.
        -- right. exists x, e', y. auto.
    + apply Nat.ltb_ge in E. rewrite IH. split.
      * intros [H|(x & e' & y & Hin & H)]; [left; exact H|right; exists x, e', y; split; [right; exact Hin|exact H]].
      * intros [H|(x & e' & y & [Ein|Hin] & Hlt & H)]; [left; exact H| |right; exists x, e', y; auto].
        injection Ein as E1 E2. subst x e'. lia.
Qed.

(* the statement: with every atom tagged by the exclusion distance of its own block and the
   molecule-wide distance m not above any tag, two different atoms are excluded (within m bonds,
   or listed as a generated pair) exactly if their bond distance is within the distance
   prescribed by the block of at least one of them *)
Theorem exclusions_exact g m tags ex a b :
  NoDup (map fst tags) -> (forall x e, In (x, e) tags -> (m <= e)%nat) ->
  In (a, ex a) tags -> In (b, ex b) tags -> (forall x e, In (x, e) tags -> e = ex x) -> a <> b ->
  (within g a b m \/ PIn (a, b) (expand_excl g m tags [])) <-> (within g a b (ex a) \/ within g a b (ex b)).
Proof.
  intros ND Hmin Ha Hb Hex Hab. rewrite expand_spec. split.
  - intros [H|[[[]|[]]|(x & e & y & Hin & Hlt & Hy & Hp)]].
    + left. eapply within_mono; [apply (Hmin _ _ Ha)|exact H].
    + apply hood_spec in Hy. destruct Hy as (Hw & _ & _). pose proof (Hex _ _ Hin) as ->.
      destruct Hp as [E|E]; injection E as <- <-; [left; exact Hw|right; apply within_sym; exact Hw].
  - assert (Key : forall x y, In (x, ex x) tags -> x <> y -> within g x y (ex x) ->
                  within g x y m \/ In y (hood g x m (ex x)) /\ (m < ex x)%nat).
    { intros x y Hx Hxy Hw. destruct (le_lt_dec (ex x) m) as [Hle|Hlt].
      - left. eapply within_mono; [exact Hle|exact Hw].
      - destruct m as [|[|j]].
        + right. split; [|exact Hlt]. apply hood_spec. split; [exact Hw|]. split; [reflexivity|congruence].
        + right. split; [|exact Hlt]. apply hood_spec. split; [exact Hw|]. split; [reflexivity|congruence].
        + destruct (memz y (ball g x j)) eqn:Em.
          * left. apply memz_In, ball_spec in Em. eapply within_mono; [|exact Em]. lia.
          * right. split; [|exact Hlt]. apply hood_spec. split; [exact Hw|]. split; [|congruence].
            unfold far. rewrite Em. reflexivity. }
    intros [Hw|Hw].
    + destruct (Key a b Ha Hab Hw) as [H|[Hy Hlt]]; [left; exact H|].
      right. right. exists a, (ex a), b. auto.
    + apply within_sym in Hw. destruct (Key b a Hb (not_eq_sym Hab) Hw) as [H|[Hy Hlt]]; [left; apply within_sym; exact H|].
      right. right. exists b, (ex b), a. auto.
Qed.

(* each unordered pair is emitted at most once: every appended pair is new, in either
   orientation, with respect to everything emitted before it *)
Inductive NoDupPairs : list (Z * Z) -> Prop :=
| NDP_nil : NoDupPairs []
| NDP_snoc l p : NoDupPairs l -> ~ PIn p l -> NoDupPairs (l ++ [p]).

Lemma add_pairs_nodup a cand : forall had, NoDupPairs had -> NoDupPairs (add_pairs a cand had).
Proof.
  unfold add_pairs. induction cand as [|c r IH]; intros had H; cbn [fold_left]; [exact H|].
  apply IH. destruct (pair_in (a, c) had) eqn:E; [exact H|].
  constructor; [exact H|]. intros Hin. apply pair_in_spec in Hin. congruence.
Qed.

Theorem no_duplicates g m tags : forall had, NoDupPairs had -> NoDupPairs (expand_excl g m tags had).
Proof.
  induction tags as [|[a e] r IH]; intros had H; cbn [expand_excl]; [exact H|].
  destruct (m <? e)%nat; apply IH; [apply add_pairs_nodup; exact H|exact H].
Qed.

(* uniform exclusion distance: the molecule keeps it and nothing is generated *)
Theorem uniform_keeps_nrexcl g atoms v :
  atoms <> [] -> Forall (fun ae => snd ae = v) atoms -> generated g atoms = (v, []).
Proof.
  intros Hne Hall. unfold generated, tag_exclusions.
  assert (Hv : map snd atoms = repeat v (length atoms)).
  { clear Hne. induction Hall as [|[a e] r Hx _ IH]; cbn [map length repeat]; [reflexivity|]. cbn in Hx. subst e. rewrite IH. reflexivity. }
  rewrite Hv. destruct atoms as [|x r]; [contradiction|]. cbn [length repeat all_equal hd].
  assert (E : forallb (Nat.eqb v) (repeat v (length r)) = true).
  { apply forallb_forall. intros y Hy. apply repeat_spec in Hy. subst. apply Nat.eqb_refl. }
  rewrite E. reflexivity.
Qed.

Example ex_generated :
  generated [(0, 1); (1, 2); (2, 3)] [(0, 1%nat); (1, 1%nat); (2, 3%nat); (3, 3%nat)] = (1%nat, [(2, 1); (2, 3); (2, 0); (3, 1); (3, 0)]).
Proof. vm_compute. reflexivity. Qed.
