(* C01 for multi-residue (from_itp) blocks: the fold of merges is the declarative layout in which
   every block instance is a copy shifted by the residue id / charge group reached so far; with
   blocks numbered 1..k the residue ids of the molecule are contiguous from the first one. *)
From Coq Require Import ZArith String List Bool Lia.
From PV Require Import Blocks C01_blocks.
Import ListNotations.
Close Scope string_scope.
Open Scope list_scope.
Open Scope Z_scope.

Lemma merge_spec_m atoms inters b r cg :
  contiguous atoms -> atoms <> [] ->
  (exists pre a, atoms = pre ++ [(Z.of_nat (length atoms) - 1, a)] /\ a_resid a = r /\ a_cg a = cg) ->
  merge {| m_atoms := atoms; m_inters := inters |} b =
  {| m_atoms := atoms ++ number (Z.of_nat (length atoms)) (map (fun a => shift_atom a r cg) (b_atoms b));
     m_inters := inters ++ map (shift_inter (Z.of_nat (length atoms))) (b_inters b) |}.
Proof.
  intros Hc Hne (pre & a & E & Hr & Hcg). unfold merge. cbn [m_atoms m_inters].
  rewrite (max_key_contiguous atoms Hc).
  assert (Hat : atom_at atoms (Z.of_nat (length atoms) - 1) = Some a).
  { rewrite E at 1. apply atom_at_last. intros Hin.
    assert (Hlen : length atoms = S (length pre)) by (rewrite E, app_length; cbn; lia).
    unfold contiguous in Hc. rewrite E in Hc at 1. rewrite map_app in Hc.
    assert (Hpre : map fst pre = map Z.of_nat (seq 0 (length pre))).
    { rewrite Hlen, seq_S, map_app in Hc. apply app_inj_tail in Hc. tauto. }
    rewrite Hpre in Hin. apply in_map_iff in Hin. destruct Hin as (i & Ei & Hi). apply in_seq in Hi. lia. }
  rewrite Hat, Hr, Hcg. replace (Z.of_nat (length atoms) - 1 + 1) with (Z.of_nat (length atoms)) by lia.
  reflexivity.
Qed.

Lemma fold_merge_layout : forall rest atoms inters r cg,
  Forall (fun b => b_atoms b <> []) rest ->
  contiguous atoms -> atoms <> [] ->
  (exists pre a, atoms = pre ++ [(Z.of_nat (length atoms) - 1, a)] /\ a_resid a = r /\ a_cg a = cg) ->
  let m := fold_left merge rest {| m_atoms := atoms; m_inters := inters |} in
  m_atoms m = atoms ++ spec_atoms_m (Z.of_nat (length atoms)) r cg rest /\
  m_inters m = inters ++ spec_inters (Z.of_nat (length atoms)) rest.
Proof.
  induction rest as [|b rest IH]; intros atoms inters r cg Hall Hc Hne Hlast; cbn [fold_left spec_atoms_m spec_inters].
  - rewrite !app_nil_r. split; reflexivity.
  - inversion Hall as [|? ? Hb1 Hrest]; subst.
    rewrite (merge_spec_m atoms inters b r cg Hc Hne Hlast).
    set (newa := number (Z.of_nat (length atoms)) (map (fun a => shift_atom a r cg) (b_atoms b))).
    assert (Hlen : length (atoms ++ newa) = (length atoms + length (b_atoms b))%nat)
      by (subst newa; rewrite app_length, number_length, map_length; reflexivity).
    destruct (last_of_number (Z.of_nat (length atoms)) (b_atoms b) (fun a => shift_atom a r cg) Hb1)
      as (pre & a & Ea & a0 & Erev & Ea0).
    specialize (IH (atoms ++ newa) (inters ++ map (shift_inter (Z.of_nat (length atoms))) (b_inters b)) (r + last_resid b) (cg + last_cg b) Hrest).
    destruct IH as [I1 I2].
    + subst newa. apply contiguous_app. exact Hc.
    + intros E. apply app_eq_nil in E. destruct E as [E _]. contradiction.
    + exists (atoms ++ pre), a. split; [|split].
      * fold newa in Ea. rewrite Hlen. rewrite Ea at 1. rewrite app_assoc. f_equal. f_equal. f_equal. lia.
      * subst a. cbn. unfold last_resid. rewrite Erev. lia.
      * subst a. cbn. unfold last_cg. rewrite Erev. lia.
    + cbv zeta in I1, I2. split.
      * rewrite I1, <- app_assoc, Hlen, Nat2Z.inj_add. reflexivity.
      * rewrite I2, <- app_assoc, Hlen, Nat2Z.inj_add. reflexivity.
Qed.

(* a block all of whose atoms carry one residue id *)
Lemma nresid_le1 b : (nresid b <= 1)%nat -> forall a, In a (b_atoms b) -> a_resid a = min_resid b.
Proof.
  unfold nresid, min_resid. destruct (b_atoms b) as [|a0 r]; [intros _ a []|].
  intros H.
  assert (Hall : forall x, In x (map a_resid (a0 :: r)) -> x = a_resid a0).
  { intros x Hx. destruct (Z.eq_dec x (a_resid a0)) as [|Hne]; [assumption|exfalso].
    assert (H1 : In x (nodup Z.eq_dec (map a_resid (a0 :: r)))) by (apply nodup_In; exact Hx).
    assert (H2 : In (a_resid a0) (nodup Z.eq_dec (map a_resid (a0 :: r)))) by (apply nodup_In; left; reflexivity).
    pose proof (NoDup_nodup Z.eq_dec (map a_resid (a0 :: r))) as Hnd.
    destruct (nodup Z.eq_dec (map a_resid (a0 :: r))) as [|y [|z t]]; cbn in H; try lia.
    - destruct H1.
    - destruct H1 as [<-|[]]. destruct H2 as [E|[]]. congruence. }
  assert (Hmin : fold_left (fun m x => Z.min m (a_resid x)) r (a_resid a0) = a_resid a0).
  { assert (G : forall l m0, (forall x, In x l -> a_resid x = m0) -> fold_left (fun m x => Z.min m (a_resid x)) l m0 = m0).
    { induction l as [|y l IHl]; intros m0 Hl; cbn; [reflexivity|].
      rewrite (Hl y (or_introl eq_refl)), Z.min_id. apply IHl. intros x Hx. exact (Hl x (or_intror Hx)). }
    apply G. intros x Hx. apply Hall. apply in_map. right. exact Hx. }
  rewrite Hmin. intros a Ha. apply Hall. apply in_map. exact Ha.
Qed.

Theorem add_blocks_m_layout r0 blocks m :
  Forall (fun fb => b_atoms (snd fb) <> []) blocks ->
  add_blocks_m r0 blocks = Some m ->
  exists f b rest, blocks = (f, b) :: rest /\
    m_atoms m = spec_atoms_m 0 (r0 - min_resid b) 0 (map snd blocks) /\ m_inters m = spec_inters 0 (map snd blocks).
Proof.
  intros Hall H. unfold add_blocks_m in H.
  destruct (existsb _ blocks) eqn:Eg; [discriminate|].
  destruct blocks as [|[f b] rest]; [discriminate|]. injection H as <-. exists f, b, rest. split; [reflexivity|].
  inversion Hall as [|? ? Hb1 Hrest]; subst. cbn [snd] in Hb1.
  (* both branches of first_block_m give the shifted copy *)
  assert (Hfirst : first_block_m f b r0 =
                   {| m_atoms := number 0 (map (fun a => shift_atom a (r0 - min_resid b) 0) (b_atoms b)); m_inters := b_inters b |}).
  { unfold first_block_m. destruct f; [reflexivity|]. unfold first_block. f_equal. f_equal.
    cbn [existsb fst snd negb andb] in Eg. apply orb_false_iff in Eg. destruct Eg as [Eg _].
    apply Nat.ltb_ge in Eg. apply map_ext_in. intros a Ha. unfold with_resid, shift_atom.
    rewrite (nresid_le1 b Eg a Ha). f_equal; lia. }
  rewrite Hfirst. set (atoms0 := number 0 (map (fun a => shift_atom a (r0 - min_resid b) 0) (b_atoms b))).
  destruct (last_of_number 0 (b_atoms b) (fun a => shift_atom a (r0 - min_resid b) 0) Hb1) as (pre & a & Ea & a0 & Erev & Ea0).
  assert (Hl0 : length atoms0 = length (b_atoms b)) by (subst atoms0; rewrite number_length, map_length; reflexivity).
  assert (Hrest' : Forall (fun b => b_atoms b <> []) (map snd rest)).
  { clear -Hrest. induction Hrest as [|x l Hx Hl IH]; cbn; constructor; assumption. }
  destruct (fold_merge_layout (map snd rest) atoms0 (b_inters b) (r0 - min_resid b + last_resid b) (last_cg b) Hrest') as [G1 G2].
  - subst atoms0. apply contiguous_number.
  - subst atoms0. intros E. apply (f_equal (@length _)) in E. rewrite number_length, map_length in E. destruct (b_atoms b); [contradiction|discriminate].
  - exists pre, a. split; [|split].
    + rewrite Hl0. fold atoms0 in Ea. rewrite Ea at 1. f_equal.
    + subst a. cbn. unfold last_resid. rewrite Erev. lia.
    + subst a. cbn. unfold last_cg. rewrite Erev. lia.
  - cbv zeta in G1, G2. cbn [map snd spec_atoms_m spec_inters]. split.
    + rewrite G1, Hl0. replace (0 + blen b) with (Z.of_nat (length (b_atoms b))) by (unfold blen; lia).
      replace (0 + last_cg b) with (last_cg b) by lia. reflexivity.
    + rewrite G2, Hl0. replace (0 + blen b) with (Z.of_nat (length (b_atoms b))) by (unfold blen; lia). f_equal.
      rewrite <- (map_id (b_inters b)) at 1. apply map_ext. intros i. unfold shift_inter. destruct i as [sec ats prm mt]; cbn. f_equal.
      rewrite <- (map_id ats) at 1. apply map_ext. intros; lia.
Qed.

(* rejected: a block with several residue ids whose node is not labelled from_itp *)
Theorem add_blocks_m_rejects r0 blocks f b :
  In (f, b) blocks -> f = false -> (1 < nresid b)%nat -> add_blocks_m r0 blocks = None.
Proof.
  intros Hin -> Hn. unfold add_blocks_m.
  assert (E : existsb (fun fb => negb (fst fb) && Nat.ltb 1 (nresid (snd fb))) blocks = true).
  { apply existsb_exists. exists (false, b). split; [exact Hin|]. cbn [fst snd negb andb]. apply Nat.ltb_lt. exact Hn. }
  rewrite E. reflexivity.
Qed.

(* ---- numbering: residue ids rise by steps of 0 or 1 ---- *)
Fixpoint steps01 (l : list Z) : Prop :=
  match l with
  | x :: ((y :: _) as r) => (y = x \/ y = x + 1) /\ steps01 r
  | _ => True
  end.
Definition numbered (b : block) : Prop :=
  b_atoms b <> [] /\ hd 0 (map a_resid (b_atoms b)) = 1 /\ steps01 (map a_resid (b_atoms b)).

Lemma steps01_app l1 l2 x y : steps01 (l1 ++ [x]) -> steps01 (y :: l2) -> (y = x \/ y = x + 1) -> steps01 ((l1 ++ [x]) ++ y :: l2).
Proof.
  induction l1 as [|a l1 IH]; intros H1 H2 Hxy.
  - cbn. split; [exact Hxy|exact H2].
  - destruct l1 as [|b l1]; cbn in *.
    + destruct H1 as [Hab _]. split; [exact Hab|]. split; [exact Hxy|exact H2].
    + destruct H1 as [Hab H1]. split; [exact Hab|]. apply IH; assumption.
Qed.

Lemma steps01_shift d l : steps01 l -> steps01 (map (fun x => x + d) l).
Proof.
  induction l as [|x [|y r] IH]; cbn; auto. intros [Hxy H]. split; [lia|]. apply IH. exact H.
Qed.

Lemma resids_number idx d cg l : map (fun ka => a_resid (snd ka)) (number idx (map (fun a => shift_atom a d cg) l)) = map (fun x => x + d) (map a_resid l).
Proof.
  rewrite <- (map_map snd a_resid), number_snd, !map_map. apply map_ext. intros a. reflexivity.
Qed.

Lemma last_resid_spec b : b_atoms b <> [] -> exists pre, map a_resid (b_atoms b) = pre ++ [last_resid b].
Proof.
  intros Hne. destruct (exists_last Hne) as (l' & a0 & E). exists (map a_resid l').
  unfold last_resid. rewrite E, rev_app_distr, map_app. reflexivity.
Qed.

Lemma last_app_cons {A} (l1 : list A) y l2 d : last (l1 ++ y :: l2) d = last (y :: l2) d.
Proof.
  induction l1 as [|a l1 IH]; [reflexivity|].
  rewrite <- IH. cbn [app]. destruct (l1 ++ y :: l2) eqn:E; [destruct l1; discriminate|reflexivity].
Qed.

(* blocks numbered 1..k: the residue ids of the layout start at dres + 1 and rise by 0 / 1 *)
Theorem layout_numbering blocks : forall idx dres cg,
  Forall numbered blocks -> blocks <> [] ->
  let rs := map (fun ka => a_resid (snd ka)) (spec_atoms_m idx dres cg blocks) in
  hd 0 rs = dres + 1 /\ steps01 rs /\ last rs 0 = dres + fold_right (fun b acc => last_resid b + acc) 0 blocks.
Proof.
  induction blocks as [|b rest IH]; intros idx dres cg Hall Hne; [contradiction|].
  inversion Hall as [|? ? [Hb1 [Hb2 Hb3]] Hrest]; subst. cbn [spec_atoms_m fold_right]. cbv zeta.
  rewrite map_app, resids_number.
  destruct (last_resid_spec b Hb1) as (pre & Epre).
  assert (Hform : exists l0, map a_resid (b_atoms b) = 1 :: l0).
  { destruct (map a_resid (b_atoms b)) as [|x l] eqn:E; [destruct (b_atoms b); [contradiction|discriminate]|]. cbn in Hb2. subst x. eauto. }
  destruct Hform as (l0 & Ef).
  assert (Hhd : hd 0 (map (fun x => x + dres) (map a_resid (b_atoms b))) = dres + 1) by (rewrite Ef; cbn [map hd]; lia).
  destruct rest as [|b2 rest2].
  - cbn [spec_atoms_m map]. rewrite app_nil_r. split; [exact Hhd|]. split; [apply steps01_shift; exact Hb3|].
    rewrite Epre, map_app. cbn [map]. rewrite last_last. cbn. lia.
  - specialize (IH (idx + blen b) (dres + last_resid b) (cg + last_cg b) Hrest ltac:(discriminate)).
    cbv zeta in IH. destruct IH as [I1 [I2 I3]].
    set (tl := map (fun ka => a_resid (snd ka)) (spec_atoms_m (idx + blen b) (dres + last_resid b) (cg + last_cg b) (b2 :: rest2))) in *.
    assert (Htl : exists y l2, tl = y :: l2).
    { subst tl. cbn [spec_atoms_m]. inversion Hrest as [|? ? [Hc1 _] _]; subst.
      destruct (b_atoms b2) as [|a9 l9]; [contradiction|]. cbn. eauto. }
    destruct Htl as (y & l2 & Etl). rewrite Etl in *. cbn [hd] in I1.
    split; [|split].
    + rewrite Ef. cbn [map hd app]. lia.
    + rewrite Epre, map_app. cbn [map]. apply steps01_app.
      * replace (map (fun x => x + dres) pre ++ [last_resid b + dres]) with (map (fun x => x + dres) (map a_resid (b_atoms b)))
          by (rewrite Epre, map_app; reflexivity).
        apply steps01_shift. exact Hb3.
      * exact I2.
      * right. lia.
    + rewrite last_app_cons. rewrite I3. cbn [fold_right]. lia.
Qed.

Open Scope string_scope.
Definition ex_a n rn r cg := {| a_name := n; a_type := "P1"; a_resid := r; a_resname := rn; a_cg := cg; a_charge := "0"; a_mass := "72" |}.
Definition ex_dim := {| b_atoms := [ex_a "A" "RA" 1 1; ex_a "B" "RA" 1 2; ex_a "C" "RB" 2 3];
                        b_inters := [{| i_sec := "bonds"; i_atoms := [0; 1]; i_params := ["1"]; i_meta := [] |};
                                     {| i_sec := "bonds"; i_atoms := [1; 2]; i_params := ["1"]; i_meta := [] |}]; b_nrexcl := 1 |}.
Definition ex_rc := {| b_atoms := [ex_a "D" "RC" 1 1]; b_inters := []; b_nrexcl := 1 |}.
Example ex_multi :
  match add_blocks_m 5 [(true, ex_dim); (true, ex_dim); (false, ex_rc)] with
  | Some m => map (fun ka => a_resid (snd ka)) (m_atoms m) = [5; 5; 6; 7; 7; 8; 9] /\
              map i_atoms (m_inters m) = [[0; 1]; [1; 2]; [3; 4]; [4; 5]]
  | None => False
  end /\ add_blocks_m 5 [(false, ex_dim)] = None.
Proof. vm_compute. repeat split. Qed.
