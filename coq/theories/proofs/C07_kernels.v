(* C07: the geometric predicates, the growth-direction test and the distance-restraint
   bounds as translated from random_walk.py / restraints.py (Gen_walk_R, Gen_restraints_R). *)
From Coq Require Import Reals Lra List Bool.
From PV Require Import RNum Mode Tproj Gen_linalg_R Gen_walk_R Gen_restraints_R.
Open Scope R_scope.

Ltac cmp_hyps :=
  repeat match goal with
  | H : nltb _ _ = true |- _ => apply nltb_true in H
  | H : nltb _ _ = false |- _ => apply nltb_false in H
  | H : nleb _ _ = true |- _ => apply nleb_true in H
  | H : nleb _ _ = false |- _ => apply nleb_false in H
  | H : ngtb _ _ = true |- _ => apply ngtb_true in H
  | H : ngtb _ _ = false |- _ => apply ngtb_false in H
  | H : ngeb _ _ = true |- _ => apply ngeb_true in H
  | H : ngeb _ _ = false |- _ => apply ngeb_false in H
  end.

(* ---- sphere ---- *)
Lemma sphere_in_sound p c r : in_sphere p (MIn, c, r) = true -> vnorm (vsub c p) <= r.
Proof.
  unfold in_sphere, tproj3_0, tproj3_1, tproj3_2. cbv zeta. cbn [fst snd mode_is_in mode_is_out andb].
  destruct (ngtb (vnorm (vsub c p)) r) eqn:E; [intros HH; discriminate HH|]. intros _. cmp_hyps. exact E.
Qed.
Lemma sphere_out_sound p c r : in_sphere p (MOut, c, r) = true -> r <= vnorm (vsub c p).
Proof.
  unfold in_sphere, tproj3_0, tproj3_1, tproj3_2. cbv zeta. cbn [fst snd mode_is_in mode_is_out andb].
  destruct (nltb (vnorm (vsub c p)) r) eqn:E; [intros HH; discriminate HH|]. intros _. cmp_hyps. exact E.
Qed.

(* ---- cylinder (z-aligned): radial distance and signed height difference ---- *)
Definition radial (c p : vec) : R := vnorm_xy (vsub c p).
Definition dz (c p : vec) : R := v2 (vsub c p).

Lemma cylinder_in_sound p c r h :
  in_cylinder p (MIn, c, r, h) = true -> radial c p < r /\ Rabs (dz c p) < h.
Proof.
  unfold in_cylinder, tproj4_0, tproj4_1, tproj4_2, tproj4_3, radial, dz. cbv zeta.
  cbn [fst snd mode_is_in mode_is_out andb].
  destruct (nltb (vnorm_xy (vsub c p)) r) eqn:E1; cbn [andb]; [|intros HH; discriminate HH].
  destruct (nltb (nabs (v2 (vsub c p))) h) eqn:E2; [|intros HH; discriminate HH].
  intros _. cmp_hyps. split; assumption.
Qed.
(* accepted as "outside" => not inside the closed cylinder *)
Lemma cylinder_out_sound p c r h :
  in_cylinder p (MOut, c, r, h) = true -> ~ (radial c p <= r /\ Rabs (dz c p) <= Rabs h).
Proof.
  unfold in_cylinder, tproj4_0, tproj4_1, tproj4_2, tproj4_3, radial, dz. cbv zeta.
  cbn [fst snd mode_is_in mode_is_out andb].
  destruct (ngtb (vnorm_xy (vsub c p)) r) eqn:E1; cbn [orb].
  - intros _ [H _]. cmp_hyps. lra.
  - destruct (ngtb (v2 (vsub c p)) (nabs h)) eqn:E2; [|intros HH; discriminate HH].
    intros _ [_ H]. cmp_hyps. unfold nabs in E2. pose proof (Rle_abs (v2 (vsub c p))). lra.
Qed.

(* ---- rectangle ---- *)
Lemma rectangle_in_sound p c a b d :
  in_rectangle p (MIn, c, a, b, d) = true ->
  Rabs (v0 (vsub c p)) < a /\ Rabs (v1 (vsub c p)) < b /\ Rabs (v2 (vsub c p)) < d.
Proof.
  unfold in_rectangle, tproj5_0, tproj5_1, tproj5_2, tproj5_3, tproj5_4, all3. cbv zeta.
  cbn [fst snd mode_is_in mode_is_out andb].
  destruct (nltb (nabs (v0 (vsub c p))) a) eqn:E0; cbn [andb negb]; [|intros HH; discriminate HH].
  destruct (nltb (nabs (v1 (vsub c p))) b) eqn:E1; cbn [andb negb]; [|intros HH; discriminate HH].
  destruct (nltb (nabs (v2 (vsub c p))) d) eqn:E2; cbn [andb negb]; [|intros HH; discriminate HH].
  intros _. cmp_hyps. repeat split; assumption.
Qed.
Lemma rectangle_out_sound p c a b d :
  in_rectangle p (MOut, c, a, b, d) = true ->
  ~ (Rabs (v0 (vsub c p)) < a /\ Rabs (v1 (vsub c p)) < b /\ Rabs (v2 (vsub c p)) < d).
Proof.
  unfold in_rectangle, tproj5_0, tproj5_1, tproj5_2, tproj5_3, tproj5_4, all3. cbv zeta.
  cbn [fst snd mode_is_in mode_is_out andb].
  destruct (nltb (nabs (v0 (vsub c p))) a) eqn:E0; cbn [andb negb];
  destruct (nltb (nabs (v1 (vsub c p))) b) eqn:E1; cbn [andb negb];
  destruct (nltb (nabs (v2 (vsub c p))) d) eqn:E2; cbn [andb negb]; try (intros HH; discriminate HH);
  intros _ (H0 & H1 & H2); cmp_hyps; unfold nabs in *; lra.
Qed.

(* ---- growth direction: same side of the plane as the reference, angle within the bound ---- *)
Lemma direction_sound p old n ref ang :
  is_restricted_tail p old n ref ang = true ->
  nsign (vdot n (vsub p old)) = nsign ref /\ ang <= Rabs ref.
Proof.
  unfold is_restricted_tail. cbv zeta.
  destruct (nleb (nsign (vdot n (vsub p old))) (nsign ref)) eqn:E1; cbn [andb negb]; [|intros HH; discriminate HH].
  destruct (nleb (nsign ref) (nsign (vdot n (vsub p old)))) eqn:E2; cbn [andb negb]; [|intros HH; discriminate HH].
  destruct (ngtb ang (nabs ref)) eqn:E3; [intros HH; discriminate HH|].
  intros _. cmp_hyps. split; [lra|exact E3].
Qed.

(* the point handed to the direction test is the end of the step, old + v * s (not the wrapped coordinate): the tested
   vector is the step itself, so an accepted step of positive length lies on the reference side of the plane *)
Lemma step_vector old v s : vsub (vadd old (vscale_r v s)) old = vscale_r v s.
Proof. unfold vsub, vadd, vscale_r, v0, v1, v2, num in *. cbn [fst snd]. f_equal; [f_equal|]; ring. Qed.

Lemma direction_of_the_step old v s n ref ang :
  is_restricted_tail (vadd old (vscale_r v s)) old n ref ang = true ->
  nsign (s * vdot n v) = nsign ref /\ ang <= Rabs ref.
Proof.
  intros H. apply direction_sound in H. rewrite step_vector in H. destruct H as [H1 H2]. split; [|exact H2].
  rewrite <- H1. f_equal. unfold vdot, vscale_r, v0, v1, v2, num in *. cbn [fst snd]. ring.
Qed.

(* ---- distance restraints: the window stored for the restrained (target) residue ---- *)
Lemma target_window avg d tol g : g <> 0 ->
  upper_bound 1 avg d tol = d + tol + avg /\
  lower_bound (avg_needed_step_length d g) tol g = d - tol.
Proof. intros Hg. unfold upper_bound, lower_bound, avg_needed_step_length, num in *. split; [ring|field; exact Hg]. Qed.

(* a position accepted by the milestone check of the target lies in [d - tol, d + tol + avg] *)
Definition milestone_ok (dist ub lb : R) : bool := negb (ngtb dist ub) && negb (nltb dist lb).
Lemma accepted_target_in_window dist avg d tol g : g <> 0 ->
  milestone_ok dist (upper_bound 1 avg d tol) (lower_bound (avg_needed_step_length d g) tol g) = true ->
  d - tol <= dist <= d + tol + avg.
Proof.
  intros Hg. destruct (target_window avg d tol g Hg) as [-> ->]. unfold milestone_ok.
  destruct (ngtb dist (d + tol + avg)) eqn:E1; cbn [negb andb]; [intros HH; discriminate HH|].
  destruct (nltb dist (d - tol)) eqn:E2; cbn [negb andb]; [intros HH; discriminate HH|].
  intros _. cmp_hyps. lra.
Qed.

(* bounds on intermediate path nodes only reject more: they cannot widen the target's window *)
Lemma intermediate_bounds_monotone k avg d tol : 0 <= avg -> 1 <= k ->
  upper_bound 1 avg d tol <= upper_bound k avg d tol.
Proof. intros Ha Hk. unfold upper_bound, num in *. nra. Qed.

(* sampled end-to-end distances: every element a + k*a of arange(a, m, a) below m lies in [a, m) *)
Lemma ee_samples_in_range a m (k : nat) : 0 < a -> a + INR k * a < m -> a <= a + INR k * a < m.
Proof. intros Ha Hlt. split; [|exact Hlt]. pose proof (pos_INR k). nra. Qed.

Example ex_sphere : in_sphere (1, 1, 1) (MIn, (1, 1, 2), 3 / 2) = true /\ in_sphere (1, 1, 1) (MOut, (1, 1, 2), 3 / 2) = false.
Proof.
  assert (E : vnorm (vsub (1, 1, 2) (1, 1, 1)) = 1).
  { vunfold. replace ((1 - 1) * (1 - 1) + (1 - 1) * (1 - 1) + (2 - 1) * (2 - 1)) with 1 by ring. apply sqrt_1. }
  unfold in_sphere, tproj3_0, tproj3_1, tproj3_2. cbv zeta. cbn [fst snd mode_is_in mode_is_out andb]. rewrite E.
  split.
  - destruct (ngtb 1 (3 / 2)) eqn:E1; [apply ngtb_true in E1; lra|reflexivity].
  - destruct (nltb 1 (3 / 2)) eqn:E1; [reflexivity|apply nltb_false in E1; lra].
Qed.
