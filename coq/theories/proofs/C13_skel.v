(* C13, tie T: the .itp reader of gen_params (PolyplyParser) remembers which blocks and links the force field held before
   it read its file; its edge-making step leaves those alone (F38: the result does not depend on the order of input files). *)
From Coq Require Import String.
From PV Require Import Gen_parser.
Open Scope string_scope.

Lemma gen_parser_scope :
  parser_known_blocks = "dict(force_field.blocks)" /\ parser_known_links = "len(force_field.links)".
Proof. split; reflexivity. Qed.
