(* Gen-independent linear algebra over R used by C05/C06/C15/C16. *)
From Coq Require Import Reals Lra List Nsatz.
From PV Require Import RNum.
Import ListNotations.
Open Scope R_scope.

Definition orth (M : mat) : Prop :=
  vdot (mcol0 M) (mcol0 M) = 1 /\ vdot (mcol1 M) (mcol1 M) = 1 /\ vdot (mcol2 M) (mcol2 M) = 1 /\
  vdot (mcol0 M) (mcol1 M) = 0 /\ vdot (mcol0 M) (mcol2 M) = 0 /\ vdot (mcol1 M) (mcol2 M) = 0.

Lemma orth_isometry M a b : orth M -> vdot (mvmul M a) (mvmul M b) = vdot a b.
Proof.
  unfold orth; intros (H00 & H11 & H22 & H01 & H02 & H12).
  vdestruct; vunfold. nsatz.
Qed.

Lemma mvmul_sub M a b : mvmul M (vsub a b) = vsub (mvmul M a) (mvmul M b).
Proof. vdestruct; vunfold; apply vec_eq; ring. Qed.
Lemma mvmul_add M a b : mvmul M (vadd a b) = vadd (mvmul M a) (mvmul M b).
Proof. vdestruct; vunfold; apply vec_eq; ring. Qed.
Lemma mvmul_zero M : mvmul M vzero = vzero.
Proof. vdestruct; vunfold; apply vec_eq; ring. Qed.
Lemma mvmul_scale M s a : mvmul M (vscale s a) = vscale s (mvmul M a).
Proof. vdestruct; vunfold; apply vec_eq; ring. Qed.

(* (Ma) . (Mb x Mc) = det M * a . (b x c): a polynomial identity, no hypothesis on M *)
Lemma triple_det M a b c :
  vdot (mvmul M a) (vcross (mvmul M b) (mvmul M c)) = mdet M * vdot a (vcross b c).
Proof. vdestruct; vunfold; ring. Qed.

Lemma mvmul_vsum M l : mvmul M (vsum l) = vsum (map (mvmul M) l).
Proof.
  induction l as [|x xs IH]; cbn [vsum fold_right map].
  - apply mvmul_zero.
  - fold (vsum xs). rewrite mvmul_add, IH. reflexivity.
Qed.

(* ---- composition: orthogonality and determinant are multiplicative ---- *)
Lemma mvmul_mmul A B x : mvmul (mmul A B) x = mvmul A (mvmul B x).
Proof. vdestruct; vunfold; apply vec_eq; ring. Qed.

Lemma iso_orth M : (forall a b, vdot (mvmul M a) (mvmul M b) = vdot a b) -> orth M.
Proof.
  intros H. unfold orth.
  pose proof (H (1,0,0) (1,0,0)) as H00. pose proof (H (0,1,0) (0,1,0)) as H11.
  pose proof (H (0,0,1) (0,0,1)) as H22. pose proof (H (1,0,0) (0,1,0)) as H01.
  pose proof (H (1,0,0) (0,0,1)) as H02. pose proof (H (0,1,0) (0,0,1)) as H12.
  clear H. vdestruct; vunfold.
  repeat split; nsatz.
Qed.

Lemma orth_mmul A B : orth A -> orth B -> orth (mmul A B).
Proof.
  intros HA HB. apply iso_orth. intros a b.
  rewrite !mvmul_mmul, (orth_isometry A) by exact HA. apply orth_isometry; exact HB.
Qed.

Lemma mdet_mmul A B : mdet (mmul A B) = mdet A * mdet B.
Proof. vdestruct; vunfold; ring. Qed.
