(* C08: inlining theorem for unconditional #include of table-only files (see C08_inline_base.v for the step lemmas). *)
From Coq Require Import String Ascii List Bool Arith Lia.
From PV Require Import TopPre Gen_top C08_top C08_inline_base.
Import ListNotations.
Open Scope string_scope.

Section Inline2.
  Variable fs : string -> option (list string).
  Variable rd : string -> list string -> shared -> result shared.
  Let known := top_known_sections.

  Lemma content_keeps_tbl cwd s line t :
    starts "#" line = false -> starts "*" line = false -> starts "[" line = false ->
    tbl s -> plain_sec (d_sec s) = true ->
    do_line top_known_sections fs rd cwd s line = Ok t -> tbl t /\ d_sec t = d_sec s.
  Proof.
    intros Hh Hst Hbr (H1 & H2) Hp. unfold do_line. rewrite Hh, Hst, Hbr. cbv delta [known].
    destruct (d_sec s) as [|x [|y r]] eqn:Es; cbn [plain_sec] in Hp; try discriminate.
    - unfold do_content. rewrite Es. cbn. discriminate.
    - assert (Hx1 : String.eqb x "moleculetype" = false) by (apply (plain_name_not_moltype fs rd); exact Hp).
      destruct (do_content_plain s line x Es Hx1) as [E|[E|(sh & E)]]; rewrite E; intros E'; try discriminate;
        injection E' as <-; unfold tbl; cbn [d_sec d_itp d_itps with_sh]; auto.
  Qed.

  (* ---- the two directors run over the same lines in states that differ in the register only ---- *)
  Lemma simulation cwd : forall ls synced s secA secB,
    tbl s -> plain_sec secA = true -> plain_sec secB = true -> (synced = true -> secA = secB) ->
    tbl_lines synced ls = true ->
    match do_lines known fs rd cwd (set_sec s secA) ls, do_lines known fs rd cwd (set_sec s secB) ls with
    | Ok tA, Ok tB => exists t secA' secB', tA = set_sec t secA' /\ tB = set_sec t secB' /\ tbl t /\
                                            plain_sec secA' = true /\ plain_sec secB' = true
    | Err e1, Err e2 => e1 = e2
    | _, _ => False
    end.
  Proof.
    unfold known. induction ls as [|raw r IH]; intros synced s secA secB Ht HA HB Hsync Hwf.
    - cbn [do_lines]. exists s, secA, secB. split; [reflexivity|split; [reflexivity|split; [exact Ht|split; assumption]]].
    - cbn [do_lines tbl_lines] in *. destruct (String.eqb (clean raw) "") eqn:Eempty.
      { apply (IH synced); assumption. }
      set (line := clean raw) in *.
      destruct (starts "#" line) eqn:Eh; [|destruct (starts "*" line) eqn:Est].
      + (* pragma *)
        rewrite !(pragma_sec_indep fs rd cwd s _ line (or_introl Eh)).
        destruct (do_line top_known_sections fs rd cwd s line) as [t|e] eqn:E; cbn [rmap]; cbv beta iota zeta; [|reflexivity].
        destruct (pragma_keeps_tbl fs rd cwd s line t (or_introl Eh) Ht E) as [Ht' _].
        apply (IH synced); assumption.
      + (* star line *)
        rewrite !(pragma_sec_indep fs rd cwd s _ line (or_intror Est)).
        destruct (do_line top_known_sections fs rd cwd s line) as [t|e] eqn:E; cbn [rmap]; cbv beta iota zeta; [|reflexivity].
        destruct (pragma_keeps_tbl fs rd cwd s line t (or_intror Est) Ht E) as [Ht' _].
        apply (IH synced); assumption.
      + destruct (starts "[" line) eqn:Ebr.
        * (* header: both registers become the header's section *)
          apply andb_prop in Hwf. destruct Hwf as [Hp Hwf].
          rewrite (header_sync fs rd cwd s secA line Ht HA Eh Est Ebr Hp), (header_sync fs rd cwd s secB line Ht HB Eh Est Ebr Hp).
          assert (Hpl : plain_sec [section_name line] = true).
          { unfold plain_hdr in Hp. apply andb_prop in Hp. destruct Hp as [_ Hp]. exact Hp. }
          apply (IH true); try assumption. reflexivity.
        * (* content: only where the registers coincide *)
          apply andb_prop in Hwf. destruct Hwf as [Hs Hwf]. subst synced. rewrite <- (Hsync eq_refl) in *.
          destruct (do_line top_known_sections fs rd cwd (set_sec s secA) line) as [t|e] eqn:E; [|reflexivity].
          destruct (content_keeps_tbl cwd (set_sec s secA) line t Eh Est Ebr (tbl_set_sec s secA Ht) HA E) as [Ht' Hsec'].
          cbn [d_sec set_sec] in Hsec'.
          rewrite <- (set_sec_id t), Hsec'.
          apply (IH true); try assumption. reflexivity.
  Qed.
End Inline2.

Section Inline3.
  Variable fs : string -> option (list string).

  (* ---- a director that met only tables hands the shared record on unchanged ---- *)
  Lemma finalize_tbl t : tbl t -> d_meta t = None -> finalize false t = Ok (d_sh t).
  Proof.
    intros (H1 & H2) Hm. unfold finalize, itp_nonempty. rewrite H1, H2, Hm. cbn [forallb negb orb].
    rewrite !app_nil_r. destruct (d_sh t); reflexivity.
  Qed.

  Lemma fresh_is_set_sec s : tbl s -> d_meta s = None -> fresh (d_sh s) = set_sec s [].
  Proof. intros (H1 & H2) Hm. unfold fresh, set_sec. rewrite H1, H2, Hm. reflexivity. Qed.

  (* ---- the inlining theorem ---- *)
  Theorem include_inlined fuel cwd s line p rest ls' :
    tbl s -> d_meta s = None -> plain_sec (d_sec s) = true ->
    plain_pragma line -> tokens line = "#include" :: p :: rest ->
    let filename := if String.eqb cwd "" then unquote p else join cwd (unquote p) in
    fs filename = Some ls' -> tbl_lines false ls' = true ->
    do_line top_known_sections fs (read top_known_sections fs (S fuel)) cwd s line =
    match do_lines top_known_sections fs (read top_known_sections fs fuel) (dirname filename) s ls' with
    | Ok s' => match d_meta s' with None => Ok (set_sec s' (d_sec s)) | Some _ => Err ErrIO end
    | Err e => Err e
    end.
  Proof.
    intros Ht Hm Hp Hpl Htok filename Hfs Hwf.
    rewrite (include_condition top_known_sections fs (read top_known_sections fs (S fuel)) cwd s line p rest Hpl Htok).
    unfold active. rewrite Hm. cbv zeta. fold filename. rewrite Hfs.
    cbn [read]. rewrite (fresh_is_set_sec s Ht Hm).
    pose proof (simulation fs (read top_known_sections fs fuel) (dirname filename) ls' false s [] (d_sec s) Ht eq_refl Hp
                           (fun H => match Bool.diff_false_true H with end) Hwf) as Sim.
    rewrite (set_sec_id s) in Sim.
    destruct (do_lines top_known_sections fs (read top_known_sections fs fuel) (dirname filename) (set_sec s []) ls') as [tA|eA];
      destruct (do_lines top_known_sections fs (read top_known_sections fs fuel) (dirname filename) s ls') as [tB|eB];
      try contradiction.
    - destruct Sim as (t & a' & b' & -> & -> & Ht' & _ & _).
      change (d_meta (set_sec t b')) with (d_meta t).
      destruct (d_meta t) as [m|] eqn:Em.
      + unfold finalize. change (d_meta (set_sec t a')) with (d_meta t). rewrite Em.
        destruct (itp_nonempty (set_sec t a')); reflexivity.
      + rewrite (finalize_tbl (set_sec t a') (tbl_set_sec t a' Ht') Em). f_equal.
        destruct Ht as (H1 & H2). destruct Ht' as (K1 & K2).
        unfold with_sh, set_sec. cbn [d_sec d_meta d_itp d_itps d_sh].
        rewrite H1, H2, K1, K2, Hm, Em. reflexivity.
    - subst eB. reflexivity.
  Qed.
End Inline3.

(* the register left behind by the include is forgotten at the next header *)
Lemma register_forgotten fs rd cwd s secA secB line :
  tbl s -> plain_sec secA = true -> plain_sec secB = true ->
  starts "#" line = false -> starts "*" line = false -> starts "[" line = true -> plain_hdr line = true ->
  do_line top_known_sections fs rd cwd (set_sec s secA) line = do_line top_known_sections fs rd cwd (set_sec s secB) line.
Proof.
  intros Ht HA HB H1 H2 H3 H4.
  rewrite (header_sync fs rd cwd s secA line Ht HA H1 H2 H3 H4), (header_sync fs rd cwd s secB line Ht HB H1 H2 H3 H4). reflexivity.
Qed.

(* non-vacuity: a force-field file with tables, a define, a conditional and a nested include *)
Definition ex_fs (p : string) : option (list string) :=
  if String.eqb p "ff/ff.itp" then Some ["; force field"; "[ atomtypes ]"; "TA 12.0 0.0 A 0.3 1.0"; "#define FLEX"; "#ifdef FLEX";
                                          "#include ""bonded.itp"""; "#endif"; "[ nonbond_params ]"; "TA TA 1 0.3 1.0"]
  else if String.eqb p "ff/bonded.itp" then Some ["[ bondtypes ]"; "TA TA 1 0.15 1000"]
  else None.
Definition ex_state : dstate :=
  {| d_sec := ["defaults"]; d_meta := None; d_itp := None; d_itps := [];
     d_sh := {| sh_defaults := [["1"; "2"; "no"; "1.0"; "1.0"]]; sh_defines := []; sh_content := []; sh_blocks := []; sh_mols := [] |} |}.
Example ex_inlined :
  tbl ex_state /\ tbl_lines false ["; force field"; "[ atomtypes ]"; "TA 12.0 0.0 A 0.3 1.0"; "#define FLEX"; "#ifdef FLEX";
                                    "#include ""bonded.itp"""; "#endif"; "[ nonbond_params ]"; "TA TA 1 0.3 1.0"] = true /\
  exists s', do_line top_known_sections ex_fs (read top_known_sections ex_fs 3) "" ex_state "#include ""ff/ff.itp""" = Ok s' /\
             List.length (sh_content (d_sh s')) = 3%nat /\ defined (sh_defines (d_sh s')) "FLEX" = true /\ d_sec s' = ["defaults"].
Proof.
  split; [repeat split|]. split; [vm_compute; reflexivity|].
  eexists. split; [vm_compute; reflexivity|]. vm_compute. repeat split.
Qed.
