(* C07: the depth-first search tree of a ring of ANY size, node labelling, adjacency order and
   root is the Hamiltonian path that leaves the root through its first-listed neighbour and ends
   at its second-listed neighbour; the pair restrained by _initialize_cylces is therefore joined
   by the one ring edge the tree leaves out (the closing edge). *)
From Coq Require Import ZArith List Bool Lia Arith.
From PV Require Import Dfs.
Import ListNotations.
Open Scope Z_scope.

Lemma memz_In u l : memz u l = true <-> In u l.
Proof.
  unfold memz. rewrite existsb_exists. split.
  - intros (x & Hx & E). apply Z.eqb_eq in E. subst. exact Hx.
  - intros H. exists u. split; [exact H|apply Z.eqb_refl].
Qed.
Lemma memz_false u l : memz u l = false <-> ~ In u l.
Proof. rewrite <- memz_In. destruct (memz u l); split; congruence. Qed.

Definition chain (node : nat -> Z) (k m : nat) : list (Z * Z) :=
  map (fun i => (node i, node (S i))) (seq k m).

Section Ring.
  Variable n : nat.
  Variable adj : Z -> list Z.
  Hypothesis Hn : (3 <= n)%nat.

  Definition sc (k : nat) : nat := if (S k =? n)%nat then 0%nat else S k.
  Definition pd (k : nat) : nat := if (k =? 0)%nat then (n - 1)%nat else (k - 1)%nat.

  (* node k (k < n) are the residues in ring order under some labelling *)
  Definition is_ring (node : nat -> Z) : Prop :=
    (forall i j, (i < n)%nat -> (j < n)%nat -> node i = node j -> i = j) /\
    (forall k, (k < n)%nat ->
       adj (node k) = [node (pd k); node (sc k)] \/ adj (node k) = [node (sc k); node (pd k)]).

  Section Forward.
    Variable node : nat -> Z.
    Hypothesis ring : is_ring node.

    Lemma chain_walk : forall m k vis fuel,
      (k + m = n - 1)%nat -> (1 <= k)%nat -> (m < fuel)%nat ->
      (forall j, (j <= k)%nat -> In (node j) vis) ->
      (forall j, (k < j < n)%nat -> ~ In (node j) vis) ->
      exists vis', dfs adj fuel (node k) vis = (chain node k m, vis') /\
                   (forall x, In x vis -> In x vis') /\ (forall j, (j < n)%nat -> In (node j) vis').
    Proof.
      destruct ring as [inj adjr].
      induction m as [|m IH]; intros k vis fuel Hkm Hk Hf Hin Hout.
      - destruct fuel as [|f]; [lia|]. cbn [dfs]. assert (Hk' : k = (n - 1)%nat) by lia.
        assert (Hpd : pd k = (k - 1)%nat) by (unfold pd; destruct (Nat.eqb_spec k 0); [lia|reflexivity]).
        assert (Hsc : sc k = 0%nat) by (unfold sc; destruct (Nat.eqb_spec (S k) n); [reflexivity|lia]).
        assert (M1 : memz (node (k - 1)%nat) vis = true) by (apply memz_In, Hin; lia).
        assert (M0 : memz (node 0%nat) vis = true) by (apply memz_In, Hin; lia).
        exists vis. split.
        + destruct (adjr k ltac:(lia)) as [E|E]; rewrite E, Hpd, Hsc; cbn [fold_left fst snd]; rewrite ?M1, ?M0; cbn [fst snd]; rewrite ?M1, ?M0; reflexivity.
        + split; [tauto|]. intros j Hj. apply Hin. lia.
      - destruct fuel as [|f]; [lia|]. cbn [dfs].
        assert (Hpd : pd k = (k - 1)%nat) by (unfold pd; destruct (Nat.eqb_spec k 0); [lia|reflexivity]).
        assert (Hsc : sc k = S k) by (unfold sc; destruct (Nat.eqb_spec (S k) n); [lia|reflexivity]).
        assert (M1 : memz (node (k - 1)%nat) vis = true) by (apply memz_In, Hin; lia).
        assert (M2 : memz (node (S k)) vis = false) by (apply memz_false, Hout; lia).
        destruct (IH (S k) (node (S k) :: vis) f ltac:(lia) ltac:(lia) ltac:(lia)) as (vis' & E' & Hsub & Hall).
        { intros j Hj. destruct (Nat.eq_dec j (S k)) as [->|Hne]; [left; reflexivity|right; apply Hin; lia]. }
        { intros j Hj [Heq|Hj']; [apply inj in Heq; lia|apply (Hout j); [lia|exact Hj']]. }
        assert (M1' : memz (node (k - 1)%nat) vis' = true) by (apply memz_In, Hall; lia).
        exists vis'. split.
        + destruct (adjr k ltac:(lia)) as [E|E]; rewrite E, Hpd, Hsc; cbn [fold_left fst snd].
          * rewrite M1. cbn [fst snd]. rewrite M2, E'. cbn [fst snd app]. unfold chain. cbn [seq map]. reflexivity.
          * rewrite M2, E'. cbn [fst snd app]. rewrite M1'. unfold chain. cbn [seq map]. reflexivity.
        + split; [|exact Hall]. intros x Hx. apply Hsub. right; exact Hx.
    Qed.

    (* the root lists its ring successor first *)
    Lemma dfs_forward_fuel fuel : (n <= fuel)%nat -> adj (node 0%nat) = [node 1%nat; node (n - 1)%nat] ->
      fst (dfs adj fuel (node 0%nat) [node 0%nat]) = chain node 0 (n - 1).
    Proof.
      intros Hfuel E. destruct ring as [inj adjr]. destruct fuel as [|f]; [lia|]. cbn [dfs]. rewrite E.
      cbn [fold_left fst snd].
      assert (M : memz (node 1%nat) [node 0%nat] = false).
      { apply memz_false. intros [Heq|[]]. apply inj in Heq; lia. }
      rewrite M.
      destruct (chain_walk (n - 2) 1 [node 1%nat; node 0%nat] f) as (vis' & E' & Hsub & Hall); try lia.
      { intros j Hj. destruct j as [|[|j]]; [right; left; reflexivity|left; reflexivity|lia]. }
      { intros j Hj [Heq|[Heq|[]]]; apply inj in Heq; lia. }
      rewrite E'. cbn [fst snd app].
      assert (M' : memz (node (n - 1)%nat) vis' = true) by (apply memz_In, Hall; lia).
      rewrite M'. cbn [fst]. unfold chain. assert (Hl : (n - 1 = S (n - 2))%nat) by lia. rewrite Hl. cbn [seq map]. reflexivity.
    Qed.
    Lemma dfs_forward : adj (node 0%nat) = [node 1%nat; node (n - 1)%nat] ->
      dfs_edges adj n (node 0%nat) = chain node 0 (n - 1).
    Proof. apply dfs_forward_fuel. lia. Qed.
  End Forward.

  Lemma pd0 : pd 0 = (n - 1)%nat. Proof. reflexivity. Qed.
  Lemma sc0 : sc 0 = 1%nat. Proof. unfold sc. destruct (Nat.eqb_spec 1 n); [lia|reflexivity]. Qed.

  (* the same ring walked the other way round *)
  Definition mirror (node : nat -> Z) (k : nat) : Z := node (if (k =? 0)%nat then 0%nat else (n - k)%nat).

  Lemma mirror_ring node : is_ring node -> is_ring (mirror node).
  Proof.
    intros [inj adjr]. split.
    - intros i j Hi Hj H. unfold mirror in H. apply inj in H;
        destruct (Nat.eqb_spec i 0); destruct (Nat.eqb_spec j 0); lia.
    - intros k Hk. unfold mirror.
      assert (Hidx : ((if (k =? 0)%nat then 0 else n - k) < n)%nat) by (destruct (Nat.eqb_spec k 0); lia).
      assert (P : (if (pd k =? 0)%nat then 0%nat else (n - pd k)%nat) = sc (if (k =? 0)%nat then 0%nat else (n - k)%nat)).
      { unfold pd, sc. destruct (Nat.eqb_spec k 0) as [->|Hk0].
        - destruct (Nat.eqb_spec (n - 1) 0); [lia|]. destruct (Nat.eqb_spec 1 n); lia.
        - destruct (Nat.eqb_spec (k - 1) 0); destruct (Nat.eqb_spec (S (n - k)) n); lia. }
      assert (S' : (if (sc k =? 0)%nat then 0%nat else (n - sc k)%nat) = pd (if (k =? 0)%nat then 0%nat else (n - k)%nat)).
      { unfold pd, sc. destruct (Nat.eqb_spec k 0) as [->|Hk0].
        - destruct (Nat.eqb_spec 1 n); [lia|]. cbn [Nat.eqb]. reflexivity.
        - destruct (Nat.eqb_spec (S k) n); [cbn [Nat.eqb]|destruct (Nat.eqb_spec (S k) 0); [lia|]];
            destruct (Nat.eqb_spec (n - k) 0); lia. }
      rewrite P, S'. destruct (adjr _ Hidx) as [E|E]; rewrite E; [right|left]; reflexivity.
  Qed.

  Theorem ring_dfs_tree node : is_ring node ->
    exists lab, is_ring lab /\ lab 0%nat = node 0%nat /\
      adj (node 0%nat) = [lab 1%nat; lab (n - 1)%nat] /\
      dfs_edges adj n (node 0%nat) = chain lab 0 (n - 1) /\
      (forall j, (0 < j < n)%nat -> exists j', (0 < j' < n)%nat /\ lab j' = node j).
  Proof.
    intros R. pose proof R as [inj adjr]. destruct (adjr 0%nat ltac:(lia)) as [E|E].
    - exists (mirror node). split; [apply mirror_ring; exact R|]. split; [reflexivity|].
      assert (E2 : adj (mirror node 0%nat) = [mirror node 1%nat; mirror node (n - 1)%nat]).
      { unfold mirror. change (0 =? 0)%nat with true. change (1 =? 0)%nat with false. cbv iota.
        destruct (Nat.eqb_spec (n - 1) 0); [lia|].
        replace (n - (n - 1))%nat with 1%nat by lia. rewrite E, pd0, sc0. reflexivity. }
      split; [exact E2|]. split; [apply (dfs_forward (mirror node) (mirror_ring node R) E2)|].
      intros j Hj. exists (n - j)%nat. split; [lia|]. unfold mirror. destruct (Nat.eqb_spec (n - j) 0); [lia|].
      f_equal. lia.
    - exists node. split; [exact R|]. split; [reflexivity|].
      assert (E2 : adj (node 0%nat) = [node 1%nat; node (n - 1)%nat]).
      { rewrite E, pd0, sc0. reflexivity. }
      split; [exact E2|]. split; [apply (dfs_forward node R E2)|]. intros j Hj. exists j. split; [lia|reflexivity].
  Qed.

  (* ---- the DiGraph edge order of a chain is the chain itself *)
  Lemma chain_sources lab k m : map snd (chain lab k m) = map lab (seq (S k) m).
  Proof. unfold chain. rewrite map_map. cbn [snd]. rewrite <- seq_shift, map_map. reflexivity. Qed.

  Lemma filter_chain_none lab (inj : forall i j, (i < n)%nat -> (j < n)%nat -> lab i = lab j -> i = j) :
    forall m k u, (k + m <= n)%nat -> (u < n)%nat -> (u < k \/ k + m <= u)%nat ->
    filter (fun e => fst e =? lab u) (chain lab k m) = [].
  Proof.
    induction m as [|m IH]; intros k u Hkm Hu Hout; [reflexivity|].
    unfold chain. cbn [seq map filter fst]. destruct (Z.eqb_spec (lab k) (lab u)) as [Heq|_].
    - apply inj in Heq; lia.
    - apply (IH (S k) u); lia.
  Qed.

  Lemma flat_map_ext_in' {A B} (f g : A -> list B) l : (forall x, In x l -> f x = g x) -> flat_map f l = flat_map g l.
  Proof.
    induction l as [|a l IH]; intros H; [reflexivity|]. cbn [flat_map]. rewrite (H a (or_introl eq_refl)).
    f_equal. apply IH. intros x Hx. apply H. right; exact Hx.
  Qed.

  Lemma tree_order_chain lab (inj : forall i j, (i < n)%nat -> (j < n)%nat -> lab i = lab j -> i = j) :
    forall m k, (k + m <= n - 1)%nat ->
    flat_map (fun u => filter (fun e => fst e =? u) (chain lab k m)) (map lab (seq k (S m))) = chain lab k m.
  Proof.
    induction m as [|m IH]; intros k Hkm.
    - cbn. reflexivity.
    - assert (CS : chain lab k (S m) = (lab k, lab (S k)) :: chain lab (S k) m) by reflexivity.
      rewrite CS. change (seq k (S (S m))) with (k :: seq (S k) (S m)). cbn [map flat_map].
      cbn [filter fst]. rewrite Z.eqb_refl.
      rewrite (filter_chain_none lab inj m (S k) k) by lia. cbn [app]. f_equal.
      transitivity (flat_map (fun u => filter (fun e => fst e =? u) (chain lab (S k) m)) (map lab (seq (S k) (S m))));
        [|apply IH; lia].
      apply flat_map_ext_in'. intros u Hu. apply in_map_iff in Hu. destruct Hu as (j & <- & Hj). apply in_seq in Hj.
      cbn [filter fst]. destruct (Z.eqb_spec (lab k) (lab j)) as [Heq|_]; [apply inj in Heq; lia|reflexivity].
  Qed.

  Lemma last_cons_head {A} (l : list A) : forall a d, last (a :: l) d = last l a.
  Proof.
    induction l as [|b l IH]; intros a d; [reflexivity|].
    change (last (a :: b :: l) d) with (last (b :: l) d). rewrite (IH b d), (IH b a). reflexivity.
  Qed.

  Lemma last_chain lab : forall m k, last (chain lab (S k) m) (lab k, lab (S k)) = (lab (k + m)%nat, lab (S (k + m))).
  Proof.
    induction m as [|m IH]; intros k.
    - cbn. rewrite Nat.add_0_r. reflexivity.
    - unfold chain. cbn [seq map]. fold (chain lab (S (S k)) m). rewrite last_cons_head, IH.
      f_equal; f_equal; lia.
  Qed.

  Theorem ring_cycle_pair node : is_ring node ->
    exists a b, adj (node 0%nat) = [a; b] /\ a <> b /\
      cycle_pair adj n (node 0%nat) = Some (node 0%nat, b) /\
      List.length (tree_edges adj n (node 0%nat)) = (n - 1)%nat /\
      hd_error (tree_edges adj n (node 0%nat)) = Some (node 0%nat, a) /\
      ~ In (node 0%nat, b) (tree_edges adj n (node 0%nat)) /\
      ~ In (b, node 0%nat) (tree_edges adj n (node 0%nat)) /\
      (forall j, (j < n)%nat -> j <> 0%nat -> In (node j) (map snd (tree_edges adj n (node 0%nat)))).
  Proof.
    intros R. destruct (ring_dfs_tree node R) as (lab & RL & L0 & Eadj & Edfs & Hsame).
    pose proof RL as [inj adjr].
    assert (Etree : tree_edges adj n (node 0%nat) = chain lab 0 (n - 1)).
    { unfold tree_edges. rewrite Edfs, chain_sources, <- L0.
      change (lab 0%nat :: map lab (seq 1 (n - 1))) with (map lab (seq 0 (S (n - 1)))).
      apply tree_order_chain; [exact inj|lia]. }
    exists (lab 1%nat), (lab (n - 1)%nat). split; [exact Eadj|].
    split; [intros Heq; apply inj in Heq; lia|].
    unfold cycle_pair. rewrite Etree, <- L0.
    assert (Ech : chain lab 0 (n - 1) = (lab 0%nat, lab 1%nat) :: chain lab 1 (n - 2)).
    { replace (n - 1)%nat with (S (n - 2)) by lia. reflexivity. }
    split.
    { rewrite Ech. cbn [fst]. rewrite last_chain. cbn [snd]. do 3 f_equal. lia. }
    split; [unfold chain; rewrite map_length, seq_length; reflexivity|].
    split; [rewrite Ech; reflexivity|].
    split.
    { unfold chain. rewrite in_map_iff. intros (i & Hi & Hs). apply in_seq in Hs.
      injection Hi as H1 H2. apply inj in H1; [|lia|lia]. subst i. apply inj in H2; lia. }
    split.
    { unfold chain. rewrite in_map_iff. intros (i & Hi & Hs). apply in_seq in Hs.
      injection Hi as H1 H2. apply inj in H2; [|lia|lia]. lia. }
    intros j Hj Hj0. rewrite chain_sources.
    destruct (Hsame j ltac:(lia)) as (j' & Hj' & <-). apply in_map. apply in_seq. lia.
  Qed.

  (* ---- the pair polyply restrains: the molecule edge the search tree leaves out, ends in discovery order ---- *)
  Lemma same_edge_spec f e : same_edge f e = true <-> f = e \/ f = (snd e, fst e).
  Proof.
    unfold same_edge. destruct f as [f1 f2], e as [e1 e2]. cbn [fst snd].
    rewrite orb_true_iff, !andb_true_iff, !Z.eqb_eq. split.
    - intros [[-> ->]|[-> ->]]; [left|right]; reflexivity.
    - intros [H|H]; injection H as -> ->; [left|right]; split; reflexivity.
  Qed.

  Lemma in_tree_spec t e : in_tree t e = true <-> In e t \/ In (snd e, fst e) t.
  Proof.
    unfold in_tree. rewrite existsb_exists. split.
    - intros (f & Hf & Hs). apply same_edge_spec in Hs. destruct Hs as [->| ->]; [left|right]; exact Hf.
    - intros [H|H]; eexists; (split; [exact H|]); apply same_edge_spec; [left|right]; reflexivity.
  Qed.

  Lemma in_chain lab i : (i < n - 1)%nat -> In (lab i, lab (S i)) (chain lab 0 (n - 1)).
  Proof. intros Hi. unfold chain. apply in_map_iff. exists i. split; [reflexivity|]. apply in_seq. lia. Qed.

  Lemma closing_not_in_chain lab (inj : forall i j, (i < n)%nat -> (j < n)%nat -> lab i = lab j -> i = j) :
    in_tree (chain lab 0 (n - 1)) (lab 0%nat, lab (n - 1)%nat) = false /\
    in_tree (chain lab 0 (n - 1)) (lab (n - 1)%nat, lab 0%nat) = false.
  Proof.
    assert (A : ~ In (lab 0%nat, lab (n - 1)%nat) (chain lab 0 (n - 1))).
    { unfold chain. rewrite in_map_iff. intros (i & Hi & Hs). apply in_seq in Hs.
      injection Hi as H1 H2. apply inj in H1; [|lia|lia]. subst i. apply inj in H2; lia. }
    assert (B : ~ In (lab (n - 1)%nat, lab 0%nat) (chain lab 0 (n - 1))).
    { unfold chain. rewrite in_map_iff. intros (i & Hi & Hs). apply in_seq in Hs.
      injection Hi as H1 H2. apply inj in H2; [|lia|lia]. lia. }
    split; apply not_true_iff_false; rewrite in_tree_spec; cbn [fst snd]; tauto.
  Qed.

  (* every edge of a ring is a tree edge (in one direction) or the closing edge (in one direction) *)
  Lemma ring_edge_class lab k x : is_ring lab -> (k < n)%nat -> In x (adj (lab k)) ->
    in_tree (chain lab 0 (n - 1)) (lab k, x) = true \/ (lab k, x) = (lab 0%nat, lab (n - 1)%nat) \/ (lab k, x) = (lab (n - 1)%nat, lab 0%nat).
  Proof.
    intros [inj adjr] Hk Hx.
    assert (Hc : x = lab (pd k) \/ x = lab (sc k)).
    { destruct (adjr k Hk) as [E|E]; rewrite E in Hx; cbn [In] in Hx; intuition. }
    destruct Hc as [-> | ->].
    - unfold pd. destruct (Nat.eqb_spec k 0) as [->|Hk0]; [right; left; reflexivity|].
      left. apply in_tree_spec. right. cbn [fst snd].
      replace (lab k) with (lab (S (k - 1))) by (f_equal; lia). apply in_chain. lia.
    - unfold sc. destruct (Nat.eqb_spec (S k) n) as [E|E].
      + right; right. replace k with (n - 1)%nat by lia. reflexivity.
      + left. apply in_tree_spec. left. apply in_chain. lia.
  Qed.

  Lemma index_of_head x r : index_of x (x :: r) = 0%nat.
  Proof. cbn [index_of]. rewrite Z.eqb_refl. reflexivity. Qed.
  Lemma index_of_other x y r : y <> x -> index_of x (y :: r) = S (index_of x r).
  Proof. intros H. cbn [index_of]. destruct (Z.eqb_spec y x); [contradiction|reflexivity]. Qed.

  Theorem ring_closing_pair node edges : is_ring node ->
    (forall e, In e edges -> (exists k, (k < n)%nat /\ fst e = node k) /\ In (snd e) (adj (fst e))) ->
    exists a b, adj (node 0%nat) = [a; b] /\ a <> b /\
      ((In (node 0%nat, b) edges \/ In (b, node 0%nat) edges) ->
       closing_pair adj edges n (node 0%nat) = Some (node 0%nat, b)) /\
      ~ In (node 0%nat, b) (tree_edges adj n (node 0%nat)) /\ ~ In (b, node 0%nat) (tree_edges adj n (node 0%nat)).
  Proof.
    intros R Hedges. destruct (ring_dfs_tree node R) as (lab & RL & L0 & Eadj & Edfs & Hsame).
    pose proof RL as [inj adjr].
    assert (Etree : tree_edges adj n (node 0%nat) = chain lab 0 (n - 1)).
    { unfold tree_edges. rewrite Edfs, chain_sources, <- L0.
      change (lab 0%nat :: map lab (seq 1 (n - 1))) with (map lab (seq 0 (S (n - 1)))).
      apply tree_order_chain; [exact inj|lia]. }
    destruct (closing_not_in_chain lab inj) as [NC1 NC2].
    exists (lab 1%nat), (lab (n - 1)%nat). split; [exact Eadj|].
    split; [intros Heq; apply inj in Heq; lia|].
    split.
    - intros Hlisted. unfold closing_pair. rewrite Etree.
      set (f := fun e => negb (in_tree (chain lab 0 (n - 1)) e)).
      assert (Hcls : forall e, In e (filter f edges) -> e = (lab 0%nat, lab (n - 1)%nat) \/ e = (lab (n - 1)%nat, lab 0%nat)).
      { intros e He. apply filter_In in He. destruct He as [He Hf]. unfold f in Hf. apply negb_true_iff in Hf.
        destruct (Hedges e He) as ((k & Hk & Ek) & Hin).
        assert (exists k', (k' < n)%nat /\ fst e = lab k') as (k' & Hk' & Ek').
        { destruct k as [|k]; [exists 0%nat; split; [lia|]; rewrite Ek, L0; reflexivity|].
          destruct (Hsame (S k) ltac:(lia)) as (j' & Hj' & Ej'). exists j'. split; [lia|]. rewrite Ek, Ej'. reflexivity. }
        rewrite Ek' in Hin. destruct (ring_edge_class lab k' (snd e) RL Hk' Hin) as [Ht|Hc].
        - rewrite <- Ek' in Ht. rewrite <- surjective_pairing in Ht. rewrite Ht in Hf. discriminate.
        - rewrite <- Ek', <- surjective_pairing in Hc. exact Hc. }
      assert (Hne : filter f edges <> []).
      { rewrite <- L0 in Hlisted. intros Hnil.
        destruct Hlisted as [H|H]; (eapply in_nil; rewrite <- Hnil; apply filter_In; split; [exact H|]); unfold f;
          [rewrite NC1|rewrite NC2]; reflexivity. }
      destruct (filter f edges) as [|e r] eqn:Ef; [contradiction|].
      assert (Hidx0 : index_of (lab 0%nat) (tree_nodes adj n (node 0%nat)) = 0%nat).
      { unfold tree_nodes. rewrite <- L0. apply index_of_head. }
      assert (Hidx1 : exists m, index_of (lab (n - 1)%nat) (tree_nodes adj n (node 0%nat)) = S m).
      { unfold tree_nodes. rewrite <- L0. eexists. apply index_of_other. intros Heq. apply inj in Heq; lia. }
      destruct Hidx1 as (m & Hidx1).
      destruct (Hcls e (or_introl eq_refl)) as [-> | ->]; unfold orient; cbn [fst snd]; rewrite Hidx0, Hidx1;
        unfold Nat.ltb; cbn [Nat.leb]; rewrite L0; reflexivity.
    - rewrite Etree, <- L0. split.
      + intros H. pose proof (proj2 (in_tree_spec _ (lab 0%nat, lab (n - 1)%nat)) (or_introl H)) as K. congruence.
      + intros H. pose proof (proj2 (in_tree_spec _ (lab (n - 1)%nat, lab 0%nat)) (or_introl H)) as K. congruence.
  Qed.

  (* whatever the molecule: when an edge is left out by the search tree the restrained pair is such an edge, read in the
     order the tree reached its ends; otherwise it is the pair of tree ends *)
  Theorem closing_pair_spec edges root p : closing_pair adj edges n root = Some p ->
    (exists e, In e edges /\ in_tree (tree_edges adj n root) e = false /\ p = orient (tree_nodes adj n root) e) \/
    ((forall e, In e edges -> in_tree (tree_edges adj n root) e = true) /\ cycle_pair adj n root = Some p).
  Proof.
    unfold closing_pair. set (f := fun e => negb (in_tree (tree_edges adj n root) e)).
    destruct (filter f edges) as [|e r] eqn:Ef.
    - intros H. right. split; [|exact H]. intros e He. destruct (in_tree (tree_edges adj n root) e) eqn:E; [reflexivity|].
      exfalso. eapply in_nil. rewrite <- Ef. apply filter_In. split; [exact He|]. unfold f. rewrite E. reflexivity.
    - intros H. injection H as <-. left. exists e.
      assert (He : In e (filter f edges)) by (rewrite Ef; left; reflexivity).
      apply filter_In in He. destruct He as [He Hf]. unfold f in Hf. apply negb_true_iff in Hf. auto.
  Qed.
End Ring.

(* non-vacuity: a ring of five residues with arbitrary keys, mixed adjacency orders, rooted at 7 *)
Definition ex_ring_adj : Z -> list Z :=
  adj_of [(7, [3; 11]); (3, [7; 20]); (20, [5; 3]); (5, [20; 11]); (11, [5; 7])].
Definition ex_ring_node (k : nat) : Z := nth k [7; 11; 5; 20; 3] 0.
Example ex_ring_is_ring : is_ring 5 ex_ring_adj ex_ring_node.
Proof.
  split.
  - intros i j Hi Hj. destruct i as [|[|[|[|[|i]]]]]; try lia; destruct j as [|[|[|[|[|j]]]]]; try lia; cbn; intros H; try reflexivity; discriminate.
  - intros k Hk. destruct k as [|[|[|[|[|k]]]]]; try lia; cbn; auto.
Qed.
Example ex_ring_pair : cycle_pair ex_ring_adj 5 7 = Some (7, 11) /\ tree_edges ex_ring_adj 5 7 = [(7, 3); (3, 20); (20, 5); (5, 11)].
Proof. vm_compute. split; reflexivity. Qed.

(* the same ring with a ligand residue 99 attached to the residue the search reaches last (11): the tree ends at the ligand,
   the restrained pair is still the closing edge of the ring *)
Definition ex_lig_adj : Z -> list Z :=
  adj_of [(7, [3; 11]); (3, [7; 20]); (20, [5; 3]); (5, [20; 11]); (11, [5; 7; 99]); (99, [11])].
Example ex_ring_with_ligand :
  cycle_pair ex_lig_adj 6 7 = Some (7, 99) /\
  closing_pair ex_lig_adj [(7, 3); (7, 11); (3, 20); (20, 5); (5, 11); (11, 99)] 6 7 = Some (7, 11).
Proof. vm_compute. split; reflexivity. Qed.
