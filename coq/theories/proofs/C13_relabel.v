(* C13: link application does not depend on how the residue graph is labelled and stored:
   other node keys, node insertion order, edge order and orientation give the same table. *)
From Coq Require Import ZArith String Ascii List Bool Lia Permutation Sorting.Sorted.
From PV Require Import Links C02_links.
Import ListNotations.
Open Scope Z_scope.

(* ---- the order on match keys is a total order ---- *)
Lemma str_leb_refl a : str_leb a a = true.
Proof. induction a as [|x r IH]; cbn [str_leb]; [reflexivity|]. rewrite Nat.ltb_irrefl, Nat.eqb_refl. exact IH. Qed.

Lemma nat_of_ascii_inj x y : nat_of_ascii x = nat_of_ascii y -> x = y.
Proof. intros H. rewrite <- (ascii_nat_embedding x), <- (ascii_nat_embedding y), H. reflexivity. Qed.

Lemma str_leb_total a : forall b, str_leb a b = true \/ str_leb b a = true.
Proof.
  induction a as [|x r IH]; intros [|y t]; cbn [str_leb]; auto.
  destruct (Nat.ltb_spec (nat_of_ascii x) (nat_of_ascii y)); [auto|].
  destruct (Nat.ltb_spec (nat_of_ascii y) (nat_of_ascii x)); [auto|].
  assert (E : nat_of_ascii x = nat_of_ascii y) by lia. rewrite E, Nat.eqb_refl. apply IH.
Qed.

Lemma str_leb_antisym a : forall b, str_leb a b = true -> str_leb b a = true -> a = b.
Proof.
  induction a as [|x r IH]; intros [|y t]; cbn [str_leb]; try discriminate; [reflexivity|].
  destruct (Nat.ltb_spec (nat_of_ascii x) (nat_of_ascii y)) as [H1 | H1];
    destruct (Nat.ltb_spec (nat_of_ascii y) (nat_of_ascii x)) as [H2 | H2]; try lia.
  - destruct (Nat.eqb_spec (nat_of_ascii y) (nat_of_ascii x)); [lia|discriminate].
  - destruct (Nat.eqb_spec (nat_of_ascii x) (nat_of_ascii y)); [lia|discriminate].
  - destruct (Nat.eqb_spec (nat_of_ascii x) (nat_of_ascii y)) as [E | E]; [|discriminate].
    rewrite E, Nat.eqb_refl. intros Ha Hb. rewrite (nat_of_ascii_inj _ _ E), (IH t Ha Hb). reflexivity.
Qed.

Lemma str_leb_trans a : forall b c, str_leb a b = true -> str_leb b c = true -> str_leb a c = true.
Proof.
  induction a as [|x r IH]; intros [|y t] [|z u]; cbn [str_leb]; try discriminate; try reflexivity.
  destruct (Nat.ltb_spec (nat_of_ascii x) (nat_of_ascii y)) as [H1 | H1].
  - intros _. destruct (Nat.ltb_spec (nat_of_ascii y) (nat_of_ascii z)) as [H2 | H2].
    + intros _. destruct (Nat.ltb_spec (nat_of_ascii x) (nat_of_ascii z)); [reflexivity|lia].
    + destruct (Nat.eqb_spec (nat_of_ascii y) (nat_of_ascii z)) as [E | E]; [|discriminate]. intros _.
      destruct (Nat.ltb_spec (nat_of_ascii x) (nat_of_ascii z)); [reflexivity|lia].
  - destruct (Nat.eqb_spec (nat_of_ascii x) (nat_of_ascii y)) as [E | E]; [|discriminate]. intros Hrt.
    destruct (Nat.ltb_spec (nat_of_ascii y) (nat_of_ascii z)) as [H2 | H2].
    + intros _. destruct (Nat.ltb_spec (nat_of_ascii x) (nat_of_ascii z)); [reflexivity|lia].
    + destruct (Nat.eqb_spec (nat_of_ascii y) (nat_of_ascii z)) as [E2 | E2]; [|discriminate]. intros Htu.
      destruct (Nat.ltb_spec (nat_of_ascii x) (nat_of_ascii z)); [reflexivity|].
      destruct (Nat.eqb_spec (nat_of_ascii x) (nat_of_ascii z)); [|lia]. exact (IH t u Hrt Htu).
Qed.

Lemma pair_leb_refl p : pair_leb p p = true.
Proof. unfold pair_leb. rewrite Z.ltb_irrefl, Z.eqb_refl. apply str_leb_refl. Qed.
Lemma pair_leb_total p q : pair_leb p q = true \/ pair_leb q p = true.
Proof.
  unfold pair_leb. destruct (Z.ltb_spec (fst p) (fst q)); [auto|]. destruct (Z.ltb_spec (fst q) (fst p)); [auto|].
  assert (E : fst p = fst q) by lia. rewrite E, Z.eqb_refl. apply str_leb_total.
Qed.
Lemma pair_leb_antisym p q : pair_leb p q = true -> pair_leb q p = true -> p = q.
Proof.
  unfold pair_leb. destruct p as [a s], q as [b t]. cbn [fst snd].
  destruct (Z.ltb_spec a b); destruct (Z.ltb_spec b a); try lia.
  - destruct (Z.eqb_spec b a); [lia|discriminate].
  - destruct (Z.eqb_spec a b); [lia|discriminate].
  - destruct (Z.eqb_spec a b) as [-> | ]; [|discriminate]. rewrite Z.eqb_refl. intros H1 H2. rewrite (str_leb_antisym _ _ H1 H2). reflexivity.
Qed.
Lemma pair_leb_trans p q r : pair_leb p q = true -> pair_leb q r = true -> pair_leb p r = true.
Proof.
  unfold pair_leb. destruct p as [a s], q as [b t], r as [c u]. cbn [fst snd].
  destruct (Z.ltb_spec a b).
  - intros _. destruct (Z.ltb_spec b c); [intros _; destruct (Z.ltb_spec a c); [reflexivity|lia]|].
    destruct (Z.eqb_spec b c); [|discriminate]. intros _. destruct (Z.ltb_spec a c); [reflexivity|lia].
  - destruct (Z.eqb_spec a b) as [-> | ]; [|discriminate]. intros H1.
    destruct (Z.ltb_spec b c); [reflexivity|]. destruct (Z.eqb_spec b c); [|discriminate]. intros H2. exact (str_leb_trans _ _ _ H1 H2).
Qed.

Lemma key_leb_refl k : key_leb k k = true.
Proof. induction k as [|x r IH]; cbn [key_leb]; [reflexivity|]. rewrite pair_leb_refl. cbn. exact IH. Qed.
Lemma key_leb_total a : forall b, key_leb a b = true \/ key_leb b a = true.
Proof.
  induction a as [|x r IH]; intros [|y t]; cbn [key_leb]; auto.
  destruct (pair_leb x y) eqn:E1, (pair_leb y x) eqn:E2; cbn; auto.
  destruct (pair_leb_total x y); congruence.
Qed.
Lemma key_leb_antisym a : forall b, key_leb a b = true -> key_leb b a = true -> a = b.
Proof.
  induction a as [|x r IH]; intros [|y t]; cbn [key_leb]; try discriminate; [reflexivity|].
  destruct (pair_leb x y) eqn:E1, (pair_leb y x) eqn:E2; cbn; try discriminate.
  intros H1 H2. rewrite (pair_leb_antisym _ _ E1 E2), (IH t H1 H2). reflexivity.
Qed.
Lemma key_leb_trans a : forall b c, key_leb a b = true -> key_leb b c = true -> key_leb a c = true.
Proof.
  induction a as [|x r IH]; intros [|y t] [|z u]; cbn [key_leb]; try discriminate; try reflexivity.
  destruct (pair_leb x y) eqn:Exy, (pair_leb y x) eqn:Eyx; cbn; try discriminate.
  - (* x = y *) pose proof (pair_leb_antisym _ _ Exy Eyx) as ->. intros H1.
    destruct (pair_leb y z) eqn:Eyz, (pair_leb z y) eqn:Ezy; cbn; try discriminate; [|reflexivity]. intros H2. exact (IH t u H1 H2).
  - (* x < y *) intros _. destruct (pair_leb y z) eqn:Eyz, (pair_leb z y) eqn:Ezy; cbn; try discriminate.
    + pose proof (pair_leb_antisym _ _ Eyz Ezy) as <-. intros _. rewrite Exy, Eyx. reflexivity.
    + intros _. rewrite (pair_leb_trans _ _ _ Exy Eyz). destruct (pair_leb z x) eqn:Ezx; [|reflexivity].
      rewrite (pair_leb_trans _ _ _ Ezx Exy) in Ezy. discriminate.
Qed.

(* ---- insertion sort: permutation, sortedness, uniqueness ---- *)
Section SortFacts.
Context {A : Type} (leb : A -> A -> bool).
Hypothesis leb_total : forall a b, leb a b = true \/ leb b a = true.
Hypothesis leb_trans : forall a b c, leb a b = true -> leb b c = true -> leb a c = true.

Lemma insert_perm x l : Permutation (x :: l) (insert_sorted leb x l).
Proof.
  induction l as [|y r IH]; cbn [insert_sorted]; [reflexivity|]. destruct (leb x y); [reflexivity|].
  rewrite perm_swap. constructor. exact IH.
Qed.
Lemma isort_perm l : Permutation l (isort_by leb l).
Proof. induction l as [|x r IH]; cbn [isort_by]; [reflexivity|]. rewrite <- insert_perm. constructor. exact IH. Qed.

Lemma insert_sorted_sorted x l : StronglySorted (fun a b => leb a b = true) l -> StronglySorted (fun a b => leb a b = true) (insert_sorted leb x l).
Proof.
  induction l as [|y r IH]; intros H; cbn [insert_sorted]; [constructor; constructor|].
  inversion H as [|? ? Hr Hy]; subst. destruct (leb x y) eqn:E.
  - constructor; [exact H|]. constructor; [exact E|]. rewrite Forall_forall in *. intros z Hz. exact (leb_trans _ _ _ E (Hy z Hz)).
  - constructor; [apply IH; exact Hr|]. rewrite Forall_forall in *. intros z Hz.
    apply (Permutation_in z (Permutation_sym (insert_perm x r))) in Hz. destruct Hz as [<- | Hz]; [|apply Hy; exact Hz].
    destruct (leb_total x y); [congruence|assumption].
Qed.
Lemma isort_sorted l : StronglySorted (fun a b => leb a b = true) (isort_by leb l).
Proof. induction l as [|x r IH]; cbn [isort_by]; [constructor|]. apply insert_sorted_sorted. exact IH. Qed.

(* two sorted lists with the same elements are equal when the order is antisymmetric on them *)
Lemma sorted_unique l1 : forall l2,
  StronglySorted (fun a b => leb a b = true) l1 -> StronglySorted (fun a b => leb a b = true) l2 -> Permutation l1 l2 ->
  (forall a b, In a l1 -> In b l1 -> leb a b = true -> leb b a = true -> a = b) -> l1 = l2.
Proof.
  induction l1 as [|x r IH]; intros l2 H1 H2 Hp Ha.
  - apply Permutation_nil in Hp. subst. reflexivity.
  - destruct l2 as [|y t]; [apply Permutation_sym, Permutation_nil in Hp; discriminate|].
    inversion H1 as [|? ? Hr Hx]; subst. inversion H2 as [|? ? Ht Hy]; subst. rewrite Forall_forall in Hx, Hy.
    assert (Exy : x = y).
    { assert (Hyin : In y (x :: r)) by (apply (Permutation_in y (Permutation_sym Hp)); left; reflexivity).
      assert (Hxin : In x (y :: t)) by (apply (Permutation_in x Hp); left; reflexivity).
      destruct Hyin as [E | Hyr]; [exact E|]. destruct Hxin as [E | Hxt]; [symmetry; exact E|].
      apply Ha; [left; reflexivity|right; exact Hyr|apply Hx; exact Hyr|apply Hy; exact Hxt]. }
    subst y. f_equal. apply IH; [exact Hr|exact Ht|exact (Permutation_cons_inv Hp)|].
    intros a b Hia Hib. apply Ha; right; assumption.
Qed.

Lemma isort_unique l1 l2 : Permutation l1 l2 ->
  (forall a b, In a l1 -> In b l1 -> leb a b = true -> leb b a = true -> a = b) -> isort_by leb l1 = isort_by leb l2.
Proof.
  intros Hp Ha. apply sorted_unique; [apply isort_sorted|apply isort_sorted| |].
  - rewrite <- (isort_perm l1), <- (isort_perm l2). exact Hp.
  - intros a b Hia Hib. apply Ha; apply (Permutation_in _ (Permutation_sym (isort_perm l1))); assumption.
Qed.
End SortFacts.

Lemma isort_map {A B} (lebA : A -> A -> bool) (lebB : B -> B -> bool) (f : A -> B) l :
  (forall a b, In a l -> In b l -> lebB (f a) (f b) = lebA a b) -> isort_by lebB (map f l) = map f (isort_by lebA l).
Proof.
  induction l as [|x r IH]; intros H; cbn [map isort_by]; [reflexivity|].
  rewrite IH by (intros a b Ha Hb; apply H; right; assumption).
  assert (G : forall s, (forall z, In z s -> In z r) -> insert_sorted lebB (f x) (map f s) = map f (insert_sorted lebA x s)).
  { induction s as [|y t IHs]; intros Hs; cbn [map insert_sorted]; [reflexivity|].
    rewrite (H x y (or_introl eq_refl) (or_intror (Hs y (or_introl eq_refl)))). destruct (lebA x y); [reflexivity|].
    cbn [map]. rewrite IHs by (intros z Hz; apply Hs; right; exact Hz). reflexivity. }
  apply G. intros z Hz. apply (isort_by_in lebA r z). exact Hz.
Qed.

(* ---- relabelled residue graphs ---- *)
Definition ren_node (f : Z -> Z) (n : mnode) : mnode := {| mn_key := f (mn_key n); mn_resid := mn_resid n; mn_atoms := mn_atoms n |}.
Definition ren_mu (f : Z -> Z) (mu : list (order * Z)) : list (order * Z) := map (fun p => (fst p, f (snd p))) mu.
Definition keys (g : meta) : list Z := map mn_key (m_nodes g).

(* g' is g with node keys renamed by the bijection f / finv; nodes and edges may be stored in any
   order and edges in any orientation; residue ids and the atoms of every residue are the same *)
Record relabelled (f finv : Z -> Z) (g g' : meta) : Prop := {
  r_nodes : Permutation (map (ren_node f) (m_nodes g)) (m_nodes g');
  r_edges : forall a b, In a (keys g) -> In b (keys g) -> has_medge g' (f a) (f b) = has_medge g a b;
  r_labels : forall a b, In a (keys g) -> In b (keys g) -> mlabel g' (f a) (f b) = mlabel g a b;
  r_inv : forall a, In a (keys g) -> finv (f a) = a;
  r_keys : NoDup (keys g);
  r_resids : NoDup (map mn_resid (m_nodes g)) }.

Lemma find_mnode_some ns k n : find_mnode ns k = Some n -> In n ns /\ mn_key n = k.
Proof.
  induction ns as [|m r IH]; cbn [find_mnode]; [discriminate|]. destruct (Z.eqb_spec (mn_key m) k) as [E | E].
  - intros H. injection H as <-. split; [left; reflexivity|exact E].
  - intros H. destruct (IH H) as [H1 H2]. split; [right; exact H1|exact H2].
Qed.
Lemma find_mnode_in ns n : NoDup (map mn_key ns) -> In n ns -> find_mnode ns (mn_key n) = Some n.
Proof.
  induction ns as [|m r IH]; intros Hnd Hin; [destruct Hin|]. cbn [find_mnode]. inversion Hnd as [|? ? Hnot Hr]; subst.
  destruct Hin as [-> | Hin]; [rewrite Z.eqb_refl; reflexivity|].
  destruct (Z.eqb_spec (mn_key m) (mn_key n)) as [E | E]; [exfalso; apply Hnot; rewrite E; apply in_map; exact Hin|apply IH; assumption].
Qed.
Lemma find_mnode_none ns k : ~ In k (map mn_key ns) -> find_mnode ns k = None.
Proof.
  induction ns as [|m r IH]; intros H; [reflexivity|]. cbn [find_mnode map In] in *. destruct (Z.eqb_spec (mn_key m) k); [tauto|apply IH; tauto].
Qed.

Lemma forallb_map_local {A B} (h : A -> B) (p : B -> bool) l : forallb p (map h l) = forallb (fun x => p (h x)) l.
Proof. induction l as [|x r IH]; cbn; [reflexivity|]. rewrite IH. reflexivity. Qed.
Lemma forallb_ext_in_local {A} (p q : A -> bool) l : (forall x, In x l -> p x = q x) -> forallb p l = forallb q l.
Proof. induction l as [|x r IH]; intros H; cbn; [reflexivity|]. rewrite (H x (or_introl eq_refl)), IH; [reflexivity|intros y Hy; apply H; right; exact Hy]. Qed.

Section Relabel.
Variables (f finv : Z -> Z) (g g' : meta).
Hypothesis R : relabelled f finv g g'.

Lemma f_inj a b : In a (keys g) -> In b (keys g) -> f a = f b -> a = b.
Proof. intros Ha Hb E. rewrite <- (r_inv _ _ _ _ R a Ha), <- (r_inv _ _ _ _ R b Hb), E. reflexivity. Qed.

Lemma keys'_perm : Permutation (map f (keys g)) (keys g').
Proof. unfold keys. rewrite <- (Permutation_map mn_key (r_nodes _ _ _ _ R)), !map_map. reflexivity. Qed.

Lemma nodup_map_inj {A B} (h : A -> B) l : NoDup l -> (forall a b, In a l -> In b l -> h a = h b -> a = b) -> NoDup (map h l).
Proof.
  induction l as [|x r IH]; intros Hn Hi; cbn [map]; [constructor|]. inversion Hn as [|? ? Hx Hr]; subst. constructor.
  - intros Hin. apply in_map_iff in Hin. destruct Hin as (y & E & Hy). apply Hx. rewrite (Hi x y (or_introl eq_refl) (or_intror Hy) (eq_sym E)). exact Hy.
  - apply IH; [exact Hr|intros a b Ha Hb; apply Hi; right; assumption].
Qed.

Lemma keys'_nodup : NoDup (keys g').
Proof. apply (Permutation_NoDup keys'_perm). apply nodup_map_inj; [exact (r_keys _ _ _ _ R)|exact f_inj]. Qed.

Lemma find_ren k n : find_mnode (m_nodes g) k = Some n -> find_mnode (m_nodes g') (f k) = Some (ren_node f n).
Proof.
  intros H. destruct (find_mnode_some _ _ _ H) as [Hin Hk]. subst k.
  change (f (mn_key n)) with (mn_key (ren_node f n)). apply find_mnode_in; [exact keys'_nodup|].
  apply (Permutation_in _ (r_nodes _ _ _ _ R)). apply in_map. exact Hin.
Qed.
Lemma find_key_in k : In k (keys g) -> exists n, find_mnode (m_nodes g) k = Some n.
Proof.
  intros H. unfold keys in H. apply in_map_iff in H. destruct H as (n & E & Hin). exists n. subst k. apply find_mnode_in; [exact (r_keys _ _ _ _ R)|exact Hin].
Qed.

Definition mu_in (mu : list (order * Z)) : Prop := forall n, In n (map snd mu) -> In n (keys g).

Lemma match_key_ren mu : mu_in mu -> match_key g' (ren_mu f mu) = match_key g mu.
Proof.
  intros Hin. unfold match_key, ren_mu. rewrite map_map. f_equal. apply map_ext_in. intros [o n] Hp. cbn [fst snd].
  destruct (find_key_in n) as [nd Hf]; [apply Hin; apply in_map_iff; exists (o, n); auto|]. rewrite Hf, (find_ren _ _ Hf). reflexivity.
Qed.

Lemma order_ok_ren mu : mu_in mu -> order_ok g' (ren_mu f mu) = order_ok g mu.
Proof.
  intros Hin. unfold order_ok, ren_mu. f_equal. rewrite flat_map_concat_map, flat_map_concat_map, map_map. f_equal. apply map_ext_in.
  intros [o n] Hp. cbn [fst snd]. destruct (find_key_in n) as [nd Hf]; [apply Hin; apply in_map_iff; exists (o, n); auto|].
  rewrite Hf, (find_ren _ _ Hf). reflexivity.
Qed.

Lemma induced_ok_ren l mu : mu_in mu -> induced_ok g' l (ren_mu f mu) = induced_ok g l mu.
Proof.
  intros Hin. unfold induced_ok, ren_mu. rewrite forallb_map_local. apply forallb_ext_in_local. intros [o n] Hp. rewrite forallb_map_local. apply forallb_ext_in_local.
  intros [o2 n2] Hq. cbn [fst snd]. destruct (order_eqb o o2); [reflexivity|].
  assert (Hn : In n (keys g)) by (apply Hin; apply in_map_iff; exists (o, n); auto).
  assert (Hn2 : In n2 (keys g)) by (apply Hin; apply in_map_iff; exists (o2, n2); auto).
  rewrite (r_edges _ _ _ _ R n n2 Hn Hn2), (r_labels _ _ _ _ R n n2 Hn Hn2). reflexivity.
Qed.
End Relabel.

(* ---- the candidate assignments are duplicate free ---- *)
Lemma NoDup_app_local {A} (l1 l2 : list A) : NoDup l1 -> NoDup l2 -> (forall z, In z l1 -> In z l2 -> False) -> NoDup (l1 ++ l2).
Proof.
  induction l1 as [|x r IH]; intros H1 H2 Hd; cbn [app]; [exact H2|]. inversion H1 as [|? ? Hx Hr]; subst. constructor.
  - intros Hin. apply in_app_iff in Hin. destruct Hin as [Hin | Hin]; [contradiction|exact (Hd x (or_introl eq_refl) Hin)].
  - apply IH; [exact Hr|exact H2|intros z Hz; apply Hd; right; exact Hz].
Qed.

Lemma nodup_flat_map {A B} (h : A -> list B) l :
  NoDup l -> (forall x, In x l -> NoDup (h x)) ->
  (forall x y z, In x l -> In y l -> x <> y -> In z (h x) -> In z (h y) -> False) -> NoDup (flat_map h l).
Proof.
  induction l as [|a r IH]; intros Hn Hh Hd; cbn [flat_map]; [constructor|]. inversion Hn as [|? ? Ha Hr]; subst.
  apply NoDup_app_local.
  - apply Hh. left. reflexivity.
  - apply IH; [exact Hr|intros x Hx; apply Hh; right; exact Hx|intros x y z Hx Hy; apply Hd; right; assumption].
  - intros z Hz1 Hz2. apply in_flat_map in Hz2. destruct Hz2 as (y & Hy & Hzy).
    apply (Hd a y z (or_introl eq_refl) (or_intror Hy)); [intros ->; contradiction|exact Hz1|exact Hzy].
Qed.

Lemma assignments_nodup orders nodes : NoDup nodes -> NoDup (assignments orders nodes).
Proof.
  intros Hn. induction orders as [|o rest IH]; cbn [assignments]; [constructor; [intros []|constructor]|].
  apply nodup_flat_map; [exact IH| |].
  - intros mu _. apply nodup_flat_map; [exact Hn| |].
    + intros n _. destruct (existsb _ mu); constructor; [intros []|constructor].
    + intros x y z _ _ Hne Hx Hy. destruct (existsb (fun p => snd p =? x) mu); [destruct Hx|]. destruct (existsb (fun p => snd p =? y) mu); [destruct Hy|].
      destruct Hx as [<- | []]. destruct Hy as [E | []]. injection E as E. congruence.
  - intros mu1 mu2 z _ _ Hne H1 H2. apply in_flat_map in H1. destruct H1 as (n1 & _ & H1). apply in_flat_map in H2. destruct H2 as (n2 & _ & H2).
    destruct (existsb (fun p => snd p =? n1) mu1); [destruct H1|]. destruct (existsb (fun p => snd p =? n2) mu2); [destruct H2|].
    destruct H1 as [<- | []]. destruct H2 as [E | []]. injection E as _ E. congruence.
Qed.

Lemma in_nodup_map_inj {A B} (h : A -> B) l a b : NoDup (map h l) -> In a l -> In b l -> h a = h b -> a = b.
Proof.
  induction l as [|x r IH]; intros Hn Ha Hb E; [destruct Ha|]. cbn [map] in Hn. inversion Hn as [|? ? Hx Hr]; subst.
  destruct Ha as [-> | Ha], Hb as [-> | Hb]; [reflexivity| | |apply IH; assumption].
  - exfalso. apply Hx. rewrite E. apply in_map. exact Hb.
  - exfalso. apply Hx. rewrite <- E. apply in_map. exact Ha.
Qed.

Lemma same_fst_incl_eq {A B} (l1 : list (A * B)) : forall l2, map fst l1 = map fst l2 -> NoDup (map fst l1) -> (forall p, In p l1 -> In p l2) -> l1 = l2.
Proof.
  induction l1 as [|[a b] r IH]; intros [|[a2 b2] t] Hf Hn Hi; cbn [map] in *; try discriminate; [reflexivity|].
  injection Hf as <- Hf. inversion Hn as [|? ? Ha Hr]; subst.
  assert (Eb : b = b2).
  { destruct (Hi (a, b) (or_introl eq_refl)) as [E | Hin]; [injection E as ->; reflexivity|].
    exfalso. apply Ha. rewrite Hf. apply in_map_iff. exists (a, b). split; [reflexivity|exact Hin]. }
  subst b2. f_equal. apply IH; [exact Hf|exact Hr|]. intros p Hp. destruct (Hi p (or_intror Hp)) as [E | Hin]; [|exact Hin].
  exfalso. apply Ha. subst p. apply in_map_iff. exists (a, b). split; [reflexivity|exact Hp].
Qed.

Section RelabelMatches.
Variables (f finv : Z -> Z) (g g' : meta).
Hypothesis R : relabelled f finv g g'.
Variable l : link.
Hypothesis orders_distinct : NoDup (map order_str (l_res_nodes l)).

Let P (mu : list (order * Z)) := induced_ok g l mu && order_ok g mu.
Let P' (mu : list (order * Z)) := induced_ok g' l mu && order_ok g' mu.
Let C := filter P (assignments (l_res_nodes l) (keys g)).
Let C' := filter P' (assignments (l_res_nodes l) (keys g')).

Lemma C_in mu : In mu C -> mu_in g mu /\ map fst mu = l_res_nodes l /\ NoDup (map snd mu).
Proof.
  unfold C. rewrite filter_In, assignments_spec. intros ((H1 & H2 & H3) & _). split; [exact H3|split; assumption].
Qed.

Lemma ren_fst mu : map fst (ren_mu f mu) = map fst mu.
Proof. unfold ren_mu. rewrite map_map. reflexivity. Qed.
Lemma ren_snd h mu : map snd (ren_mu h mu) = map h (map snd mu).
Proof. unfold ren_mu. rewrite !map_map. reflexivity. Qed.

Lemma f_in_keys' k : In k (keys g) -> In (f k) (keys g').
Proof. intros H. apply (Permutation_in _ (keys'_perm f finv g g' R)). apply in_map. exact H. Qed.
Lemma keys'_preimage k' : In k' (keys g') -> exists k, In k (keys g) /\ f k = k'.
Proof. intros H. apply (Permutation_in _ (Permutation_sym (keys'_perm f finv g g' R))) in H. apply in_map_iff in H. destruct H as (k & E & Hk). eauto. Qed.

Lemma ren_inv mu : mu_in g mu -> ren_mu finv (ren_mu f mu) = mu.
Proof.
  intros Hin. unfold ren_mu. rewrite map_map. rewrite <- (map_id mu) at 2. apply map_ext_in. intros [o n] Hp. cbn [fst snd].
  rewrite (r_inv _ _ _ _ R n); [reflexivity|]. apply Hin. apply in_map_iff. exists (o, n). auto.
Qed.

Lemma cand_perm : Permutation (map (ren_mu f) C) C'.
Proof.
  apply NoDup_Permutation.
  - apply nodup_map_inj.
    + unfold C. apply NoDup_filter. apply assignments_nodup. exact (r_keys _ _ _ _ R).
    + intros a b Ha Hb E. rewrite <- (ren_inv a), <- (ren_inv b), E by (apply C_in; assumption). reflexivity.
  - unfold C'. apply NoDup_filter. apply assignments_nodup. exact (keys'_nodup f finv g g' R).
  - intros x. split.
    + intros Hx. apply in_map_iff in Hx. destruct Hx as (mu & <- & Hmu). destruct (C_in mu Hmu) as (Hin & Hf & Hn).
      unfold C'. apply filter_In. split.
      * apply assignments_spec. rewrite ren_fst, ren_snd. split; [exact Hf|]. split.
        { apply nodup_map_inj; [exact Hn|]. intros a b Ha Hb. apply (f_inj f finv g g' R); apply Hin; assumption. }
        { intros n Hn'. apply in_map_iff in Hn'. destruct Hn' as (k & <- & Hk). apply f_in_keys'. apply Hin. exact Hk. }
      * unfold P'. rewrite (induced_ok_ren f finv g g' R l mu Hin), (order_ok_ren f finv g g' R mu Hin).
        unfold C in Hmu. apply filter_In in Hmu. exact (proj2 Hmu).
    + intros Hx. unfold C' in Hx. apply filter_In in Hx. destruct Hx as [Ha Hp]. apply assignments_spec in Ha. destruct Ha as (Hf & Hn & Hk).
      assert (Hright : forall n', In n' (map snd x) -> f (finv n') = n').
      { intros n' Hn'. destruct (keys'_preimage n' (Hk n' Hn')) as (k & Hk' & <-). rewrite (r_inv _ _ _ _ R k Hk'). reflexivity. }
      set (mu := ren_mu finv x).
      assert (Hback : ren_mu f mu = x).
      { subst mu. unfold ren_mu. rewrite map_map. rewrite <- (map_id x) at 2. apply map_ext_in. intros [o n'] Hp'. cbn [fst snd].
        rewrite Hright; [reflexivity|]. apply in_map_iff. exists (o, n'). auto. }
      assert (Hmuin : mu_in g mu).
      { intros n Hn0. subst mu. rewrite ren_snd in Hn0. apply in_map_iff in Hn0. destruct Hn0 as (n' & <- & Hn').
        destruct (keys'_preimage n' (Hk n' Hn')) as (k & Hk' & <-). rewrite (r_inv _ _ _ _ R k Hk'). exact Hk'. }
      apply in_map_iff. exists mu. split; [exact Hback|]. unfold C. apply filter_In. split.
      * apply assignments_spec. split; [subst mu; unfold ren_mu; rewrite map_map; exact Hf|]. split; [|exact Hmuin].
        subst mu. rewrite ren_snd. apply nodup_map_inj; [exact Hn|]. intros a b Ha Hb E. rewrite <- (Hright a Ha), <- (Hright b Hb), E. reflexivity.
      * unfold P. rewrite <- (induced_ok_ren f finv g g' R l mu Hmuin), <- (order_ok_ren f finv g g' R mu Hmuin), Hback. exact Hp.
Qed.


(* the sort key identifies a candidate: residue ids are distinct and so are the order labels *)
Lemma resid_inj k1 k2 n1 n2 : find_mnode (m_nodes g) k1 = Some n1 -> find_mnode (m_nodes g) k2 = Some n2 -> mn_resid n1 = mn_resid n2 -> k1 = k2.
Proof.
  intros H1 H2 E. destruct (find_mnode_some _ _ _ H1) as [I1 <-]. destruct (find_mnode_some _ _ _ H2) as [I2 <-].
  rewrite (in_nodup_map_inj mn_resid (m_nodes g) n1 n2 (r_resids _ _ _ _ R) I1 I2 E). reflexivity.
Qed.

Definition kp (p : order * Z) : Z * string :=
  (match find_mnode (m_nodes g) (snd p) with Some n => mn_resid n | None => 0 end, order_str (fst p)).

Lemma match_key_inj mu1 mu2 : In mu1 C -> In mu2 C -> match_key g mu1 = match_key g mu2 -> mu1 = mu2.
Proof.
  intros H1 H2 E. destruct (C_in mu1 H1) as (I1 & F1 & N1). destruct (C_in mu2 H2) as (I2 & F2 & N2).
  assert (Hp : Permutation (map kp mu1) (map kp mu2)).
  { unfold match_key in E. fold kp in E. rewrite (isort_perm pair_leb (map kp mu1)), (isort_perm pair_leb (map kp mu2)).
    change (fun p : order * Z => (match find_mnode (m_nodes g) (snd p) with Some n => mn_resid n | None => 0 end, order_str (fst p))) with kp in E.
    rewrite E. reflexivity. }
  apply same_fst_incl_eq; [rewrite F1, F2; reflexivity| |].
  - rewrite F1. apply (NoDup_map_inv order_str). exact orders_distinct.
  - intros [o n] Hin. assert (Hk : In (kp (o, n)) (map kp mu2)) by (apply (Permutation_in _ Hp); apply in_map; exact Hin).
    apply in_map_iff in Hk. destruct Hk as ([o2 n2] & Ek & Hin2). unfold kp in Ek. cbn [fst snd] in Ek. injection Ek as Er Eo.
    assert (Ho : o2 = o).
    { apply (in_nodup_map_inj order_str (l_res_nodes l)); [exact orders_distinct| | |exact Eo].
      - rewrite <- F2. apply in_map_iff. exists (o2, n2). auto.
      - rewrite <- F1. apply in_map_iff. exists (o, n). auto. }
    subst o2. destruct (find_key_in f finv g g' R n) as [nd Hnd]; [apply I1; apply in_map_iff; exists (o, n); auto|].
    destruct (find_key_in f finv g g' R n2) as [nd2 Hnd2]; [apply I2; apply in_map_iff; exists (o, n2); auto|].
    rewrite Hnd, Hnd2 in Er. rewrite (resid_inj n n2 nd nd2 Hnd Hnd2 (eq_sym Er)). exact Hin2.
Qed.

(* the matches of the relabelled graph are the renamed matches of the original one, in the same order *)
Theorem residue_matches_relabel : residue_matches g' l = map (ren_mu f) (residue_matches g l).
Proof.
  unfold residue_matches. fold (keys g) (keys g'). fold P P'. fold C C'.
  set (leb := fun a b => key_leb (match_key g a) (match_key g b)). set (leb' := fun a b => key_leb (match_key g' a) (match_key g' b)).
  rewrite <- (isort_map leb leb' (ren_mu f) C).
  - symmetry. apply isort_unique.
    + intros a b. apply key_leb_total.
    + intros a b c. apply key_leb_trans.
    + exact cand_perm.
    + intros a b Ha Hb H1 H2. apply in_map_iff in Ha. destruct Ha as (ma & <- & Hma). apply in_map_iff in Hb. destruct Hb as (mb & <- & Hmb).
      unfold leb' in H1, H2. rewrite !(match_key_ren f finv g g' R) in H1, H2 by (apply C_in; assumption).
      rewrite (match_key_inj ma mb Hma Hmb (key_leb_antisym _ _ H1 H2)). reflexivity.
  - intros a b Ha Hb. unfold leb, leb'. rewrite !(match_key_ren f finv g g' R) by (apply C_in; assumption). reflexivity.
Qed.

Lemma matches_in mu : In mu (residue_matches g l) -> mu_in g mu.
Proof. intros H. apply residue_matches_exact in H. destruct H as ((_ & _ & H) & _). exact H. Qed.

Lemma mu_get_ren mu o : mu_get (ren_mu f mu) o = option_map f (mu_get mu o).
Proof. induction mu as [|[o' n] r IH]; cbn [ren_mu map mu_get fst snd]; [reflexivity|]. destruct (order_eqb o' o); [reflexivity|exact IH]. Qed.

Lemma mu_get_in mu o n : mu_get mu o = Some n -> In n (map snd mu).
Proof. induction mu as [|[o' k] r IH]; cbn [mu_get map snd]; [discriminate|]. destruct (order_eqb o' o); [intros H; injection H as ->; left; reflexivity|intros H; right; exact (IH H)]. Qed.

(* atoms are found through the residue, whose content is unchanged *)
Lemma match_atoms_ren mu las : mu_in g mu -> match_atoms g' (ren_mu f mu) las = match_atoms g mu las.
Proof.
  intros Hin. induction las as [|la rest IH]; cbn [match_atoms]; [reflexivity|]. rewrite mu_get_ren.
  destruct (mu_get mu (la_order la)) as [nk|] eqn:E; cbn [option_map]; [|reflexivity].
  destruct (find_key_in f finv g g' R nk (Hin nk (mu_get_in _ _ _ E))) as [nd Hnd]. rewrite Hnd, (find_ren f finv g g' R nk nd Hnd). cbn [ren_node mn_atoms].
  rewrite IH. reflexivity.
Qed.
End RelabelMatches.

(* ---- the theorem: same writes, same replacements, same edges, same table ---- *)
Section RelabelTheorem.
Variables (f finv : Z -> Z) (g g' : meta).
Hypothesis R : relabelled f finv g g'.

Lemma flat_map_ext_in {A B} (h1 h2 : A -> list B) l : (forall x, In x l -> h1 x = h2 x) -> flat_map h1 l = flat_map h2 l.
Proof. induction l as [|x r IH]; intros H; cbn [flat_map]; [reflexivity|]. rewrite (H x (or_introl eq_refl)), IH; [reflexivity|intros y Hy; apply H; right; exact Hy]. Qed.

Theorem link_writes_relabel l : NoDup (map order_str (l_res_nodes l)) ->
  link_writes g' l = link_writes g l /\ link_replaces g' l = link_replaces g l /\ link_edges g' l = link_edges g l.
Proof.
  intros Hd. unfold link_writes, link_replaces, link_edges. rewrite (residue_matches_relabel f finv g g' R l Hd).
  rewrite !flat_map_concat_map, !map_map, <- !flat_map_concat_map.
  repeat split; apply flat_map_ext_in; intros mu Hmu; rewrite (match_atoms_ren f finv g g' R mu (l_atoms l) (matches_in g l mu Hmu)); reflexivity.
Qed.

Theorem apply_links_relabel blocks links : Forall (fun l => NoDup (map order_str (l_res_nodes l))) links ->
  apply_links g' blocks links = apply_links g blocks links /\
  flat_map (link_replaces g') links = flat_map (link_replaces g) links /\
  flat_map (link_edges g') links = flat_map (link_edges g) links.
Proof.
  intros Hall. rewrite Forall_forall in Hall. unfold apply_links, all_writes.
  repeat split; [f_equal; f_equal| |]; apply flat_map_ext_in; intros l Hl; apply (link_writes_relabel l (Hall l Hl)).
Qed.
End RelabelTheorem.

(* non-vacuity: a three-residue chain stored with other keys, node order and edge orientation *)
Open Scope string_scope.
Definition ex_at (k : Z) : ratom := {| ra_key := k; ra_name := "EC"; ra_resname := "PEO"; ra_attrs := [] |}.
Definition ex_g : meta :=
  {| m_nodes := [{| mn_key := 0; mn_resid := 1; mn_atoms := [ex_at 0] |}; {| mn_key := 1; mn_resid := 2; mn_atoms := [ex_at 1] |};
                 {| mn_key := 2; mn_resid := 3; mn_atoms := [ex_at 2] |}]; m_edges := [(0, 1); (1, 2)];
     m_labels := [(1, 2, "a16")] |}.
Definition ex_g' : meta :=
  {| m_nodes := [{| mn_key := 5; mn_resid := 2; mn_atoms := [ex_at 1] |}; {| mn_key := 12; mn_resid := 1; mn_atoms := [ex_at 0] |};
                 {| mn_key := 9; mn_resid := 3; mn_atoms := [ex_at 2] |}]; m_edges := [(9, 5); (5, 12)];
     m_labels := [(9, 5, "a16")] |}.
Definition ex_f (k : Z) : Z := if Z.eqb k 0 then 12 else if Z.eqb k 1 then 5 else 9.
Definition ex_finv (k : Z) : Z := if Z.eqb k 12 then 0 else if Z.eqb k 5 then 1 else 2.

Example ex_relabelled : relabelled ex_f ex_finv ex_g ex_g'.
Proof.
  constructor.
  - cbn. apply perm_swap.
  - intros a b Ha Hb. cbn in Ha, Hb.
    destruct Ha as [<- | [<- | [<- | []]]]; destruct Hb as [<- | [<- | [<- | []]]]; reflexivity.
  - intros a b Ha Hb. cbn in Ha, Hb.
    destruct Ha as [<- | [<- | [<- | []]]]; destruct Hb as [<- | [<- | [<- | []]]]; reflexivity.
  - intros a Ha. cbn in Ha. destruct Ha as [<- | [<- | [<- | []]]]; reflexivity.
  - cbn. repeat constructor; cbn; intuition discriminate.
  - cbn. repeat constructor; cbn; intuition discriminate.
Qed.

Example ex_relabel_links :
  let la k o := {| la_key := k; la_name := "EC"; la_order := o; la_resnames := ["PEO"]; la_replace := []; la_attrs := [] |} in
  let l := {| l_atoms := [la "EC" (ONum 0); la "+EC" (ONum 1)];
              l_inters := [{| li_sec := "bonds"; li_atoms := ["EC"; "+EC"]; li_params := ["1"; "0.33"; "7000"]; li_version := 1; li_meta := [] |}];
              l_edges := [("EC", "+EC")]; l_res_nodes := [ONum 0; ONum 1]; l_res_edges := [(ONum 0, ONum 1)]; l_res_labels := [] |} in
  apply_links ex_g' [] [l] = apply_links ex_g [] [l] /\ List.length (apply_links ex_g [] [l]) = 1%nat.
Proof.
  cbv zeta. split; [|vm_compute; reflexivity].
  apply (apply_links_relabel ex_f ex_finv ex_g ex_g' ex_relabelled). constructor; [|constructor]. cbn. repeat constructor; cbn; intuition discriminate.
Qed.
