(* C05: the step as translated from random_walk._take_step / linalg_functions.pbc_complete /
   topology.lorentz_berthelot_rule: inside the box, exactly one step long under minimum image. *)
From Coq Require Import Reals Lra Lia ZArith List Bool.
From PV Require Import RNum Mode Tproj Gen_linalg_R Gen_walk_R Gen_engine_R C16_kernels.
Open Scope R_scope.

Lemma take_step_eq s c L v : take_step s c L v = vmod (vadd c (vscale_r v s)) L.
Proof. unfold take_step, pbc_complete. reflexivity. Qed.

(* every generated position lies inside the periodic box *)
Lemma step_in_box s c L v : 0 < v0 L -> 0 < v1 L -> 0 < v2 L ->
  let p := take_step s c L v in
  0 <= v0 p < v0 L /\ 0 <= v1 p < v1 L /\ 0 <= v2 p < v2 L.
Proof.
  intros H0 H1 H2. cbv zeta. rewrite take_step_eq.
  destruct c as [[c0 c1] c2], L as [[L0 L1] L2], v as [[x y] z]. vunfold.
  repeat split; apply nmod_range; assumption.
Qed.

(* one component: the minimum image of a displacement d with |d| <= L/2, from any start c *)
Lemma min_image_small_disp c d L : 0 < L -> Rabs d <= L / 2 ->
  Rmin (nmod (nmod (c + d) L - c) L) (nmod (c - nmod (c + d) L) L) = Rabs d.
Proof.
  intros HL Hd.
  set (k := Int_part ((c + d) / L)).
  assert (E1 : nmod (c + d) L - c = d + IZR (- k) * L) by (unfold nmod, nfloor; fold k; rewrite opp_IZR; ring).
  assert (E2 : c - nmod (c + d) L = - d + IZR k * L) by (unfold nmod, nfloor; fold k; ring).
  rewrite E1, E2, !nmod_add by lra.
  destruct (Rle_dec 0 d) as [Hp|Hn].
  - rewrite Rabs_right in * by lra.
    assert (Ed : nmod d L = d).
    { unfold nmod, nfloor. rewrite (Int_part_unique (d / L) 0); [simpl; ring|].
      simpl. split; [apply Rmult_le_pos; [lra|left; apply Rinv_0_lt_compat; lra]|].
      apply Rmult_lt_reg_r with L; [lra|]. unfold Rdiv. rewrite Rmult_assoc, Rinv_l by lra. lra. }
    rewrite Ed. destruct (Req_dec d 0) as [->|Hnz].
    + replace (- 0) with 0 by ring. rewrite Ed. apply Rmin_left. lra.
    + assert (En : nmod (- d) L = L - d).
      { unfold nmod, nfloor. rewrite (Int_part_unique (- d / L) (-1)); [simpl; ring|].
        simpl. split.
        - apply Rmult_le_reg_r with L; [lra|]. unfold Rdiv. rewrite Rmult_assoc, Rinv_l by lra. lra.
        - apply Rmult_lt_reg_r with L; [lra|]. unfold Rdiv. rewrite Rmult_assoc, Rinv_l by lra. lra. }
      rewrite En. apply Rmin_left. lra.
  - rewrite Rabs_left in * by lra.
    assert (En : nmod (- d) L = - d).
    { unfold nmod, nfloor. rewrite (Int_part_unique (- d / L) 0); [simpl; ring|].
      simpl. split; [apply Rmult_le_pos; [lra|left; apply Rinv_0_lt_compat; lra]|].
      apply Rmult_lt_reg_r with L; [lra|]. unfold Rdiv. rewrite Rmult_assoc, Rinv_l by lra. lra. }
    assert (Ed : nmod d L = L + d).
    { unfold nmod, nfloor. rewrite (Int_part_unique (d / L) (-1)); [simpl; ring|].
      simpl. split.
      - apply Rmult_le_reg_r with L; [lra|]. unfold Rdiv. rewrite Rmult_assoc, Rinv_l by lra. lra.
      - apply Rmult_lt_reg_r with L; [lra|]. unfold Rdiv. rewrite Rmult_assoc, Rinv_l by lra. lra. }
    rewrite En, Ed. apply Rmin_right. lra.
Qed.

Lemma Rabs_sq a : Rabs a * Rabs a = a * a.
Proof. destruct (Rle_dec 0 a); [rewrite Rabs_right by lra|rewrite Rabs_left by lra]; ring. Qed.

(* the generated position is exactly one step from the residue it was grown from, under the
   minimum-image convention, for every unit vector and every box at least two steps wide *)
Lemma step_length_min_image s c L v : 0 < v0 L -> 0 < v1 L -> 0 < v2 L -> 0 <= s ->
  vdot v v = 1 ->
  s * Rabs (v0 v) <= v0 L / 2 -> s * Rabs (v1 v) <= v1 L / 2 -> s * Rabs (v2 v) <= v2 L / 2 ->
  pbc_min_norm (pbc_min_vec (take_step s c L v) c L) = s.
Proof.
  intros H0 H1 H2 Hs Hu B0 B1 B2. rewrite take_step_eq. unfold pbc_min_norm. rewrite pbc_min_vec_components.
  destruct c as [[c0 c1] c2], L as [[L0 L1] L2], v as [[x y] z]. vunfold.
  rewrite (min_image_small_disp c0 (x * s) L0 H0), (min_image_small_disp c1 (y * s) L1 H1),
          (min_image_small_disp c2 (z * s) L2 H2)
    by (rewrite Rabs_mult, (Rabs_right s) by lra; lra).
  replace (Rabs (x * s) * Rabs (x * s) + Rabs (y * s) * Rabs (y * s) + Rabs (z * s) * Rabs (z * s))
    with (s * s * (x * x + y * y + z * z)).
  - rewrite Hu, Rmult_1_r. apply sqrt_square. exact Hs.
  - rewrite !Rabs_sq. ring.
Qed.

(* step length: the walk multiplies step_fudge by the first component of the pair parameters,
   which from_topology sets to the Lorentz-Berthelot mean of the two residue sizes *)
Lemma lb_sigma_is_mean a b ea eb : fst (lorentz_berthelot_rule a b ea eb) = (a + b) / 2.
Proof. reflexivity. Qed.

Example ex_step : exists s c L v,
  0 < v0 L /\ 0 <= s /\ vdot v v = 1 /\ s * Rabs (v0 v) <= v0 L / 2 /\
  pbc_min_norm (pbc_min_vec (take_step s c L v) c L) = s.
Proof.
  exists (1/2), (49/10, 1, 1), (5, 5, 5), (1, 0, 0).
  assert (H5 : 0 < 5) by lra.
  split; [vunfold; lra|]. split; [lra|]. split; [vunfold; ring|].
  split; [vunfold; rewrite Rabs_right by lra; lra|].
  apply step_length_min_image; vunfold; try lra; try ring;
    rewrite ?Rabs_R0, ?Rabs_right by lra; lra.
Qed.
