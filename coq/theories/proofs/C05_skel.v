(* C05/C07: side conditions on the guard skeletons regenerated from random_walk.py,
   build_system.py, meta_molecule.py, persistence.py (Gen_walk_skel). *)
From Coq Require Import String List Bool Reals.
From PV Require Import RNum Tproj Gen_walk_skel Gen_engine_R C16_kernels.
Import ListNotations.
Open Scope string_scope.

(* every position added by update_positions passed all five tests, the overlap test among them *)
Lemma gen_accept_guards :
  In "not self._is_overlap(new_point, current_node)" accept_conjuncts /\
  In "fulfill_geometrical_constraints(new_point, self.molecule.nodes[current_node])" accept_conjuncts /\
  In "self.checks_milestones(current_node, new_point, step_length)" accept_conjuncts /\
  In "is_restricted(step_end, last_point, self.molecule.nodes[current_node])" accept_conjuncts /\
  accept_conjuncts_call = "self.nonbond_matrix.add_positions(new_point, self.mol_idx, current_node, start=False)".
Proof. vm_compute. intuition. Qed.

(* the direction test looks at the step itself (the new point is wrapped into the box) *)
Lemma gen_step_end : step_end_def = "last_point + vector_bundle[index] * step_length".
Proof. reflexivity. Qed.

Lemma gen_first_guards :
  In "not self._is_overlap(self.start, first_node)" first_accept_conjuncts /\
  In "constrained" first_accept_conjuncts /\
  constrained_def = "fulfill_geometrical_constraints(self.start, self.molecule.nodes[first_node])" /\
  first_accept_conjuncts_call = "self.nonbond_matrix.add_positions(self.start, self.mol_idx, first_node, start=True)".
Proof. vm_compute. intuition. Qed.

Lemma gen_is_overlap : is_overlap_return = "norm(force_vect) > self.max_force".
Proof. reflexivity. Qed.

Lemma gen_step_length :
  step_length_def = "self.step_fudge * self.nonbond_matrix.get_interaction(self.mol_idx, self.mol_idx, prev_node, current_node)[0]".
Proof. reflexivity. Qed.

Lemma gen_grid_start : grid_start = "self.box_grid[start_idx]".
Proof. reflexivity. Qed.

Lemma gen_cycle_pair :
  cycle_tree_def = "molecule.search_tree" /\
  cycle_order_def = "list(tree.nodes)" /\
  cycle_closing_def = "[tuple(sorted(edge, key=order.index)) for edge in molecule.edges if not tree.has_edge(*edge) and (not tree.has_edge(*edge[::-1]))]" /\
  cycle_ends_def = "(list(tree.edges)[0][0], list(tree.edges)[-1][1])" /\
  cycle_nodes_def = "closing[0] if closing else ends" /\
  cycle_restraint_def = "(0.0, tolerance)".
Proof. repeat split; reflexivity. Qed.

Lemma gen_search_tree_dfs : search_tree_dfs_true = "nx.dfs_tree" /\ search_tree_dfs_true_call = "nx.dfs_tree(self, source=self.root)".
Proof. split; reflexivity. Qed.

Lemma gen_ee_arange : ee_arange = "np.arange(avg_step_length, max_path_length, avg_step_length)".
Proof. reflexivity. Qed.

(* the distance predicates used by the engine, over R, are symmetric *)
Open Scope R_scope.
Definition pbc_within (L : vec) (cut : R) (p q : vec) : bool := nleb (pbc_min_norm (pbc_min_vec p q L)) cut.
Definition pbc_tooclose (L : vec) (p q : vec) : bool := nltb (pbc_min_norm (pbc_min_vec p q L)) overlap_floor.
Lemma pbc_within_sym L cut p q : pbc_within L cut p q = pbc_within L cut q p.
Proof. unfold pbc_within. rewrite min_image_symmetric. reflexivity. Qed.
Lemma pbc_tooclose_sym L p q : pbc_tooclose L p q = pbc_tooclose L q p.
Proof. unfold pbc_tooclose. rewrite min_image_symmetric. reflexivity. Qed.
Lemma pbc_tooclose_false L p q : pbc_tooclose L p q = false -> overlap_floor <= pbc_min_norm (pbc_min_vec p q L).
Proof. unfold pbc_tooclose. intros H. apply nltb_false in H. exact H. Qed.
Lemma gen_overlap_floor : overlap_floor = 1 / 10.
Proof. reflexivity. Qed.
